#!/bin/bash
# Offline setup after a fresh restore: builds both harness binaries from files on disk
# (warms the Go build cache; every ./check rebuilds incrementally anyway).
set -u
HERE="$(cd "$(dirname "$0")" && pwd)"
. "$HERE/goenv.sh"
mkdir -p "$HERE/.bin" "$HERE/.run" "$HERE/evidence" "$HERE/replays"
cd "$HERE/harness" || exit 1
cp -f /repo/go.sum go.sum
"$GO" build -tags verif -o "$HERE/.bin/vcheck" ./cmd/vcheck || exit 1
"$GO" build -race -tags verif -o "$HERE/.bin/vcheck-race" ./cmd/vcheck || exit 1
echo "setup ok"
