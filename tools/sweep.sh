#!/bin/bash
# tools/sweep.sh <tier> <seed...> — every check at several VERIF_SEED values on /repo's current tree.
# Run directories, replays and evidence of a sweep go to <checkout>/.sweep (VERIF_SCRATCH), so a sweep started
# with `vp run` from a snapshot never interferes with checks run in /verif; the committed evidence stays the
# VERIF_SEED=1 run made in /verif itself.
HERE="$(cd "$(dirname "$0")/.." && pwd)"
cd "$HERE"
TIER=$1; shift
export VERIF_SCRATCH="$HERE/.sweep"
mkdir -p "$VERIF_SCRATCH/logs"
for seed in "$@"; do
  for i in $(seq -w 1 20); do
    id=C$i
    s=$(date +%s)
    VERIF_SEED=$seed ./check $id $TIER > "$VERIF_SCRATCH/logs/sweep-$TIER-$seed-$id.log" 2>&1; rc=$?
    e=$(date +%s)
    echo "seed=$seed $id rc=$rc $((e-s))s $(grep -m1 -E '^(HELD|VIOLATION|INCONCLUSIVE|KNOWN-FINDING)' "$VERIF_SCRATCH/logs/sweep-$TIER-$seed-$id.log" | cut -c1-160)"
  done
done
