#!/bin/bash
# tools/sweep.sh <tier> <seed...> — every check at several VERIF_SEED values on /repo's current tree;
# evidence goes to .run/sweep-evidence (the committed evidence stays the VERIF_SEED=1 run).
cd /verif
TIER=$1; shift
for seed in "$@"; do
  for i in $(seq -w 1 20); do
    id=C$i
    s=$(date +%s)
    VERIF_SEED=$seed VERIF_EVIDENCE_DIR=/verif/.run/sweep-evidence ./check $id $TIER > .run/sweep-$TIER-$seed-$id.log 2>&1; rc=$?
    e=$(date +%s)
    echo "seed=$seed $id rc=$rc $((e-s))s $(grep -m1 -E '^(HELD|VIOLATION|INCONCLUSIVE|KNOWN-FINDING)' .run/sweep-$TIER-$seed-$id.log | cut -c1-160)"
  done
done
