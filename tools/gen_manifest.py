#!/usr/bin/env python3
"""Generates /verif/MANIFEST.json from the table below (kept in one place so
the manifest is always valid and in sync with what ./check implements)."""
import json, subprocess, os

HERE = os.path.dirname(os.path.dirname(os.path.abspath(__file__)))

def repo_hook_commits():
    out = subprocess.run(["git", "-C", "/repo", "log", "--format=%h %s"], capture_output=True, text=True).stdout
    return [l.split()[0] for l in out.splitlines() if l.split(" ", 1)[1].startswith("verif hooks")]

ALL = ["C%02d" % i for i in range(1, 21)]

# id -> (engine, category, technique, level text, level note, design ref)
CHECKS = {
 "C03": ("E3 pure driver + E5 race detector + E6 porcupine", "exploration",
         "runtime monitor: reference replay-window oracle over exhaustively enumerated and seeded delivery histories of real sealed frames; porcupine linearizability + Go race detector for concurrent deliveries",
         "Every history of a bounded alphabet (all orders, multiplicities, subsets) and seeded 2000-step histories are executed against the real SequenceHandler, Frame.Unseal (regular, priority, signed) and LinkFrame.Unseal; each delivery verdict is compared with a reference written from the statement. Concurrent deliveries are checked for at-most-once and linearizability, and run under -race.",
         "Trusts Ed25519/ChaCha20-Poly1305; histories longer than the bounds and alphabets other than the two enumerated ones are only sampled.",
         "DESIGN.md §3 C03"),
}

CHECKS.update({
 "C02": ("E3 pure driver", "fault_enumeration",
         "runtime monitor: bit-flip fault enumeration over real sealed frames, oracle = hop-mutable position map from the statement; wrong-session matrix; clear-text search",
         "For seeded parameter tuples across all message types, pooled tiers, switch/appendix sizes and margins the real Seal/ParseFrame/Unseal run on every flipped header/switch/length/auth bit and on payload bits (all bits for small frames), and on TTL/flow/appendix edits that must keep the frame valid; acceptance is compared with 'all flipped bits hop-mutable'.",
         "Trusts Ed25519/ChaCha20-Poly1305 strength; payload bits of frames above the exhaustive bound are sampled; a parse error counts as rejection.",
         "DESIGN.md §3 C02"),
 "C12": ("E3 pure driver", "exploration",
         "runtime monitor: real BuildBlocks + hop-by-hop NextRotateSwitchBlock/TransformToReturnBlock traversal inside guard bytes against a reference occupancy bound; observed minimality probe",
         "All label vectors over size-class representatives up to 4 (6 reps) / 6 (3 reps) hops and millions of seeded random paths up to 101 hops (incl. totals around and beyond 255 bytes) are built and traversed forward and back with the real code; labels, guard bytes, return block, reverse traversal and computed size (sufficient, minimal by executing with one byte less) are asserted.",
         "Label values are class representatives for the exhaustive part; longer paths are sampled.",
         "DESIGN.md §3 C12"),
 "C17": ("E3 pure driver + E5 race detector", "exploration",
         "runtime monitor: shadow-image comparison of every live frame after every operation of seeded op sequences on a shared Builder; tag/link/address search on recycled structs and slices; Go race detector on a shared builder",
         "Seeded sequences of new/parse/clone/reply/set-appendix/edit/release operations with sizes on every pooled tier boundary run against one shared Builder; every live frame is compared with its shadow after every step, clones with their originals, and every new or recycled frame's whole buffer is searched for bytes, links and addresses of released frames; recycling is confirmed by pointer identity.",
         "sync.Pool decides what is recycled (counted, minimum enforced); sequences are sampled, not enumerated.",
         "DESIGN.md §3 C17"),
})

CHECKS.update({
 "C11": ("E3 pure driver + E5 race detector + E6 porcupine", "exploration",
         "runtime monitor: the statement's clauses evaluated on routing-table snapshots (hook VerifEntries) after every operation of exhaustively enumerated and seeded operation sequences; porcupine linearizability against the sequentially replayed real table; Go race detector",
         "All sequences over a 17-operation alphabet (peer/gossip adds with system-producible paths, next-hop and disconnect removals, ageing+cleanup) up to a bounded length on a small universe for EntriesPerPrefix 1..3, and seeded 3000-10000-operation runs over ~1000 destinations under the real per-address prefix configs; after every operation lookups (exact destination, peer first, best-first), added/not-added semantics, peer retention, per-destination and per-prefix bounds, expiry and removal post-conditions are checked.",
         "Ageing uses the hook VerifAgeEntries (moves expiries by >= 30 min); sequences beyond the bound are sampled.",
         "DESIGN.md §3 C11"),
 "C15": ("E3 pure driver + E5 race detector + E6 porcupine", "exploration",
         "runtime monitor: uniqueness/contiguity/real-time-order check of (key epoch, class, sequence) records from concurrent Out calls across the 32-bit wrap (porcupine fetch-and-increment model, Go race detector); epoch-aware acceptance oracle over in-order and bounded-reordering deliveries of real sealed frames across the wrap; duplex replay/uniqueness check",
         "Concurrent senders on one session with the counter preset just before the wrap; 600-frame histories across the wrap at 40 (quick) / 299 (thorough) offsets, in order and under displacement<=8 permutations, for end-to-end and link frames: every frame's acceptance is compared with 'receiver is (or thereby moves) in the frame's key epoch', keys must agree afterwards, accepted and pre-wrap frames never unseal again; duplex traffic while one direction wraps.",
         "The wrap is reached through the repository's EncryptionSessionTestHelper preset; goroutine interleavings are sampled by the scheduler.",
         "DESIGN.md §3 C15"),
 "C19": ("E3 pure driver + real miekg server on loopback UDP", "exploration",
         "runtime monitor: reference resolver (source precedence + .myco/type/class filter) compared with Server.Lookup, recorded ServeDNS replies and wire replies over seeded colliding configurations; metamorphic mapping insertion/removal; worker-panic alert monitor",
         "Seeded configurations with names deliberately colliding across built-in, resolve, forbidden, friend and mapping sources; every name in case/trailing-dot variants x 45 types x 6 classes plus look-alike names is resolved through Lookup, ServeDNS and (every 10th config) the real server on a loopback socket including malformed and empty-question packets; rcode and every returned address must equal the reference.",
         "Friend names lower-case; unicode names only in punycode form; empty-question packets only via the wire (miekg accept filter).",
         "DESIGN.md §3 C19"),
})

CHECKS.update({
 "C18": ("E4 process-level fault injection (strace inject, RLIMIT_FSIZE) + E3", "fault_enumeration",
         "runtime fault injection: child process runs the real JSONFileStorage.Stop and is SIGKILLed with exactly k bytes written (RLIMIT_FSIZE=k + strace kill at the retry write), at the entry of every file syscall of the save, and given ENOSPC/EIO on every write; oracle = fresh load deep-equals S0 or S1",
         "For seeded state pairs (S0 on disk or absent, S1 installed through the storage API, 0..200 routers/mappings with unicode/empty/long fields) every byte offset (all for small states, strided for large; all in thorough) and every file-mutating syscall entry of the save is a crash point; after each crash NewJSONFileStorage must succeed and reproduce S0 or S1 exactly; plus exact round trips without crash and a clean save after a failed one.",
         "SIGKILL keeps the page cache: power-loss ordering (missing fsync) is not observable; crash points are at syscall/byte granularity of whatever file the implementation writes.",
         "DESIGN.md §3 C18"),
 "C20": ("E4 child processes running the real mycoria.New/Start/Stop + E5 race detector", "exploration",
         "runtime monitor: real relay-only instances in child processes (Parse -> New -> Start -> peer over loopback TCP -> Stop) for seeded configurations and 1..k cycles; oracle on errors/panics, worker counts, listener, peer addresses, Stop result and goroutine-profile residue; Go race detector",
         "Seeded valid relay-only configurations (universe/secret, lite, stub, services, friends, api listener, state file) are started as two routers in one child process, peered over loopback, stopped, and cycled; New/Start errors or panics, missing workers, a listener that does not accept, wrong peer addresses, Stop()==false, workers left, router goroutines alive after stop and worker panics on stderr are violations.",
         "Port allocation and scheduling are real-time; watchdogs (30 s link wait, 8 min per child) make a run inconclusive, never a violation, except that a router goroutine still alive 10 s after Stop counts as left running.",
         "DESIGN.md §3 C20"),
})

CHECKS.update({
 "C09": ("E1 vmesh (deterministic virtual mesh of real router/switch/state/peering objects)", "exploration",
         "runtime monitor: real announcement flooding in a harness-scheduled virtual mesh; quiescent-state oracle on routing tables + real link registries + label-switched probes; per-send flooding-clause monitor on the frame log; budgeted exhaustive DFS over delivery orders for tiny meshes",
         "Lines, rings, stars, trees, grids and seeded sparse graphs of 2..16 real routers with 1-/2-byte/mixed labels and router infos up to 1.5 KB announce with the real code; the network is drained FIFO, in seeded random orders and (2-3 routers) over all delivery orders up to a schedule budget; at quiescence every ordered pair must have an exact route whose forward labels lead to the destination over the real registries and through the real switches, and every announcement send is checked against the flooding clauses (not to origin / hop-list member, simple topology path, at most once).",
         "Lossless links, honest routers; schedules beyond the DFS budget are sampled; evidence says how many tiny meshes were exhausted.",
         "DESIGN.md §3 C09"),
 "C10": ("E1 vmesh", "exploration",
         "runtime monitor: per-crossing monitor (TTL strictly decreasing, never 0, crossing bound, byte-for-byte preservation outside TTL/flow/switch block) over real routed requests, pong request/reply and label-switched frames in converged meshes and over adversarial routing tables/label blocks",
         "In meshes converged by the real announcement code every ordered pair exchanges a custom probe ping (registered handler fires at the destination only), a real pong request/reply and a label-switched frame built from the table's forward block; with routing tables filled with cyclic/inconsistent routes and frames carrying looping/dangling label blocks and TTL 1..255 every crossing is checked for TTL decrease, TTL>0, at most TTL-1 crossings and unchanged bytes.",
         "Meshes up to 16 routers; adversarial states are seeded samples.",
         "DESIGN.md §3 C10"),
})

CHECKS.update({
 "C06": ("E3 pure driver (config) + E1 vmesh (router paths, fake tun)", "exploration",
         "runtime monitor: reference firewall/isolation oracle written from the statement vs CheckInboundTrafficPolicy over the full protocol x port x sender grid of seeded configurations, and vs what reaches a fake tun device / leaves on virtual links when real sealed traffic frames and local packets are handled by the real router",
         "Seeded service/friend/isolation configurations; every protocol 0..255 x interesting ports x senders through the policy function; real end-to-end sessions, sealed traffic frames with honest, spoofed-inner-source, foreign-inner-destination and corrupted variants delivered to a victim router whose local interface is observable; local packets with own/foreign sources to friend/non-friend/non-Mycoria/multicast destinations and malformed ones through the real tun handler with all outgoing frames observed.",
         "API-address packets (need gVisor netstack) not exercised; the admit-replies-of-allowed-connections behaviour is kept out by using fresh victims and 5-tuples.",
         "DESIGN.md §3 C06"),
 "C14": ("E1 vmesh", "exploration",
         "runtime monitor: schedule enumeration by re-execution (deliver / drop / deliver-twice of every in-flight hello message, initiator sets, retries after logical expiry) over real routers; quiescent-state oracle: both set up => traffic sealed by either unseals at the other; bounded-progress: one clean retry completes",
         "Two real routers (direct and via a relay, both address orders); exhaustive DFS over all schedules without retries, budgeted DFS plus seeded sampling with retries at every position; every schedule ends in the oracle 'not (both established and undecryptable)' plus 'a clean new setup by a side that is not set up completes'.",
         "Timer expiry is simulated by the hook VerifExpireHello; schedules with retries are budgeted/sampled.",
         "DESIGN.md §3 C14"),
})

CHECKS.update({
 "C07": ("E1 vmesh", "exploration",
         "runtime monitor: before/after snapshot comparison of the victim's sessions/keys, MTU, stored router info, offline flag, routing table and connection states around every delivered variant of authentic pings produced and intercepted in a live virtual mesh; positive controls on the authentic frame's effect",
         "A long-lived victim with peers, gossip routes, sessions and connection states; for every ping type/code an honest router's real code emits the ping, it is intercepted on the victim's link, and before it is delivered every byte-mutated, re-addressed (source rewritten to every other known router) and type-switched variant, and afterwards immediate/late/other-link replays, must leave the snapshot unchanged; the authentic frame may only change what the statement allows (hello: the source's session; disconnect: routes containing the source).",
         "Bookkeeping excluded (bare stored records of valid identities, UsedAt, rate limiter); announcements' appendices are C08's business; one bit per byte in quick.",
         "DESIGN.md §3 C07"),
 "C08": ("E1 vmesh", "exploration",
         "runtime monitor: authentic announcements with 0..12 signed hop records harvested from real flooding; forged variants (bit flips at every layer, cross-announcement splices, stripped/re-attributed/re-ordered/duplicated layers, layers re-signed with real keys over foreign or modified inner chains, wrong delivering link, rewritten source) delivered to a fresh victim; oracle on routing-table snapshot and forwarded announcements; accepted routes compared hop-by-hop with the attached signed records",
         "Every variant an attacker can build from valid announcements and from keys he really holds is delivered to a fresh router; non-authentic ones must change neither the routing table nor be forwarded, authentic ones (positive control, up to 12 hop records) must yield a route listing exactly the signed records in order with their signed labels/delays and the delivering peer as next hop.",
         "Ed25519 unforgeability assumed; a signer dropping earlier records and re-signing its own is authentic by the statement's definition.",
         "DESIGN.md §3 C08"),
})

CHECKS.update({
 "C04": ("E2 wire (real link setup over an interposed in-memory connection)", "fault_enumeration",
         "runtime fault injection on the six handshake messages (bit flip at every byte, truncation, drop, duplicate, swap, replay from an earlier session against kept and restarted state, reflection, impostor with a foreign key / full transcript replay) with the real setup code on both ends; oracle on the receiving router's link registry, routing table and setup result; honest configuration matrix with traffic exchange as positive control",
         "The real handleSetup runs on both ends of a wire that applies exactly one fault per run at every message position and direction; the router that received the faulty message must register no link and add no peer route; honest runs over the universe/secret matrix must complete exactly when the admission rules are met, report the true peer and carry byte-identical traffic both ways.",
         "Crypto strength assumed; one random bit per byte in quick, all 8 bits in thorough; a stuck handshake is ended by closing the connection (what a timeout would do).",
         "DESIGN.md §3 C04"),
 "C05": ("E2 wire (real link reader/writer workers)", "fault_enumeration",
         "runtime fault injection on the post-handshake byte stream of a real link (bit flips per link-frame field, truncation, drop, duplicate/hold at window-edge distances, swap, replay, injected random and well-framed garbage) with unique-id frames of every size tier; oracle: delivered multiset ⊆ sent (byte-identical, multiplicity ≤ 1), bounded-progress after desynchronisation, canary search on the wire, worker-panic alerts",
         "Frames of every message type and every pooled size tier up to the 64 KiB link maximum cross a real link while the wire applies one fault plan; what the receiver's frame handler gets is compared byte for byte with what was handed to the link; non-desynchronising faults may lose only the frames they touched; after desynchronising ones the sender transmits more than 100 x 64 KiB of intact frames and the link must be closed or deliver a suffix.",
         "One priority class per run (the writer reorders across classes); wire messages are mapped to frames by order.",
         "DESIGN.md §3 C05"),
})

CHECKS.update({
 "C16": ("E2 wire (real link setup, real link workers) + E5 race detector", "exploration",
         "runtime monitor: registry/routing-table invariants evaluated at structural quiescent points of seeded churn sequences (connect, cross-connect with seeded message delays and with the directed message order forced by message holds at the wire, local/remote/manager close, I/O error, EOF, break mid-handshake) against the set of link objects the harness knows to be alive; Go race detector on the same workload",
         "2..5 real peering managers with routing tables; after every event all setups have returned and every link whose connection was closed reports closing; then every live link must be found by peer and by label, no closing link may be found or listed, live labels must be unique and non-zero, and peer routes must exist for exactly the peers with a live link with no route through a next hop without live link.",
         "Goroutine interleavings are sampled (scheduler + seeded message delays + one forced cross-connect order), not enumerated.",
         "DESIGN.md §3 C16"),
})

CHECKS.update({
 "C01": ("E3 pure driver + E2 wire + E1 vmesh + E5 race detector", "exploration",
         "runtime monitor: reference address verifier written directly on the hash libraries (std sha2/sha3, x/crypto blake2, blake3) compared with what the real code accepts at four entry points (stored identity load, signed peering request on a real wire, first-contact ping header, outermost announcement hop record) for valid identities, every single-field corruption and ground corrupt identities whose digest really matches; generator outputs checked against the same reference; Go race detector on the multi-core generator",
         "Seeded identities over every valid hash algorithm and easing; every address bit, every hash-name/key-type/key-bytes/easing corruption, and corrupt key material ground until its digest maps into fd00::/8 are presented to AddressFromStorage, to a victim's real link setup, to a victim router as a ping and as an announcement hop record; acceptance must equal the reference verdict, and accepted ones must be registered under exactly the derived address; generated identities must satisfy prefix, ignore list, easing and verify.",
         "Hash functions and Ed25519 are trusted; ground identities use at most 2^12..2^20 grinding steps per identity.",
         "DESIGN.md §3 C01"),
 "C13": ("E1 vmesh (sync handlers) + E2 wire (real link setup/reader) + real mycoria.New instance over loopback TCP", "exploration",
         "runtime monitor: hostile-input search against long-lived victims with panic/stall oracles: mgr.ErrWorkerPanic from the handler hooks (sync), worker-panic alerts of the real managers, sentinel pongs and twice-sampled worker stacks (async), recovered panics at the parser, setup return after close (handshake)",
         "Random and length-inconsistent bytes to the frame parser; random streams, every short length prefix, truncated/extended/bit-flipped genuine requests and correctly signed requests with hostile CBOR bodies to the real link setup; raw garbage and short link frames on established real links; an authenticated malicious peer with real keys and a real end-to-end session sending every ping type with fuzzed headers/bodies/header lengths, announcements with hop-record chains of depth 0..150 with per-layer corruptions (unknown algorithms, key sizes, loops, tiny/garbage inner attachments, bad signatures), traffic/session frames with inner/outer mismatch, too short, denied, and arbitrary frames with every kind of switch block, through the switch+router handlers of a vmesh victim (exact attribution) and through a real TCP link into a real relay-only instance with its worker pools.",
         "A search, not an enumeration: silence means no panic/stall on the generated shapes; double release is observed through the repository's own guard (it panics).",
         "DESIGN.md §3 C13"),
})


# Additions after the second round of seeded changes (appended to the coverage text of each check).
EXTRA = {
 "C01": " Also: real keys whose true digest lies outside fd00::/8, and victims that already know the honest owner of an address when the same address arrives under another real key (hop record and ping header). Third round: every easing bit flipped; a known router's peering request with one corrupted record field signed with its real key.",
 "C02": " The appendix is also changed through the API (SetAppendixData by a forwarder that parsed the frame off a link with link margins, and by the sender on its sealed frame) to sizes that stay in place or move the frame into every bigger buffer tier. Two independent key exchanges that both crossed a key rollover must stay separate. Priority traffic before the wrap.",
 "C03": " Histories also contain events of the session itself: the 32-bit wrap of one direction's regular counter with priority traffic in both directions, and key-setup attempts with hostile key-exchange values; in-order first deliveries must be accepted, every second delivery refused. Damaged copies (flipped authentication bit, also of frames far ahead) are delivered between genuine frames. Signed frames in the event histories; both ends installing new keys as an event.",
 "C04": " A scripted client (messages written by hand with the peer's real keys) plays a router that names the universe but lacks the secret and mirrors the victim's own challenge/universe auth, and a peer that completes two parallel connections one after the other (the second link must be refused or sealed). Classes with a universe secret but no universe name. The peer's last message for a third router delivered in place of the one for this router; a first-contact ping claiming an address under a foreign key followed by a handshake for that address signed with that key.",
 "C05": " Link frames are also reflected back to their own sender. The stream re-segmented into reads of 1/2/3/7/1000 bytes; replays and duplicates across a key rollover of the link session (hook VerifLinkEncryption). Early frames of a fresh link replayed while the receiver is in the rollover zone (judged by bounded progress).",
 "C06": " Service URLs with out-of-range ports and other ill-formed services the parser accepts must open nothing beyond the well-formed services; a refused flow is sent again after authentic error pings of every non-key kind and a pong request from the sender and a third router. A prohibited local destination retried on other connections after error pings about it.",
 "C07": " After the authentic frame: immediate replays with a changed message or signature byte; for announcements a fresh one extended by a hop record naming a known router under a foreign key. A quiet router (never answered by the victim) whose announcement is replayed after newer frames and a disconnect. A probe handler counts dispatches: replays after exactly 1/2/63/64/65/128 lost later pings of the class; a refused announcement naming an unknown address followed by a hello claiming it.",
 "C08": " Announcements with hop records are also delivered on the link of their origin. An inner hop record under a foreign key, also after the victim refused a peering request claiming that address with that key; a second authentic announcement sharing relays with the first on the same victim.",
 "C10": " Frames injected with TTL 0; originated requests (signed and encrypted) of every message size around each pooled-buffer tier must leave with the link margins and arrive 2 hops away. Frames over a real link (real writer/reader) under re-segmentation.",
 "C11": " Best-first is also checked against delay sums computed by the monitor from the hops (paths whose hop delays sum beyond 16 bits included). AddRoute bystander rule: only a refreshed same route, a replaced peer route or one non-peer route under cap pressure may disappear. Saturation of one prefix exactly to its bounds; real nested prefix configs flooded on both sides of the own prefix, then cleaned.",
 "C12": " Paths are also rebuilt in place on a struct that already carries blocks (route refresh); the rebuilt path must traverse exactly and the copy handed out earlier must be unchanged. Routes updated through a routing table (take out, change labels, store again); forward blocks carried in real frames up to exactly 255 bytes and rotated in place. Real routes carried through real switches of a virtual mesh, block reversal checked at the destination, return trip over the reversed block.",
 "C13": " The victim's own requests (keep-alive pong, routed pong, key setup) are answered once, repeatedly (separately signed) and with hostile bodies; correctly signed handshake responses/acks with hostile bodies; race-detector part: one peer opening two connections at once, again and again. First-contact pings from addresses that are the digest of odd-sized keys; hostile value per field of otherwise genuine handshake responses/acks incl. 20-40 KB values in hand-written frames.",
 "C14": " Also from a prior completed setup with traffic in both directions after which one router lost its keys and initiates again (the other re-keys its used session in place). Several local workers starting a setup at once. Housekeeping ticks of the hello handler as schedule actions.",
 "C16": " Two of the five identities have addresses from which no switch label can be derived (their links get random labels). Manager close concurrent with another link setup; gossip route to a peer via another peer.",
 "C17": " Builds the builder must refuse (empty/oversized message, switch block, appendix) are part of the operation alphabet. Replies the builder must refuse; a pipeline workload in which building and releasing goroutines differ.",
 "C19": " Mappings stored under names outside .myco (incl. names merely ending in 'myco') must not make those names answerable; lookups run concurrently with mapping updates (plain build: answers unchanged, no fatal error; race-detector build anchored on the store and the resolver). One failed write deadline on the resolver's socket, then bounded-progress probes; bounded stop. A mapping changed and removed between two queries through the DNS handler.",
 "C20": " One child mode runs under taskset on a single CPU (runtime.NumCPU()==1). Long universe names, 25-35 advertised services; a first cycle in which the routers meet nobody (state file on). Peering through router.bootstrap; listeners and peer URLs on the IPv6 loopback.",
 "C09": " Stars/trees with 8.8-9.4 KB router infos. Router infos growing byte by byte to the 10000-byte message limit.",
 "C15": " The duplex workload tracks both classes of the direction whose key does not change.",
}
ENGINE_EXTRA = {"C19": " + E5 race detector", "C13": " + E5 race detector", "C12": " + E1 vmesh (real switches) + real frames", "C10": " + E2 wire (real link under re-segmentation)",
                "C04": " + E1 vmesh victim (ping handler and peering manager together)", "C08": " + E2 wire (refused peering request)", "C02": " + repository test helper (counter preset)", "C09": ""}
TECH_EXTRA = {"C19": "; Go race detector on lookups concurrent with mapping updates", "C13": "; Go race detector on simultaneous connections of one peer (anchors: key-exchange state, setup state machine, ping handlers)",
              "C04": "; scripted client with real keys (universe-auth mirror, sequential completion of two parallel connections)", "C03": "; session-event histories (counter wrap, hostile key setups)"}

# Round 5 additions (virtual time, concurrency monitors, multi-round histories, whole-process cases).
EXTRA5 = {
 "C01": " One caller reusing its ignore list (the same slice) across generator calls with different acceptable sets.",
 "C02": " Isolation of independent exchanges after one, two and three key rollovers each.",
 "C03": " Sessions looked up through State.GetSession for every delivery, with the passage of time (hook VerifAdvanceTime) and cleaner ticks (VerifHousekeeping) between deliveries, always less than the idle lifetime since the last use; signed frames whose timestamps lie milliseconds, hours, days and a year apart.",
 "C04": " A replayed message at a router that has seen it before must stop the handshake right there (what the router sends next is decoded: only an error notice is allowed), tried three times in a row against the same router; genuine requests of a known peer dated seconds, hours, days and a year before its last accepted handshake.",
 "C05": " Frames carry arbitrary TTL and flow-control bytes (all 8 bits). The double-dial scenario (a link that comes up while another connection of the same peer used the shared key-exchange state) with the clear-text search.",
 "C06": " Quiet time (11 s, 61 s, 11 min through VerifAdvanceTime, with and without a cleaner tick) between the refusal and the retries; the very same connection again.",
 "C07": " Right after every authentic ping that changed something about its source (keys dropped or replaced, offline, routes removed) earlier frames of that source are replayed. Exact copies of one genuine ping handled by parallel workers of a router that holds only the stored record of the sender (session dropped by the cleaner), with the storage lookup slowed down (env.SlowStorage): at most one copy may be handled.",
 "C08": " A spliced announcement delivered while genuine announcements of the other origin are being verified by parallel workers (plain and race-detector build); a re-announcement over the same relays with other signed values (relay latencies swapped, total unchanged): if the router forwards it, its route must list the values signed in it.",
 "C09": " Meshes that live through 5-6 announcement rounds with latency changes (one link monotonically down, then up) and routers joining late; link sets that change from inside a link's Send, i.e. between two iterations of a forwarding loop (per-handling fan-out oracle: every peer linked before and after gets the forward exactly once).",
 "C10": " Meshes whose central router runs in lite mode (line of 3, stars).",
 "C11": " Concurrent churn: lookups of stable destinations while other goroutines add, remove and clean around them (every lookup must return exactly that destination; no panic), peer routes added/removed while Clean runs (no update may be lost), plain and race-detector build.",
 "C12": " One frame object through its whole life: rotations at every hop, appendix grown on the way (up to 9 KB), turned into a reply of 16..6000 bytes in place, rotations back - after every step the bytes on the wire must carry the block a plain slice holds after the same rotations. Traversal through the running worker pools of the switches (Switch.Start, frames fed through the real input channel).",
 "C13": " A neighbour behind a real link stops reading (frozen reader on a TCP connection) while the authenticated peer sends 14000-30000 transit frames of both classes for it.",
 "C14": " The second initiator starts at a point the schedule chooses (only if it does not consider encryption established then); authentic 'no encryption keys' error pings from either side as schedule actions; deliver-only spaces searched depth-first and sampled.",
 "C15": " Both directions of one pair wrap, in every order of 2..3 (thorough 2..5) wrap events, for the end-to-end pair and the derived link-layer pair; keys compared at the end.",
 "C16": " Quiescence is structural: a link counts as closed when it has closed its connection (after unregistering). The routing table's Clean runs in a loop concurrently with a connect or close of the same router.",
 "C18": " Generations: one state file through several runs that each change exactly one thing (lookups only, delete one mapping, delete one router, save one, prune, nothing). Whole-router cases: mycoria.New+Start on the state path, new state through the instance's storage, SIGKILL before shutdown or RLIMIT_FSIZE during it, then reload and start again. The new state a crashed child reached is judged against that child's own dump.",
 "C19": " Learned names asked for continuously while they are re-mapped and deleted (final answers must equal the last write); restart generations on the JSON state file (delete-only, re-map-only, add-only, no change).",
 "C20": " A listener that sees 48 probes, garbage streams and half handshakes before the peer dials in.",
}
for k, v in EXTRA5.items():
    EXTRA[k] = EXTRA.get(k, "") + v
ENGINE_EXTRA["C08"] = ENGINE_EXTRA.get("C08", "") + " + E5 race detector"
ENGINE_EXTRA["C18"] = " + whole-router child processes"
TECH_EXTRA["C08"] = "; concurrent deliveries by parallel workers, Go race detector anchored on the announcement verification code"
TECH_EXTRA["C07"] = "; virtual time hooks (session cleaner) and an interposed slow storage for concurrent copies of one ping"
TECH_EXTRA["C11"] = "; concurrent churn invariant monitor (stable destinations, no lost update under Clean)"
TECH_EXTRA["C03"] = TECH_EXTRA.get("C03", "") + "; session lifetime histories under virtual time"
TECH_EXTRA["C06"] = "; virtual time between refusal and retry"
TECH_EXTRA["C12"] = "; running switch worker pools (vmesh live mode)"
TECH_EXTRA["C09"] = "; multi-round histories; re-entrant link changes inside the forwarding loop with a per-handling fan-out oracle"
TECH_EXTRA["C16"] = "; routing-table housekeeping concurrent with link events"

# Round 6 additions.
EXTRA6 = {
 "C02": " A key pair rolled over and used for a full round trip right after each rollover; appendix growth bounded by the protocol's 10000-byte message limit.",
 "C03": " Signed deliveries whose timestamps are spread over gaps from milliseconds to a year (signed deliverer).",
 "C04": " Messages cut at the boundary of a fixed-length field; a message altered and then delivered again in its original form; what the victim had already done when the connection was cut (BeforeCut) is part of the oracle.",
 "C05": " Oversized frames the parser must refuse; a link closed while traffic is in flight (no clear text after the close either); progress budget counted in bytes really sent. A link closed after a fault that cannot desynchronise the ciphers is recorded (counter), not judged.",
 "C06": " A hello among control pings of other kinds during the quiet time.",
 "C07": " Concurrent exact duplicates of one state-changing ping.",
 "C08": " A refused ping must not poison later genuine announcements of the same origin; announcements delivered right after a rejected one.",
 "C09": " Forwarding loops under link churn; work a handler hands to goroutines of its own is waited for (vmesh.Settle) before a drained network counts as quiescent.",
 "C10": " Frames originated by the central router (TTL of the origin) and local builds the router must refuse.",
 "C11": " Saturation at every prefix length; nested routable prefixes that start at the same address as the prefix around them, with more than the limit of destinations on both sides (limit looked up by prefix length).",
 "C12": " Decoy links whose labels are in use elsewhere; a peer that reconnects with the same labels (second pass).",
 "C13": " A connection that stalls in the middle of the setup; sentinel pong after the flood; four stack samples before a worker counts as stuck.",
 "C14": " Deliver-only schedules; late initiation only offered to a side that is not set up; schedules that overlap a detected process stall are discarded, not judged.",
 "C15": " Key-setup events must be unique per session and direction (workload 5).",
 "C16": " A Close that never finishes is treated as abandoned after 6 s without a process stall and the registry is judged as it is; a verdict counts only if no link changed its closing state while the invariants were read and no Close was in progress.",
 "C18": " Delta installs; each crashed child's result is judged against that child's own dump.",
 "C19": " Handler edge cases (messages with no question or several questions handed to ServeDNS directly: no panic, no positive answer), question bursts while the reply writer is blocked (bounded progress afterwards).",
 "C20": " Survivor mode (one peer killed, the other two must keep their link); kernel-chosen ports, a child rerun when the port was taken by another process.",
}
for k, v in EXTRA6.items():
    EXTRA[k] = EXTRA.get(k, "") + v
TECH_EXTRA["C14"] = TECH_EXTRA.get("C14", "") + "; process-stall monitor (schedules overlapping a VM stall are inconclusive, not judged)"

EXTRA7 = {
 "C02": " Sealed frames kept alive as objects while their builder does other work, refusing paths included (bytes and round trip afterwards).",
 "C03": " First-contact race: several workers handle copies of one signed frame of a known router without session object, storage lookup stretched. Replays after the idle lifetime of a session (virtual time): the signed class is a known finding (known_findings.json), the encrypted classes must stay refused.",
 "C04": " The two halves of an end-to-end hello between the two routers (request served in place; response installed as a detached session) placed at every message position of their handshake, either router initiating: if both ends register the link, traffic must cross it. The first half is a known finding (known_findings.json): a router serving a hello request of its peer in the middle of their link handshake ends up with link keys of the wrong exchange.",
 "C05": " Reflection after both directions of a link rolled their keys over.",
 "C07": " The victim's own frames reflected to it (as sent, and with a genuine hop record of the neighbour).",
 "C08": " Announcements after idle minutes and session-cleaner ticks (virtual time).",
 "C09": " Two announcements handled by one router at the same time (the second inside the link send of the first).",
 "C10": " Routing-table housekeeping at every router before the traffic starts.",
 "C11": " Lookups one at a time between table updates (sparse lookups).",
 "C12": " The destination reverses the block where it is and replies over the frame's own block (when the reply fits its buffer).",
 "C13": " The authenticated peer chooses its sequence numbers (ends of the number space, backwards); synchronous deliveries under a 30 s stall watchdog.",
 "C14": " The second initiator's Send overlapped with a frame worker serving the first one's request: at the link-send suspension point inside Send (every continuation), and through the real tun trigger with two goroutines. Frames of the previous keys arriving after the new setup.",
 "C17": " Frames parsed out of a buffer the caller owns (several per buffer, capacities on the builder's classes); the copies a router makes of one frame for several links compared with the frame received (hub meshes).",
 "C19": " Second names for one friend.",
 "C20": " API clients (silent, mid-request, idle) connected while the router stops.",
}
for k, v in EXTRA7.items():
    EXTRA[k] = EXTRA.get(k, "") + v
TECH_EXTRA["C14"] = TECH_EXTRA.get("C14", "") + "; overlap of a local Send with a frame worker at an existing suspension point (link send) and by real goroutines through the tun trigger"
TECH_EXTRA["C04"] = TECH_EXTRA.get("C04", "") + "; session events (end-to-end key setup) injected at message boundaries by the wire scheduler; known-findings matcher on the failing history"
ENGINE_EXTRA["C17"] = ENGINE_EXTRA.get("C17", "") + " + E1 vmesh (fan-out copies)"

EXTRA8 = {
 "C05": " A lost intact frame is judged by bounded progress: ten further frames sent one at a time must arrive, or the link be closed.",
 "C06": " The victim pings the router and gets its answer among the control messages between refusal and retry.",
 "C11": " Country prefixes that lie inside their region (nested clean runs).",
 "C15": " Exchange-key clean-up as a key-setup event.",
 "C16": " Connections that die silently (writes refused, reads keep waiting): a link that keeps such a connection is reported; registry readers running next to the events.",
}
for k, v in EXTRA8.items():
    EXTRA[k] = EXTRA.get(k, "") + v

NOT_YET = "check not implemented yet in this revision of /verif (work in progress; see DESIGN.md §8)"

def main():
    checks = []
    for pid in ALL:
        if pid not in CHECKS:
            continue
        eng, cat, tech, text, note, ref = CHECKS[pid]
        text += EXTRA.get(pid, "")
        eng += ENGINE_EXTRA.get(pid, "")
        tech += TECH_EXTRA.get(pid, "")
        checks.append({
            "property_id": pid,
            "quick_cmd": f"./check {pid} quick",
            "thorough_cmd": f"./check {pid} thorough",
            "evidence_file": f"/verif/evidence/{pid}.json",
            "replay_cmd_template": f"./check {pid} quick --replay {{path}}",
            "engine": eng,
            "level_claimed": {"category": cat, "text": text, "design_ref": ref},
            "level_note": note,
            "technique": tech,
        })
    na = [{"property_id": p, "reason": NOT_YET} for p in ALL if p not in CHECKS]
    manifest = {
        "version": 1,
        "setup_cmd": "./setup.sh",
        "hooks": {
            "guard": "verif (Go build tag)",
            "enable": "go build -tags verif (the harness module replaces github.com/mycoria/mycoria by /repo, so every check compiles /repo's working tree with the hook files */verif_hooks.go)",
            "baseline_off_cmd": "cd /repo && . /verif/goenv.sh && $GO test -json -vet=off -count=1 -timeout 25m ./...",
            "source_commits": repo_hook_commits(),
            "add_only": True,
        },
        "engines": [
            {"name": "vcheck", "path": "harness/cmd/vcheck", "serves_properties": sorted(CHECKS), "kind_free_text": "one Go binary: supervisor + isolated worker process per check; monitors over the real mycoria packages (replace => /repo); plain and -race builds"},
        ],
        "checks": checks,
        "not_applicable": na,
        "notes": "Runtime monitoring only: every verdict comes from an oracle observing executions of the compiled /repo tree. Exit 0 held, 1 violation (VIOLATION line), 3 inconclusive (INCONCLUSIVE line, never a VIOLATION). known_findings.json lists recorded and fixed defects.",
    }
    with open(os.path.join(HERE, "MANIFEST.json"), "w") as f:
        json.dump(manifest, f, indent=1)
        f.write("\n")

if __name__ == "__main__":
    main()
