#!/usr/bin/env python3-vt
"""Validates MANIFEST.json and every evidence file against the schemas."""
import json, glob, sys, jsonschema
ok = True
def v(path, schema):
    global ok
    try:
        jsonschema.validate(json.load(open(path)), json.load(open(schema)))
        print("valid  ", path)
    except Exception as e:
        ok = False
        print("INVALID", path, str(e).splitlines()[0])
v("/verif/MANIFEST.json", "/root/.vp/MANIFEST.schema.json")
for f in sorted(glob.glob("/verif/evidence/*.json")):
    v(f, "/root/.vp/EVIDENCE.schema.json")
m = json.load(open("/verif/MANIFEST.json"))
ids = {c["property_id"] for c in m["checks"]} | {n["property_id"] for n in m.get("not_applicable", [])}
want = {"C%02d" % i for i in range(1, 21)}
if ids != want:
    ok = False
    print("manifest does not cover", sorted(want - ids))
sys.exit(0 if ok else 1)
