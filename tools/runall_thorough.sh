#!/bin/bash
# tools/runall_thorough.sh — every thorough tier once, sequentially; evidence under .run/thorough-evidence.
cd /verif
for i in $(seq -w 1 20); do
  id=C$i
  s=$(date +%s)
  VERIF_EVIDENCE_DIR=/verif/.run/thorough-evidence ./check $id thorough > .run/thorough-$id.log 2>&1; rc=$?
  e=$(date +%s)
  echo "$id rc=$rc $((e-s))s $(grep -m1 -E '^(HELD|VIOLATION|INCONCLUSIVE|KNOWN-FINDING)' .run/thorough-$id.log | cut -c1-200)"
done
