#!/bin/bash
# tools/runall.sh [tier] — runs every check sequentially on /repo's current tree, prints one line each.
cd /verif
TIER=${1:-quick}
if [ -n "$(git -C /repo status --short)" ]; then echo "warning: /repo not clean"; fi
rc_all=0
for i in $(seq -w 1 20); do
  id=C$i
  s=$(date +%s)
  ./check $id $TIER > .run/runall-$id.log 2>&1; rc=$?
  e=$(date +%s)
  echo "$id rc=$rc $((e-s))s $(grep -m1 -E '^(HELD|VIOLATION|INCONCLUSIVE|KNOWN-FINDING)' .run/runall-$id.log | cut -c1-150)"
  [ $rc -ne 0 ] && rc_all=1
done
exit $rc_all
