#!/bin/bash
# tools/seedcheck.sh <PROP> <k> <pkgdir-of-demo> [check-ids...]
# Confirms a seeded defect (patch compiles, suite passes, demo fails with / passes without it) in a scratch
# worktree, then runs our quick check(s) against /repo with the patch applied and undoes it.
set -u
PROP=$1; K=$2; PKG=$3; shift 3
CHECKS=${*:-$PROP}
SRC=${SEEDSRC:-/tmp/seed}/$PROP.out
. /verif/goenv.sh
WT=/tmp/seedverify-$PROP-$K
rm -rf "$WT"; git -C /repo worktree prune
git -C /repo worktree add -q --detach "$WT" HEAD || exit 2
cd "$WT"
cp "$SRC/$K.demo_test.go" "$PKG/seed_${PROP}_${K}_demo_test.go"
DEMO_CLEAN=fail; DEMO_MUT=pass; BUILD=fail; SUITE=fail
RUNRE=$(grep -o "^func Test[A-Za-z0-9_]*" "$SRC/$K.demo_test.go" | sed 's/func //' | paste -sd'|')
$GO test -vet=off -count=1 -run "^($RUNRE)\$" "./$PKG/" >/tmp/seedverify-$PROP-$K.clean.log 2>&1 && DEMO_CLEAN=pass
if git apply "$SRC/$K.patch.diff"; then
  $GO build ./... >/dev/null 2>&1 && BUILD=ok
  $GO test -vet=off -count=1 -run "^($RUNRE)\$" "./$PKG/" >/tmp/seedverify-$PROP-$K.mut.log 2>&1 || DEMO_MUT=fail
  rm -f "$PKG/seed_${PROP}_${K}_demo_test.go"
  out=$($GO test -vet=off -count=1 ./... 2>&1); if ! echo "$out" | grep -E "^(--- FAIL|FAIL)" | grep -v -E "TestTaskRepeat|TestTable|^FAIL$|FAIL\s+github.com/mycoria/mycoria/(mgr|m)\s" >/dev/null; then SUITE=pass; fi
  echo "$out" | grep -E "^--- FAIL" | head -5
else
  echo "patch does not apply"
fi
cd /; git -C /repo worktree remove --force "$WT"
echo "confirm: demo_on_clean=$DEMO_CLEAN demo_with_patch=$DEMO_MUT build=$BUILD suite=$SUITE"
# run our checks against the mutated /repo
cd /verif
git -C /repo apply "$SRC/$K.patch.diff" || { echo "cannot apply to /repo"; exit 2; }
RESULTS=""
for c in $CHECKS; do
  VERIF_EVIDENCE_DIR=/verif/.run/seed-evidence ./check $c quick > /tmp/seedverify-$PROP-$K.check-$c.log 2>&1; rc=$?
  RESULTS="$RESULTS $c=$rc"
  grep -m2 -A1 "^VIOLATION" /tmp/seedverify-$PROP-$K.check-$c.log | cut -c1-300
done
git -C /repo checkout -- .
git -C /repo status --short | head -3
echo "checks:$RESULTS"
D=/verif/seeded/$PROP-$K; mkdir -p $D
cp "$SRC/$K.patch.diff" $D/patch.diff; cp "$SRC/$K.demo_test.go" $D/demo_test.go; cp "$SRC/$K.meta.txt" $D/agent_meta.txt
python3 - "$PROP" "$K" "$PKG" "$DEMO_CLEAN" "$DEMO_MUT" "$BUILD" "$SUITE" "$RESULTS" <<'PY'
import json,sys
prop,k,pkg,dc,dm,b,s,res=sys.argv[1:9]
meta=open(f"/verif/seeded/{prop}-{k}/agent_meta.txt").read()
json.dump({"property":prop,"id":f"{prop}-{k}","breaks":prop,"demo_package":pkg,
 "needs_to_manifest":meta.strip(),
 "confirmed":{"demo_on_clean_tree":dc,"demo_with_patch":dm,"build_with_patch":b,"existing_suite_with_patch":s},
 "what_i_ran":f"tools/seedcheck.sh {prop} {k} {pkg}: scratch worktree of /repo HEAD, demo placed in {pkg}/, go test with and without the patch, full suite with the patch; then patch applied to /repo, ./check quick, patch undone",
 "our_checks_quick_exit_codes":res.strip()}, open(f"/verif/seeded/{prop}-{k}/meta.json","w"), indent=1)
PY
