#!/bin/bash
# tools/seedcheck.sh <PROP> <k> [pkgdir-of-demo] [check-ids...]
# Confirms a seeded defect (patch compiles, suite passes, demo fails with / passes without it) in a scratch
# worktree of /repo, then runs our quick check(s) against that worktree (VERIF_REPO) with the patch applied.
# /repo itself is never touched. The worktree and its build output are removed at the end.
set -u
PROP=$1; K=$2; shift 2
SRC=${SEEDSRC:-/tmp/seed}/$PROP.out
PKG=${1:-}; [ $# -gt 0 ] && shift
[ -z "$PKG" ] && PKG=$(head -1 "$SRC/$K.pkg" | tr -d ' \n')
CHECKS=${*:-$PROP}
. /verif/goenv.sh
WT=/tmp/seedverify-$PROP-$K; SC=/tmp/seedverify-sc-$PROP-$K
rm -rf "$WT" "$SC"; git -C /repo worktree prune
git -C /repo worktree add -q --detach "$WT" HEAD || exit 2
cd "$WT"
cp "$SRC/$K.demo_test.go" "$PKG/seed_${PROP}_${K}_demo_test.go"
DEMO_CLEAN=fail; DEMO_MUT=pass; BUILD=fail; SUITE=fail
RUNRE=$(grep -o "^func Test[A-Za-z0-9_]*" "$SRC/$K.demo_test.go" | sed 's/func //' | paste -sd'|')
$GO test -vet=off -count=1 -run "^($RUNRE)\$" "./$PKG/" >/tmp/seedverify-$PROP-$K.clean.log 2>&1 && DEMO_CLEAN=pass
RESULTS=""
if git apply "$SRC/$K.patch.diff"; then
  $GO build ./... >/dev/null 2>&1 && BUILD=ok
  $GO test -vet=off -count=1 -run "^($RUNRE)\$" "./$PKG/" >/tmp/seedverify-$PROP-$K.mut.log 2>&1 || DEMO_MUT=fail
  rm -f "$PKG/seed_${PROP}_${K}_demo_test.go"
  out=$($GO test -vet=off -count=1 ./... 2>&1); if ! echo "$out" | grep -E "^(--- FAIL|FAIL)" | grep -v -E "TestTaskRepeat|TestTaskDelayAndRepeat|TestTable|^FAIL$|FAIL\s+github.com/mycoria/mycoria/(mgr|m)\s" >/dev/null; then SUITE=pass; fi
  echo "$out" | grep -E "^--- FAIL" | head -5
  echo "confirm: demo_on_clean=$DEMO_CLEAN demo_with_patch=$DEMO_MUT build=$BUILD suite=$SUITE"
  cd /verif
  for c in $CHECKS; do
    VERIF_REPO="$WT" VERIF_SCRATCH="$SC" ./check $c quick > /tmp/seedverify-$PROP-$K.check-$c.log 2>&1; rc=$?
    RESULTS="$RESULTS $c=$rc"
    grep -m2 -A1 "^VIOLATION\|^INCONCLUSIVE" /tmp/seedverify-$PROP-$K.check-$c.log | cut -c1-300
  done
else
  echo "patch does not apply"
fi
cd /; git -C /repo worktree remove --force "$WT"; rm -rf "$SC"
echo "checks:$RESULTS"
D=/verif/seeded/$PROP-$K; mkdir -p $D
cp "$SRC/$K.patch.diff" $D/patch.diff; cp "$SRC/$K.demo_test.go" $D/demo_test.go; cp "$SRC/$K.meta.txt" $D/agent_meta.txt
python3 - "$PROP" "$K" "$PKG" "$DEMO_CLEAN" "$DEMO_MUT" "$BUILD" "$SUITE" "$RESULTS" <<'PY'
import json,sys
prop,k,pkg,dc,dm,b,s,res=sys.argv[1:9]
meta=open(f"/verif/seeded/{prop}-{k}/agent_meta.txt").read()
json.dump({"property":prop,"id":f"{prop}-{k}","breaks":prop,"demo_package":pkg,
 "needs_to_manifest":meta.strip(),
 "confirmed":{"demo_on_clean_tree":dc,"demo_with_patch":dm,"build_with_patch":b,"existing_suite_with_patch":s},
 "what_i_ran":f"tools/seedcheck.sh {prop} {k} {pkg}: scratch worktree of /repo HEAD, demo placed in {pkg}/, go test with and without the patch, full suite with the patch; then ./check quick against that worktree with the patch applied (VERIF_REPO), worktree removed",
 "first_evaluation_quick_exit_codes":res.strip()}, open(f"/verif/seeded/{prop}-{k}/meta.json","w"), indent=1)
PY
