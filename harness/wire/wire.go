// Package wire is engine E2: real link setup and real link reader/writer
// workers over an interposed in-memory connection. The wire sees every byte in
// both directions, reframes it into messages (2-byte length prefix), records
// it and applies a fault plan.
package wire

import (
	"verifharness/core"

	"errors"
	"io"
	"net"
	"strings"
	"sync"
	"sync/atomic"
	"time"

	"github.com/mycoria/mycoria/config"
	"github.com/mycoria/mycoria/frame"
	"github.com/mycoria/mycoria/m"
	"github.com/mycoria/mycoria/mgr"
	"github.com/mycoria/mycoria/peering"

	"verifharness/env"
)

// Dir is a direction on the wire.
type Dir int

// Directions.
const (
	AtoB Dir = 0
	BtoA Dir = 1
)

func (d Dir) String() string {
	if d == AtoB {
		return "A->B"
	}
	return "B->A"
}

// pipe is one direction's receive buffer.
type pipe struct {
	mu      sync.Mutex
	cond    *sync.Cond
	buf     []byte
	closed  bool
	err     error
	waiting int
	reads   int
	// chunk > 0: a Read returns at most chunk bytes (re-segmentation of the byte stream: the bytes are the same,
	// only the boundaries at which the receiver sees them differ)
	chunk int
}

func newPipe() *pipe {
	p := &pipe{}
	p.cond = sync.NewCond(&p.mu)
	return p
}

func (p *pipe) put(b []byte) {
	p.mu.Lock()
	p.buf = append(p.buf, b...)
	p.mu.Unlock()
	p.cond.Broadcast()
}

func (p *pipe) close(err error) {
	p.mu.Lock()
	if !p.closed {
		p.closed = true
		p.err = err
	}
	p.mu.Unlock()
	p.cond.Broadcast()
}

func (p *pipe) read(b []byte) (int, error) {
	p.mu.Lock()
	defer p.mu.Unlock()
	for len(p.buf) == 0 && !p.closed {
		p.waiting++
		p.cond.Wait()
		p.waiting--
	}
	if len(p.buf) == 0 {
		if p.err != nil {
			return 0, p.err
		}
		return 0, io.EOF
	}
	if p.chunk > 0 && len(b) > p.chunk {
		b = b[:p.chunk]
	}
	n := copy(b, p.buf)
	p.buf = p.buf[n:]
	p.reads++
	return n, nil
}

// idle reports whether the buffer is empty and a reader is parked in Read.
func (p *pipe) idle() bool {
	p.mu.Lock()
	defer p.mu.Unlock()
	return len(p.buf) == 0 && (p.waiting > 0 || p.closed)
}

// Conn is one end of the interposed connection (a net.Conn).
type Conn struct {
	w      *Wire
	dir    Dir // direction of this end's writes
	in     *pipe
	closed bool
	mu     sync.Mutex
	// ownerClosed: Close was called (by the code under test that owns this end), as opposed to Cut (the harness).
	ownerClosed atomic.Bool
}

var _ net.Conn = &Conn{}

type addr string

func (a addr) Network() string { return "wire" }
func (a addr) String() string  { return string(a) }

func (c *Conn) Read(b []byte) (int, error) { return c.in.read(b) }

func (c *Conn) Write(b []byte) (int, error) {
	c.mu.Lock()
	closed := c.closed
	c.mu.Unlock()
	if closed {
		return 0, errors.New("write on closed wire connection")
	}
	if err := c.w.onWrite(c.dir, b); err != nil {
		return 0, err
	}
	return len(b), nil
}

// Close closes this end: the local reader gets an error, the far end sees EOF. It is what the code under test
// calls on its connection; the harness itself uses Cut where the difference matters (C16 takes "the link has
// closed its connection" as the structural sign that LinkBase.Close has finished unregistering the link).
func (c *Conn) Close() error {
	c.ownerClosed.Store(true)
	return c.Cut()
}

// OwnerClosed reports whether Close (not Cut) was called on this end.
func (c *Conn) OwnerClosed() bool { return c.ownerClosed.Load() }

// Cut is Close without the owner mark: the harness cutting the connection from outside.
func (c *Conn) Cut() error {
	c.mu.Lock()
	c.closed = true
	c.mu.Unlock()
	c.in.close(errors.New("use of closed wire connection"))
	c.w.peerPipe(c.dir).close(nil)
	return nil
}

func (c *Conn) LocalAddr() net.Addr              { return addr("wire-local") }
func (c *Conn) RemoteAddr() net.Addr             { return addr("wire-remote") }
func (c *Conn) SetDeadline(time.Time) error      { return nil }
func (c *Conn) SetReadDeadline(time.Time) error  { return nil }
func (c *Conn) SetWriteDeadline(time.Time) error { return nil }

// Msg is one recorded message.
type Msg struct {
	Dir  Dir
	Idx  int // index among the sender's messages in this direction
	Data []byte
}

// Plan decides what the receiver gets for a message the sender wrote:
// nil = drop, one or more messages = deliver these (possibly modified, duplicated, held ones released).
type Plan func(dir Dir, idx int, msg []byte) [][]byte

// Wire is an interposed connection between router A and router B.
type Wire struct {
	mu       sync.Mutex
	A, B     *Conn
	pa, pb   *pipe // pa: what A reads, pb: what B reads
	reasm    [2][]byte
	count    [2]int
	Plan     Plan
	Sent     []Msg // as written by the senders
	Passed   []Msg // as handed to the receivers
	WriteErr [2]error
	// failedWrites counts writes that were answered with WriteErr, per direction
	failedWrites [2]int
	// Gate, if set, is called (outside the wire lock) before a message is processed;
	// it may block to order messages across several wires.
	Gate func(dir Dir, idx int, msg []byte)

	// Hold/Release: message-level scheduling. A message (dir, idx) for which
	// holds[dir][idx] is set parks in the sender's Write until released.
	holds   [2]map[int]chan struct{}
	parked  [2]map[int]bool
	holdAll [2]bool
}

// Hold makes message idx of direction d park at the wire until Release.
func (w *Wire) Hold(d Dir, idx int) {
	w.mu.Lock()
	defer w.mu.Unlock()
	if w.holds[d] == nil {
		w.holds[d] = map[int]chan struct{}{}
		w.parked[d] = map[int]bool{}
	}
	if _, ok := w.holds[d][idx]; !ok {
		w.holds[d][idx] = make(chan struct{})
	}
}

// Release lets a held message continue.
func (w *Wire) Release(d Dir, idx int) {
	w.mu.Lock()
	ch := w.holds[d][idx]
	delete(w.holds[d], idx)
	w.mu.Unlock()
	if ch != nil {
		close(ch)
	}
}

// ReleaseAll releases every hold.
func (w *Wire) ReleaseAll() {
	for d := AtoB; d <= BtoA; d++ {
		w.mu.Lock()
		var idxs []int
		for i := range w.holds[d] {
			idxs = append(idxs, i)
		}
		w.mu.Unlock()
		for _, i := range idxs {
			w.Release(d, i)
		}
	}
}

// Parked reports whether message idx of direction d is currently parked.
func (w *Wire) Parked(d Dir, idx int) bool {
	w.mu.Lock()
	defer w.mu.Unlock()
	return w.parked[d][idx]
}

// AnyParked reports whether any message is parked at the wire.
func (w *Wire) AnyParked() bool {
	w.mu.Lock()
	defer w.mu.Unlock()
	for d := 0; d < 2; d++ {
		for _, v := range w.parked[d] {
			if v {
				return true
			}
		}
	}
	return false
}

func (w *Wire) waitHold(d Dir, idx int) {
	w.mu.Lock()
	ch := w.holds[d][idx]
	if ch != nil {
		w.parked[d][idx] = true
	}
	w.mu.Unlock()
	if ch == nil {
		return
	}
	<-ch
	w.mu.Lock()
	w.parked[d][idx] = false
	w.mu.Unlock()
}

// New creates a wire.
func New() *Wire {
	w := &Wire{pa: newPipe(), pb: newPipe()}
	w.A = &Conn{w: w, dir: AtoB, in: w.pa}
	w.B = &Conn{w: w, dir: BtoA, in: w.pb}
	return w
}

func (w *Wire) peerPipe(d Dir) *pipe {
	if d == AtoB {
		return w.pb
	}
	return w.pa
}

func (w *Wire) onWrite(d Dir, b []byte) error {
	w.mu.Lock()
	if err := w.WriteErr[d]; err != nil {
		w.failedWrites[d]++
		w.mu.Unlock()
		return err
	}
	w.reasm[d] = append(w.reasm[d], b...)
	var msgs [][]byte
	for len(w.reasm[d]) >= 2 {
		n := int(w.reasm[d][0])<<8 | int(w.reasm[d][1])
		if n < 2 {
			n = 2
		}
		if len(w.reasm[d]) < n {
			break
		}
		msgs = append(msgs, append([]byte(nil), w.reasm[d][:n]...))
		w.reasm[d] = w.reasm[d][n:]
	}
	w.mu.Unlock()
	for _, msg := range msgs {
		w.mu.Lock()
		idx := w.count[d]
		w.count[d]++
		w.Sent = append(w.Sent, Msg{Dir: d, Idx: idx, Data: msg})
		gate := w.Gate
		w.mu.Unlock()
		if gate != nil {
			gate(d, idx, msg)
		}
		w.waitHold(d, idx)
		w.mu.Lock()
		plan := w.Plan
		w.mu.Unlock()
		out := [][]byte{msg}
		if plan != nil {
			out = plan(d, idx, msg)
		}
		for _, o := range out {
			w.mu.Lock()
			w.Passed = append(w.Passed, Msg{Dir: d, Idx: idx, Data: append([]byte(nil), o...)})
			w.mu.Unlock()
			w.peerPipe(d).put(o)
		}
	}
	return nil
}

// Inject writes raw bytes to the receiver of direction d (as if they came over the wire).
func (w *Wire) Inject(d Dir, raw []byte) {
	w.mu.Lock()
	w.Passed = append(w.Passed, Msg{Dir: d, Idx: -1, Data: append([]byte(nil), raw...)})
	w.mu.Unlock()
	w.peerPipe(d).put(raw)
}

// SetReadChunk makes every Read of the receiver of direction d return at most n bytes (0 = unlimited).
func (w *Wire) SetReadChunk(d Dir, n int) {
	p := w.peerPipe(d)
	p.mu.Lock()
	p.chunk = n
	p.mu.Unlock()
}

// Break makes the connection fail with an I/O error in both directions.
func (w *Wire) Break(err error) {
	w.pa.close(err)
	w.pb.close(err)
	w.mu.Lock()
	w.WriteErr[0], w.WriteErr[1] = err, err
	w.mu.Unlock()
}

// BreakWrites makes every write on the connection fail from now on while reads keep waiting: the far end has
// vanished without a word (no reset, no FIN); the kernel reports it to whoever writes next.
func (w *Wire) BreakWrites(err error) {
	w.mu.Lock()
	w.WriteErr[0], w.WriteErr[1] = err, err
	w.mu.Unlock()
}

// FailedWrites returns how many writes of direction d's sender were answered with an I/O error.
func (w *Wire) FailedWrites(d Dir) int {
	w.mu.Lock()
	defer w.mu.Unlock()
	return w.failedWrites[d]
}

// SentCount returns how many messages the sender of direction d wrote.
func (w *Wire) SentCount(d Dir) int {
	w.mu.Lock()
	defer w.mu.Unlock()
	return w.count[d]
}

// Idle reports whether the receiver of direction d consumed everything and is parked in Read (or its pipe is closed).
func (w *Wire) Idle(d Dir) bool { return w.peerPipe(d).idle() }

// SentIn returns copies of the messages written in direction d.
func (w *Wire) SentIn(d Dir) []Msg {
	w.mu.Lock()
	defer w.mu.Unlock()
	var out []Msg
	for _, m := range w.Sent {
		if m.Dir == d {
			out = append(out, m)
		}
	}
	return out
}

// AllPassed returns everything handed to receivers.
func (w *Wire) AllPassed() []Msg {
	w.mu.Lock()
	defer w.mu.Unlock()
	return append([]Msg(nil), w.Passed...)
}

// Router is one real peering endpoint (state, builder, routing table, peering manager).
type Router struct {
	Inst     *env.Instance
	Upstream chan frame.Frame
	Alerts   *mgr.AlertMgr
}

// PanicAlerts returns the worker-panic alerts reported by the peering manager's workers.
func (r *Router) PanicAlerts() []string {
	var out []string
	for _, a := range r.Alerts.Export().Alerts {
		if strings.HasPrefix(a.ID, "worker-panic") {
			out = append(out, a.ID+": "+a.Message)
		}
	}
	return out
}

// NewRouter builds an endpoint with the given identity and router config.
func NewRouter(id *m.Address, rc config.Router) *Router {
	cfg := config.MakeTestConfig(config.Store{Router: rc, System: config.System{DisableTun: true}})
	in := env.NewBareInstance(id, cfg)
	r := &Router{Inst: in, Upstream: make(chan frame.Frame, 8192)}
	in.PeeringV = peering.New(in, r.Upstream)
	r.Alerts = mgr.NewAlertMgr(in.PeeringV.Manager())
	return r
}

// URL is the peering URL handed to link setup.
var URL = &m.PeeringURL{Protocol: "tcp", Domain: "127.0.0.1", Port: 47369}

// SetupResult is the outcome of one side's link setup.
type SetupResult struct {
	Link peering.Link
	Err  error
	Done bool
	// BeforeCut: the setup call returned while the connection was still open (it ended by its own decision, not
	// because the harness cut a connection on which nothing moved any more)
	BeforeCut bool
}

// Handshake runs the real link setup on both ends of the wire concurrently
// (a = outgoing/client side on w.A, b = incoming side on w.B). It returns when
// both returned or the watchdog fired (ok=false).
func Handshake(w *Wire, a, b *Router, watchdog time.Duration) (ra, rb SetupResult, ok bool) {
	var wg sync.WaitGroup
	wg.Add(2)
	var mu sync.Mutex
	var cut atomic.Bool
	go func() {
		defer wg.Done()
		l, err := a.Inst.PeeringV.VerifSetupLink(w.A, URL, true)
		mu.Lock()
		ra = SetupResult{Link: l, Err: err, Done: true, BeforeCut: !cut.Load()}
		mu.Unlock()
	}()
	go func() {
		defer wg.Done()
		l, err := b.Inst.PeeringV.VerifSetupLink(w.B, URL, false)
		mu.Lock()
		rb = SetupResult{Link: l, Err: err, Done: true, BeforeCut: !cut.Load()}
		mu.Unlock()
	}()
	done := make(chan struct{})
	go func() { wg.Wait(); close(done) }()
	// A stuck handshake (a message was dropped) is detected structurally: both
	// ends parked in Read with nothing in flight. The harness then closes the
	// connection, which is what a peer or a TCP timeout would do.
	deadline := time.Now().Add(watchdog)
	for {
		select {
		case <-done:
			mu.Lock()
			defer mu.Unlock()
			return ra, rb, true
		case <-time.After(2 * time.Millisecond):
		}
		mu.Lock()
		aDone, bDone := ra.Done, rb.Done
		mu.Unlock()
		stuck := (aDone || w.pa.idle()) && (bDone || w.pb.idle()) && !(aDone && bDone) && !w.AnyParked()
		if stuck {
			// re-check over a grace period: idle must persist (a tree may write from a goroutine of its own that has
			// not been given a processor yet on a loaded machine; "nobody reads or writes" only means stuck if it
			// stays that way)
			t0 := time.Now()
			still := true
			for k := 0; k < 20 && still; k++ {
				time.Sleep(3 * time.Millisecond)
				mu.Lock()
				aDone, bDone = ra.Done, rb.Done
				mu.Unlock()
				still = (aDone || w.pa.idle()) && (bDone || w.pb.idle()) && !(aDone && bDone) && !w.AnyParked()
			}
			if still && !core.StalledSince(t0) {
				cut.Store(true)
				w.A.Cut()
				w.B.Cut()
			}
		}
		if time.Now().After(deadline) {
			cut.Store(true)
			w.A.Cut()
			w.B.Cut()
			select {
			case <-done:
				mu.Lock()
				defer mu.Unlock()
				return ra, rb, true
			case <-time.After(5 * time.Second):
				mu.Lock()
				defer mu.Unlock()
				return ra, rb, false
			}
		}
	}
}

// WaitIdle waits until the receiver of direction d has consumed everything
// (structural: empty buffer and reader parked), up to the watchdog.
func WaitIdle(w *Wire, d Dir, watchdog time.Duration) bool {
	deadline := time.Now().Add(watchdog)
	for time.Now().Before(deadline) {
		if w.Idle(d) {
			// confirm stability
			time.Sleep(time.Millisecond)
			if w.Idle(d) {
				return true
			}
		}
		time.Sleep(200 * time.Microsecond)
	}
	return false
}
