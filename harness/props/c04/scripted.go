package c04

import (
	"bytes"
	"encoding/binary"
	"fmt"
	"github.com/mycoria/mycoria/mgr"
	"github.com/mycoria/mycoria/router"
	"math/rand/v2"
	"time"
	"verifharness/vmesh"

	"github.com/fxamacker/cbor/v2"

	"github.com/mycoria/mycoria/config"
	"github.com/mycoria/mycoria/frame"
	"github.com/mycoria/mycoria/m"
	"github.com/mycoria/mycoria/peering"
	"github.com/mycoria/mycoria/state"

	"verifharness/core"
	"verifharness/env"
	"verifharness/wire"
)

// Wire forms of the three handshake messages (field names as on the wire).
type pReq struct {
	V    string          `cbor:"v,omitempty"`
	U    string          `cbor:"u,omitempty"`
	LM   bool            `cbor:"lm,omitempty"`
	A    m.PublicAddress `cbor:"a,omitempty"`
	C    []byte          `cbor:"c,omitempty"`
	LV   int             `cbor:"lv,omitempty"`
	TMTU int             `cbor:"tmtu,omitempty"`
}

type pResp struct {
	C   []byte `cbor:"c,omitempty"`
	UA  []byte `cbor:"ua,omitempty"`
	KX  []byte `cbor:"kx,omitempty"`
	KXT string `cbor:"kxt,omitempty"`
	Err string `cbor:"err,omitempty"`
}

type pAck struct {
	Ack bool   `cbor:"ack,omitempty"`
	KX  []byte `cbor:"kx,omitempty"`
	KXT string `cbor:"kxt,omitempty"`
	Err string `cbor:"err,omitempty"`
}

// scripted is a peer whose handshake messages the harness writes by hand, with the peer's real identity,
// state and builder (so signatures and sealing are real).
type scripted struct {
	w    *wire.Wire
	inst *env.Instance
	far  *m.Address
	next int // index of the next message of the router under test to read
	// age: the request is dated this far in the past (a genuine request of an earlier connection, replayed)
	age time.Duration
}

func prefixed(d []byte) []byte {
	out := make([]byte, 2+len(d))
	binary.BigEndian.PutUint16(out, uint16(len(out)))
	copy(out[2:], d)
	return out
}

// read returns the message data of the next handshake message the router under test wrote (signed frames
// carry their message in clear), or false on watchdog / closed connection.
func (s *scripted) read(done <-chan wire.SetupResult, d time.Duration) ([]byte, bool) {
	deadline := time.Now().Add(d)
	for s.w.SentCount(wire.BtoA) <= s.next {
		if time.Now().After(deadline) || len(done) > 0 {
			return nil, false
		}
		time.Sleep(200 * time.Microsecond)
	}
	msg := s.w.SentIn(wire.BtoA)[s.next].Data
	s.next++
	if len(msg) < 2+51 {
		return nil, false
	}
	f, err := s.inst.BuilderV.ParseFrame(append([]byte(nil), msg[2:]...), nil, 0)
	if err != nil {
		return nil, false
	}
	defer f.ReturnToPool()
	return append([]byte(nil), f.MessageData()...), true
}

// sendRequest sends a signed first message (to the router address, like the real request).
func (s *scripted) sendRequest(body any) error {
	msg, err := cbor.Marshal(body)
	if err != nil {
		return err
	}
	id := s.inst.IdentityV
	f, err := s.inst.BuilderV.NewFrameV1(id.IP, m.RouterAddress, frame.RouterPing, nil, msg, nil)
	if err != nil {
		return err
	}
	defer f.ReturnToPool()
	f.SetTTL(0)
	f.SetSequenceTime(time.Now().Round(time.Millisecond).Add(-time.Millisecond).Add(-s.age))
	if err := f.SignRaw(id.PrivateKey); err != nil {
		return err
	}
	f.SetTTL(1)
	d, _ := f.FrameDataWithMargins(0, 0)
	s.w.Inject(wire.AtoB, prefixed(d))
	return nil
}

// sendSealed sends a later message, sealed with the peer's session for the router under test.
func (s *scripted) sendSealed(body any) error {
	msg, err := cbor.Marshal(body)
	if err != nil {
		return err
	}
	sess := s.inst.StateV.GetSession(s.far.IP)
	if sess == nil {
		return fmt.Errorf("no session")
	}
	f, err := s.inst.BuilderV.NewFrameV1(s.inst.IdentityV.IP, s.far.IP, frame.RouterPing, nil, msg, nil)
	if err != nil {
		return err
	}
	defer f.ReturnToPool()
	if err := f.Seal(sess); err != nil {
		return err
	}
	d, _ := f.FrameDataWithMargins(0, 0)
	s.w.Inject(wire.AtoB, prefixed(d))
	return nil
}

// scriptedHandshake runs the client side by hand against the real listener-side setup of `victim`.
// mirror: the request carries the victim's own challenge and the response carries the universe auth the victim
// itself produced (what a router that does not know the secret can get hold of).
// It returns whether the victim registered a link to the scripted peer.
func scriptedHandshake(res *core.Result, victim *wire.Router, idV *m.Address, peer *env.Instance, universe string, mirror bool) (linked bool, detail string, ok bool) {
	w := wire.New()
	baseLinks := victim.Inst.PeeringV.LinkCnt()
	done := make(chan wire.SetupResult, 1)
	go func() {
		l, err := victim.Inst.PeeringV.VerifSetupLink(w.B, wire.URL, false)
		done <- wire.SetupResult{Link: l, Err: err, Done: true}
	}()
	finish := func() wire.SetupResult {
		select {
		case r := <-done:
			return r
		case <-time.After(3 * time.Second):
		}
		w.A.Close()
		w.B.Close()
		select {
		case r := <-done:
			return r
		case <-time.After(15 * time.Second):
			return wire.SetupResult{}
		}
	}
	s := &scripted{w: w, inst: peer, far: idV}
	// 1. the victim's request
	md, got := s.read(done, 5*time.Second)
	if !got {
		finish()
		return false, "no request from the router under test", false
	}
	var reqV pReq
	if cbor.Unmarshal(md, &reqV) != nil {
		finish()
		return false, "request not decodable", false
	}
	// 2. our request
	challenge := core.RandBytes(rand.New(rand.NewPCG(uint64(time.Now().UnixNano()), 1)), 32)
	if mirror {
		challenge = reqV.C
	}
	if err := s.sendRequest(&pReq{V: "v0.0.0", U: universe, A: peer.IdentityV.PublicAddress, C: challenge, LV: 1, TMTU: 9000}); err != nil {
		finish()
		return false, err.Error(), false
	}
	// 3. the victim's response (with its universe auth over the challenge we sent)
	md, got = s.read(done, 5*time.Second)
	if !got {
		r := finish()
		return r.Link != nil, "the router under test sent no response", true
	}
	var respV pResp
	_ = cbor.Unmarshal(md, &respV)
	// 4. our response to the victim's challenge
	if err := peer.StateV.AddRouter(&reqV.A); err != nil {
		finish()
		return false, "add router: " + err.Error(), false
	}
	sess := peer.StateV.GetSession(idV.IP)
	if sess == nil {
		finish()
		return false, "no session", false
	}
	kx, kxt, err := sess.Encryption().InitKeyClientStart()
	if err != nil {
		finish()
		return false, err.Error(), false
	}
	resp := &pResp{C: reqV.C, KX: kx, KXT: kxt}
	if mirror {
		resp.UA = respV.UA
	}
	if err := s.sendSealed(resp); err != nil {
		finish()
		return false, err.Error(), false
	}
	// 5. the victim's ack (or error), then our ack
	if md, got = s.read(done, 3*time.Second); got {
		var ackV pAck
		if cbor.Unmarshal(md, &ackV) == nil && len(ackV.KX) > 0 {
			_ = sess.Encryption().InitKeyClientComplete(ackV.KX, ackV.KXT)
		}
	}
	time.Sleep(1100 * time.Microsecond)
	_ = s.sendSealed(&pAck{Ack: true})
	// wait for the victim's setup to return or a link to show up
	deadline := time.Now().Add(3 * time.Second)
	for time.Now().Before(deadline) && len(done) == 0 && victim.Inst.PeeringV.GetLink(peer.IdentityV.IP) == nil {
		time.Sleep(300 * time.Microsecond)
	}
	linked = victim.Inst.PeeringV.GetLink(peer.IdentityV.IP) != nil
	if n := victim.Inst.PeeringV.LinkCnt(); n > baseLinks {
		linked, detail = true, fmt.Sprintf("%d link(s) registered, %d before", n, baseLinks)
	}
	for _, e := range victim.Inst.RoutingTable().VerifEntries() {
		if e.Source == m.RouteSourcePeer && e.DstIP == peer.IdentityV.IP {
			linked, detail = true, "peer route for "+e.DstIP.String()
		}
	}
	if l := victim.Inst.PeeringV.GetLink(peer.IdentityV.IP); l != nil {
		l.Close(nil)
	}
	w.A.Close()
	w.B.Close()
	r := finish()
	if r.Link != nil {
		r.Link.Close(nil)
	}
	return linked, detail, true
}

// universeMirror: a router with its own valid identity that names the universe but does not know the secret
// connects to a router that has one, and hands the router's own universe auth back to it.
func universeMirror(res *core.Result, r *rand.Rand) {
	idV := env.NewIdentity(r, nil)
	for round := 0; round < 3; round++ {
		idE := env.NewIdentity(r, nil)
		mk := func(rc config.Router) *env.Instance {
			return env.NewBareInstance(idE, config.MakeTestConfig(config.Store{Router: rc, System: config.System{DisableTun: true}}))
		}
		// positive control: without a secret the scripted client completes the handshake
		open := wire.NewRouter(idV, config.Router{Universe: "test"})
		linked, detail, ok := scriptedHandshake(res, open, idV, mk(config.Router{Universe: "test"}), "test", false)
		if !ok {
			res.Count("scripted_handshake_unusable", 1)
			res.SetExtra("scripted_handshake_problem", detail)
			continue
		}
		if !linked {
			res.Count("scripted_handshake_unusable", 1)
			res.SetExtra("scripted_handshake_problem", "positive control did not complete: "+detail)
			continue
		}
		res.Count("scripted_handshakes_completed", 1)
		time.Sleep(3 * time.Millisecond)
		for _, mirror := range []bool{false, true} {
			victim := wire.NewRouter(idV, config.Router{Universe: "test", UniverseSecret: "s3cret"})
			linked, detail, ok := scriptedHandshake(res, victim, idV, mk(config.Router{Universe: "test"}), "test", mirror)
			if !ok {
				res.Count("scripted_handshake_unusable", 1)
				continue
			}
			if linked {
				how := "without any universe auth"
				if mirror {
					how = "by sending the router's own challenge in its request and copying the universe auth of the router's response into its own response"
				}
				res.Violate("link-registered-without-universe-secret", fmt.Sprintf("a router with a universe secret registered a link to %s, which does not know the secret and got in %s (%s)", idE.IP, how, detail),
					map[string]any{"mirror": mirror, "case_id": fmt.Sprintf("universe-mirror|%v", mirror)})
				return
			}
			res.Count("universe_secret_intruders_refused", 1)
			res.Case(fmt.Sprintf("scripted|universe-secret|mirror=%v", mirror), true)
			time.Sleep(3 * time.Millisecond)
		}
	}
}

// doubleDial: one remote router opens two connections and takes both to the point where only its last message
// is missing; it completes the first (whose key derivation uses up the shared key-exchange state), closes it, and
// only then completes the second. Whatever link the router under test registers for the second connection must
// be a working, sealed link: a frame sent over it must not cross the wire in clear.
// DoubleDial is doubleDial for the link-layer check (C05 runs it as well: its last step is C05's own clause, "no
// payload in clear on the wire after the handshake", on a link that came up under concurrent setups).
func DoubleDial(res *core.Result, r *rand.Rand) { doubleDial(res, r) }

func doubleDial(res *core.Result, r *rand.Rand) {
	idV, idB := env.NewIdentity(r, nil), env.NewIdentity(r, nil)
	for round := 0; round < 3; round++ {
		cfg := config.Router{Universe: "test", UniverseSecret: "s3cret"}
		victim := wire.NewRouter(idV, cfg)
		remote := wire.NewRouter(idB, cfg)
		type conn struct {
			w    *wire.Wire
			done chan wire.SetupResult
		}
		open := func() (*conn, bool) {
			c := &conn{w: wire.New(), done: make(chan wire.SetupResult, 1)}
			c.w.Hold(wire.AtoB, 2) // the remote's own ack never passes: the harness writes fresh ones
			go func() {
				l, err := victim.Inst.PeeringV.VerifSetupLink(c.w.B, wire.URL, false)
				c.done <- wire.SetupResult{Link: l, Err: err, Done: true}
			}()
			go func() { _, _ = remote.Inst.PeeringV.VerifSetupLink(c.w.A, wire.URL, true) }()
			deadline := time.Now().Add(5 * time.Second)
			for !c.w.Parked(wire.AtoB, 2) || c.w.SentCount(wire.BtoA) < 3 {
				if time.Now().After(deadline) || len(c.done) > 0 {
					return c, false
				}
				time.Sleep(200 * time.Microsecond)
			}
			return c, true
		}
		ack := func(c *conn) {
			s := &scripted{w: c.w, inst: remote.Inst, far: idV}
			_ = s.sendSealed(&pAck{Ack: true})
		}
		closeAll := func(cs ...*conn) {
			for _, c := range cs {
				c.w.A.Close()
				c.w.B.Close()
				c.w.ReleaseAll()
			}
		}
		c1, ok1 := open()
		time.Sleep(4 * time.Millisecond)
		c2, ok2 := open()
		if !ok1 || !ok2 {
			res.Count("double_dial_not_reached", 1)
			closeAll(c1, c2)
			time.Sleep(4 * time.Millisecond)
			continue
		}
		time.Sleep(2 * time.Millisecond)
		ack(c1)
		deadline := time.Now().Add(3 * time.Second)
		for victim.Inst.PeeringV.GetLink(idB.IP) == nil && time.Now().Before(deadline) && len(c1.done) == 0 {
			time.Sleep(200 * time.Microsecond)
		}
		l1 := victim.Inst.PeeringV.GetLink(idB.IP)
		if l1 == nil {
			res.Count("double_dial_first_link_not_up", 1)
			closeAll(c1, c2)
			time.Sleep(4 * time.Millisecond)
			continue
		}
		l1.Close(nil)
		c1.w.A.Close()
		c1.w.B.Close()
		for victim.Inst.PeeringV.GetLink(idB.IP) != nil && time.Now().Before(deadline) {
			time.Sleep(200 * time.Microsecond)
		}
		time.Sleep(2 * time.Millisecond)
		before := len(c2.w.AllPassed())
		ack(c2)
		deadline = time.Now().Add(3 * time.Second)
		for victim.Inst.PeeringV.GetLink(idB.IP) == nil && time.Now().Before(deadline) && len(c2.done) == 0 {
			time.Sleep(200 * time.Microsecond)
		}
		if l2 := victim.Inst.PeeringV.GetLink(idB.IP); l2 != nil {
			// a link came up on the second connection: whatever is sent over it must be sealed
			canary := core.RandBytes(r, 24)
			f, err := victim.Inst.BuilderV.NewFrameV1(idV.IP, idB.IP, frame.SessionData, nil, append([]byte("c04-canary-"), canary...), nil)
			if err == nil {
				_ = l2.Send(f)
				time.Sleep(20 * time.Millisecond)
				for _, mm := range c2.w.SentIn(wire.BtoA) {
					if bytes.Contains(mm.Data, canary) {
						res.Violate("link-registered-without-link-keys", "the second of two connections of one peer was completed after the first had used up the key-exchange state: the router registered a link whose frames cross the wire unsealed (payload found in clear)",
							map[string]any{"case_id": "double-dial", "wire_messages_before": before})
						closeAll(c1, c2)
						return
					}
				}
			}
			res.Count("double_dial_second_link_sealed", 1)
			l2.Close(nil)
		} else {
			res.Count("double_dial_second_connection_refused", 1)
		}
		res.Case(fmt.Sprintf("scripted|double-dial|%d", round), true)
		closeAll(c1, c2)
		time.Sleep(4 * time.Millisecond)
	}
}

var _ = peering.FrameOffset
var _ = state.DefaultPrecision

// foreignAck: the remote B runs two handshakes at the same time, with the router under test A and with a third
// router C. An attacker on the path delivers to A, in place of B's last message for A, B's last message for C
// (validly signed by B, newer than anything A has seen from B, but addressed to C and carrying B's key share
// for C). A must abort and register nothing.
func foreignAck(res *core.Result, r *rand.Rand) {
	idA, idB, idC := env.NewIdentity(r, nil), env.NewIdentity(r, nil), env.NewIdentity(r, nil)
	for round := 0; round < 4; round++ {
		cfg := config.Router{Universe: "test"}
		A, B, C := wire.NewRouter(idA, cfg), wire.NewRouter(idB, cfg), wire.NewRouter(idC, cfg)
		// A is the listener in even rounds, the dialler in odd rounds
		aListens := round%2 == 0
		w1, w2 := wire.New(), wire.New()
		dirB := wire.AtoB // direction of B's messages on w1
		if !aListens {
			dirB = wire.BtoA
		}
		w1.Hold(dirB, 2)
		w2.Hold(wire.AtoB, 2)
		doneA := make(chan wire.SetupResult, 1)
		go func() {
			var l peering.Link
			var err error
			if aListens {
				l, err = A.Inst.PeeringV.VerifSetupLink(w1.B, wire.URL, false)
			} else {
				l, err = A.Inst.PeeringV.VerifSetupLink(w1.A, wire.URL, true)
			}
			doneA <- wire.SetupResult{Link: l, Err: err, Done: true}
		}()
		go func() {
			if aListens {
				_, _ = B.Inst.PeeringV.VerifSetupLink(w1.A, wire.URL, true)
			} else {
				_, _ = B.Inst.PeeringV.VerifSetupLink(w1.B, wire.URL, false)
			}
		}()
		parked := func(w *wire.Wire, d wire.Dir) bool {
			deadline := time.Now().Add(5 * time.Second)
			for !w.Parked(d, 2) {
				if time.Now().After(deadline) {
					return false
				}
				time.Sleep(200 * time.Microsecond)
			}
			return true
		}
		closeAll := func() {
			for _, w := range []*wire.Wire{w1, w2} {
				w.A.Close()
				w.B.Close()
				w.ReleaseAll()
			}
		}
		if !parked(w1, dirB) {
			res.Count("foreign_ack_not_reached", 1)
			closeAll()
			time.Sleep(4 * time.Millisecond)
			continue
		}
		time.Sleep(3 * time.Millisecond)
		go func() { _, _ = C.Inst.PeeringV.VerifSetupLink(w2.B, wire.URL, false) }()
		go func() { _, _ = B.Inst.PeeringV.VerifSetupLink(w2.A, wire.URL, true) }()
		if !parked(w2, wire.AtoB) {
			res.Count("foreign_ack_not_reached", 1)
			closeAll()
			time.Sleep(4 * time.Millisecond)
			continue
		}
		ackForC := w2.SentIn(wire.AtoB)[2].Data
		w1.Plan = func(d wire.Dir, idx int, msg []byte) [][]byte {
			if d == dirB && idx == 2 {
				return [][]byte{ackForC}
			}
			return [][]byte{msg}
		}
		w1.Release(dirB, 2)
		var ra wire.SetupResult
		select {
		case ra = <-doneA:
		case <-time.After(3 * time.Second):
			w1.A.Close()
			w1.B.Close()
			select {
			case ra = <-doneA:
			case <-time.After(15 * time.Second):
			}
		}
		if reg, what := registered(A, idB); reg || (ra.Done && ra.Err == nil && ra.Link != nil) {
			res.Violate("link-registered-after-foreign-ack", fmt.Sprintf("the router completed a handshake whose last message was the peer's last message for a third router (addressed to that router, carrying the key share meant for it) and registered a link (%s; A listens: %v)", what, aListens),
				map[string]any{"a_listens": aListens, "case_id": "foreign-ack"})
			closeAll()
			return
		}
		res.Count("foreign_acks_refused", 1)
		res.Case(fmt.Sprintf("scripted|foreign-ack|listens=%v", aListens), true)
		if ra.Link != nil {
			ra.Link.Close(nil)
		}
		closeAll()
		time.Sleep(4 * time.Millisecond)
	}
}

// pingThenImpostor: a router that runs both the ping handler and the peering manager first receives (and must
// refuse) a first-contact ping that claims address P under the attacker's key; then the attacker dials it and runs
// the handshake naming P's genuine public address but signing everything with its own key. No link to P may be
// registered: the remote never proved possession of P's key.
func pingThenImpostor(res *core.Result, r *rand.Rand) {
	for round := 0; round < 3; round++ {
		idV, idP, idM := env.NewIdentity(r, nil), env.NewIdentity(r, nil), env.NewIdentity(r, nil)
		ms := vmesh.New()
		v, err := ms.AddNode(idV, vmesh.NodeOpts{})
		if err != nil {
			res.Inconcl("node: %v", err)
			return
		}
		stub := ms.AddStub(&m.Address{PublicAddress: m.PublicAddress{IP: idM.IP}})
		if err := ms.ConnectOneWay(0, stub.Idx, 41); err != nil {
			res.Inconcl("connect: %v", err)
			return
		}
		// 1. the ping: source P, header key of M, signed by M
		hdr := router.PingHeader{PingID: r.Uint64() | 1, PingType: "pong", AddrHash: idM.Hash, KeyType: idM.Type, PublicKey: idM.PublicKey}
		hd, _ := cbor.Marshal(&hdr)
		body, _ := cbor.Marshal(map[string]string{"msg": "ping"})
		f, err := v.Inst.BuilderV.NewFrameV1(idP.IP, idV.IP, frame.RouterPing, nil, append(append([]byte{1, byte(len(hd))}, hd...), body...), nil)
		if err != nil {
			continue
		}
		f.SetTTL(0)
		f.SetSequenceTime(time.Now().Round(time.Millisecond).Add(-2 * time.Millisecond))
		_ = f.SignRaw(idM.PrivateKey)
		f.SetTTL(30)
		fd, _ := f.FrameDataWithMargins(0, 0)
		ping := append([]byte(nil), fd...)
		f.ReturnToPool()
		if _, perr := ms.HandleAtRouter(0, 1, ping); perr != nil {
			res.Violate("handler-panic", fmt.Sprintf("first-contact ping: %v", perr), nil)
			return
		}
		// 2. the handshake: P's public address, M's private key
		impostor := &m.Address{PublicAddress: idP.PublicAddress, PrivateKey: idM.PrivateKey}
		peer := env.NewBareInstance(impostor, config.MakeTestConfig(config.Store{System: config.System{DisableTun: true}}))
		victim := &wire.Router{Inst: v.Inst, Upstream: make(chan frame.Frame, 64), Alerts: mgr.NewAlertMgr(v.Inst.PeeringV.Manager())}
		linked, detail, ok := scriptedHandshake(res, victim, idV, peer, "", false)
		if !ok {
			res.Count("ping_then_impostor_unusable", 1)
			continue
		}
		if linked {
			res.Violate("link-registered-for-impostor:after-refused-ping", fmt.Sprintf("after refusing a first-contact ping that claimed %s under a foreign key, the router registered a link to %s for a remote that signed the whole handshake with that foreign key (%s)", idP.IP, idP.IP, detail),
				map[string]any{"case_id": "ping-then-impostor"})
			return
		}
		res.Count("ping_then_impostor_refused", 1)
		res.Case(fmt.Sprintf("scripted|ping-then-impostor|%d", round), true)
		time.Sleep(3 * time.Millisecond)
	}
}

// staleRequest: the peer completes a genuine handshake with the router under test (positive control), the link
// is closed, and then requests of that same peer arrive that are genuine but old - dated minutes, hours, days or
// a year before the handshake the router has just seen, as a recording of an earlier connection would be. The
// router must abort at that message (at most an error notice follows) and register nothing, however old it is.
func staleRequest(res *core.Result, r *rand.Rand) {
	idV := env.NewIdentity(r, nil)
	victim := wire.NewRouter(idV, config.Router{Universe: "c04-stale"})
	peer := env.NewBareInstance(env.NewIdentity(r, nil), nil)
	linked, detail, ok := scriptedHandshake(res, victim, idV, peer, "c04-stale", false)
	if !ok || !linked {
		res.Count("stale_request_scenarios_unusable", 1)
		res.SetExtra("stale_request_unusable", detail)
		return
	}
	for _, age := range []time.Duration{time.Second, 59 * time.Minute, time.Hour + time.Second, 2 * time.Hour, 25 * time.Hour, 400 * 24 * time.Hour} {
		time.Sleep(3 * time.Millisecond)
		w := wire.New()
		baseLinks := victim.Inst.PeeringV.LinkCnt()
		done := make(chan wire.SetupResult, 1)
		go func() {
			l, err := victim.Inst.PeeringV.VerifSetupLink(w.B, wire.URL, false)
			done <- wire.SetupResult{Link: l, Err: err, Done: true}
		}()
		s := &scripted{w: w, inst: peer, far: idV, age: age}
		md, got := s.read(done, 5*time.Second)
		var reqV pReq
		if !got || cbor.Unmarshal(md, &reqV) != nil {
			w.A.Close()
			w.B.Close()
			<-done
			res.Count("stale_request_scenarios_unusable", 1)
			continue
		}
		_ = s.sendRequest(&pReq{V: "v0.0.0", U: "c04-stale", A: peer.IdentityV.PublicAddress, C: core.RandBytes(r, 32), LV: 1, TMTU: 9000})
		continued := false
		if md, got = s.read(done, 2*time.Second); got {
			var respV pResp
			if cbor.Unmarshal(md, &respV) != nil || respV.Err == "" {
				continued = true
			}
		}
		w.A.Close()
		w.B.Close()
		var sr wire.SetupResult
		select {
		case sr = <-done:
		case <-time.After(15 * time.Second):
			res.Inconcl("stale request: setup did not return")
			return
		}
		wit := map[string]any{"age": age.String(), "case_id": "stale-request"}
		if continued {
			res.Violate("handshake-continued-after-replay:old-request", fmt.Sprintf("a genuine request of a known peer dated %s before its last accepted handshake was not refused: the router answered it with its response", age), wit)
			return
		}
		if sr.Err == nil || sr.Link != nil || victim.Inst.PeeringV.LinkCnt() > baseLinks {
			res.Violate("link-registered-after-fault:old-request", fmt.Sprintf("a genuine request of a known peer dated %s before its last accepted handshake led to a completed setup (err=%v)", age, sr.Err), wit)
			return
		}
		res.Count("stale_requests_refused", 1)
		res.Case("stale-request|"+age.String(), true)
	}
}
