// Package c04: peering handshake — key-possession proof, universe admission,
// key agreement.
package c04

import (
	"bytes"
	"errors"
	"fmt"
	"github.com/fxamacker/cbor/v2"
	"math/rand/v2"
	"sync"
	"time"

	"github.com/mycoria/mycoria/config"
	"github.com/mycoria/mycoria/frame"
	"github.com/mycoria/mycoria/m"
	"github.com/mycoria/mycoria/state"

	"verifharness/core"
	"verifharness/env"
	"verifharness/wire"
)

func init() {
	core.Register(&core.Prop{
		ID:    "C04",
		Level: "fault_enumeration",
		Rule: "real link setup on both ends of an interposed in-memory connection; honest configuration matrix (universe / secret combinations, both roles); one fault per run at every message position and direction: " +
			"bit flip in every byte of each of the six handshake messages (one random bit per byte in quick, all 8 in thorough), truncation, drop, duplicate, swap with the next message, replay of the same-position message of an earlier complete session (victim with kept state and restarted victim), reflection of the router's own message, impostor signing with another key; " +
			"oracle on the receiving router's link registry and routing table; non-trivial = the fault hits an authenticated byte or is structural; distinct by (message, field class, fault kind, config class, role)",
		Run:              run,
		CrashIsViolation: true,
	})
}

type cfgClass struct {
	name   string
	a, b   config.Router
	expect bool // both sides must register (fully matching)
	// for mismatches: which sides must NOT register
	aMustFail, bMustFail bool
}

func classes() []cfgClass {
	r := func(u, s string) config.Router { return config.Router{Universe: u, UniverseSecret: s} }
	return []cfgClass{
		{name: "no-universe", a: r("", ""), b: r("", ""), expect: true},
		{name: "same-universe", a: r("test", ""), b: r("test", ""), expect: true},
		{name: "same-universe-same-secret", a: r("test", "s3cret"), b: r("test", "s3cret"), expect: true},
		{name: "different-universe", a: r("test", ""), b: r("other", ""), aMustFail: true, bMustFail: true},
		{name: "universe-vs-none", a: r("test", ""), b: r("", ""), aMustFail: true, bMustFail: true},
		{name: "different-secret", a: r("test", "s3cret"), b: r("test", "wrong"), aMustFail: true, bMustFail: true},
		{name: "secret-on-A-only", a: r("test", "s3cret"), b: r("test", ""), aMustFail: true},
		{name: "secret-on-B-only", a: r("test", ""), b: r("test", "s3cret"), bMustFail: true},
		{name: "secret-without-universe-name-on-A-only", a: r("", "s3cret"), b: r("", ""), aMustFail: true},
		{name: "secret-without-universe-name-on-B-only", a: r("", ""), b: r("", "s3cret"), bMustFail: true},
		{name: "lite-and-stub", a: config.Router{Universe: "test", Lite: true}, b: config.Router{Universe: "test", Stub: true}, expect: true},
	}
}

type session struct {
	w      *wire.Wire
	a, b   *wire.Router
	ra, rb wire.SetupResult
	ok     bool
}

func (s *session) close() {
	if s.ra.Link != nil {
		s.ra.Link.Close(nil)
	}
	if s.rb.Link != nil {
		s.rb.Link.Close(nil)
	}
	s.w.A.Close()
	s.w.B.Close()
}

func runHandshake(idA, idB *m.Address, ca, cb config.Router, plan wire.Plan, a, b *wire.Router) *session {
	s := &session{w: wire.New(), a: a, b: b}
	if s.a == nil {
		s.a = wire.NewRouter(idA, ca)
	}
	if s.b == nil {
		s.b = wire.NewRouter(idB, cb)
	}
	s.w.Plan = plan
	s.ra, s.rb, s.ok = wire.Handshake(s.w, s.a, s.b, 20*time.Second)
	return s
}

// registered reports whether router r has anything registered for the far identity.
func registered(r *wire.Router, far *m.Address) (bool, string) {
	if l := r.Inst.PeeringV.GetLink(far.IP); l != nil {
		return true, "link registered for " + far.IP.String()
	}
	if n := r.Inst.PeeringV.LinkCnt(); n != 0 {
		return true, fmt.Sprintf("%d link(s) registered", n)
	}
	for _, e := range r.Inst.RoutingTable().VerifEntries() {
		if e.Source == m.RouteSourcePeer {
			return true, "peer route for " + e.DstIP.String()
		}
	}
	return false, ""
}

func fieldClass(msg []byte, i int) string {
	if i < 2 {
		return "length-prefix"
	}
	j := i - 2 // index within the frame
	switch {
	case j == 1:
		return "ttl"
	case j == 2:
		return "flow"
	case j < 16:
		return "header"
	case j < 48:
		return "addresses"
	case j < 51:
		return "lengths"
	case j >= len(msg)-2-64:
		return "signature"
	default:
		return "body"
	}
}

var msgNames = []string{"request", "response", "ack"}

// exchangeTraffic sends n frames each way over an established link pair and checks byte-identical arrival.
func exchangeTraffic(res *core.Result, s *session, r *rand.Rand, n int, desc string) bool {
	return exchangeTrafficSig(res, s, r, n, desc, "")
}

// exchangeTrafficSig is exchangeTraffic with a suffix for the violation signatures (the history that led here).
func exchangeTrafficSig(res *core.Result, s *session, r *rand.Rand, n int, desc, sigSuffix string) bool {
	send := func(from, to *wire.Router, link interface{ Send(frame.Frame) error }, dir wire.Dir) bool {
		var want [][]byte
		before := s.w.SentCount(dir)
		for i := 0; i < n; i++ {
			payload := core.RandBytes(r, 20+r.IntN(1200))
			f, err := from.Inst.BuilderV.NewFrameV1(from.Inst.IdentityV.IP, to.Inst.IdentityV.IP, frame.SessionData, nil, payload, nil)
			if err != nil {
				res.Inconcl("build frame: %v", err)
				return false
			}
			d, _ := f.FrameDataWithMargins(0, 0)
			want = append(want, append([]byte(nil), d...))
			_ = link.Send(f)
		}
		deadline := time.Now().Add(20 * time.Second)
		for s.w.SentCount(dir) < before+n && time.Now().Before(deadline) {
			time.Sleep(200 * time.Microsecond)
		}
		wire.WaitIdle(s.w, dir, 20*time.Second)
		// (the wire is idle: every byte was read and the reader waits for more, so a frame that is going to arrive has
		// arrived; the grace below only covers the hand-over to the channel)
		lostAfter := 10 * time.Second
		if sigSuffix != "" {
			lostAfter = 1500 * time.Millisecond
		}
		for i := 0; i < n; i++ {
			select {
			case f := <-to.Upstream:
				got, _ := f.FrameDataWithMargins(0, 0)
				if !bytes.Equal(got, want[i]) {
					res.Violate("link-traffic-differs"+sigSuffix, desc+": a frame sent over the established link arrived different", map[string]any{"config": desc})
					return false
				}
				f.ReturnToPool()
			case <-time.After(lostAfter):
				res.Violate("link-traffic-lost"+sigSuffix, fmt.Sprintf("%s: frame %d of %d sent over the freshly established link did not arrive", desc, i, n), map[string]any{"config": desc, "case_id": desc})
				return false
			}
		}
		return true
	}
	return send(s.a, s.b, s.ra.Link, wire.AtoB) && send(s.b, s.a, s.rb.Link, wire.BtoA)
}

func honestMatrix(res *core.Result, r *rand.Rand, idA, idB *m.Address) {
	for _, c := range classes() {
		for _, swapped := range []bool{false, true} {
			ca, cb := c.a, c.b
			aFail, bFail := c.aMustFail, c.bMustFail
			if swapped {
				ca, cb = cb, ca
				aFail, bFail = bFail, aFail
			}
			desc := fmt.Sprintf("config %s swapped=%v", c.name, swapped)
			s := runHandshake(idA, idB, ca, cb, nil, nil, nil)
			if !s.ok {
				res.Inconcl("handshake watchdog (%s)", desc)
				s.close()
				continue
			}
			wit := map[string]any{"config": desc, "errA": fmt.Sprint(s.ra.Err), "errB": fmt.Sprint(s.rb.Err), "case_id": desc}
			if c.expect {
				if s.ra.Err != nil || s.rb.Err != nil || s.ra.Link == nil || s.rb.Link == nil {
					res.Violate("honest-handshake-failed", fmt.Sprintf("%s: two honest routers with matching configuration did not peer: A: %v, B: %v", desc, s.ra.Err, s.rb.Err), wit)
					s.close()
					return
				}
				if s.ra.Link.Peer() != idB.IP || s.rb.Link.Peer() != idA.IP {
					res.Violate("peer-address-wrong", fmt.Sprintf("%s: links report peers %s / %s", desc, s.ra.Link.Peer(), s.rb.Link.Peer()), wit)
					s.close()
					return
				}
				if s.a.Inst.PeeringV.GetLink(idB.IP) != s.ra.Link || s.b.Inst.PeeringV.GetLink(idA.IP) != s.rb.Link {
					res.Violate("completed-link-not-registered", desc+": a completed link is not the one registered for its peer", wit)
					s.close()
					return
				}
				if !exchangeTraffic(res, s, r, 20, desc) {
					s.close()
					return
				}
				res.Count("honest_handshakes_completed", 1)
			} else {
				if aFail {
					if reg, what := registered(s.a, idB); reg {
						res.Violate("admission-check-bypassed:"+c.name, fmt.Sprintf("%s: router A registered a peer although the universe/secret requirement is not met (%s)", desc, what), wit)
						s.close()
						return
					}
				}
				if bFail {
					if reg, what := registered(s.b, idA); reg {
						res.Violate("admission-check-bypassed:"+c.name, fmt.Sprintf("%s: router B registered a peer although the universe/secret requirement is not met (%s)", desc, what), wit)
						s.close()
						return
					}
				}
				res.Count("mismatching_handshakes_refused", 1)
			}
			res.Case("honest:"+desc, !c.expect)
			s.close()
		}
	}
}

// keySetupDuringHandshake: while the two routers shake hands, an end-to-end key setup between the same two routers
// completes (a hello exchange that travelled over another route): at a chosen handshake message, before it is handed
// to its receiver, one router replaces its session keys for the other by those of a fresh exchange - the initiator
// installs a detached session, the responder re-keys in place - exactly what the hello handler does. The link
// handshake may fail on that; if both ends complete and register the link, traffic must cross it in both directions.
func keySetupDuringHandshake(res *core.Result, r *rand.Rand, idA, idB *m.Address) {
	for _, c := range classes() {
		if !c.expect {
			continue
		}
		for _, dir := range []wire.Dir{wire.AtoB, wire.BtoA} {
			for idx := 0; idx < 3; idx++ {
				for _, half := range []string{"request-served", "response-installed"} {
					for _, initiatorIsA := range []bool{true, false} {
						// The hello has two halves: its request is served in place by the responder, its response makes the
						// initiator install a detached session. One half falls into the handshake (at the chosen message), the
						// other one lies outside it - the request was served before the handshake began, or the response
						// arrives after it ended - so that each half is judged on its own.
						desc := fmt.Sprintf("config %s: hello initiated by A=%v, its %s half happens before handshake message %d %s is delivered", c.name, initiatorIsA, half, idx, dir)
						a, b := wire.NewRouter(idA, c.a), wire.NewRouter(idB, c.b)
						_ = a.Inst.StateV.AddRouter(&idB.PublicAddress)
						_ = b.Inst.StateV.AddRouter(&idA.PublicAddress)
						ini, rsp, iniFar, rspFar := a, b, idB, idA
						if !initiatorIsA {
							ini, rsp, iniFar, rspFar = b, a, idA, idB
						}
						fired := false
						var evErr error
						fresh := state.NewEncryptionSession()
						serve := func() error {
							sr := rsp.Inst.StateV.GetSession(rspFar.IP)
							if sr == nil {
								return fmt.Errorf("no session yet")
							}
							kx, kxt, err := fresh.InitKeyClientStart()
							if err != nil {
								return err
							}
							kx2, kxt2, err := sr.Encryption().InitKeyServer(kx, kxt)
							if err != nil {
								return err
							}
							if err := fresh.InitKeyClientComplete(kx2, kxt2); err != nil {
								return err
							}
							fresh.InitCleanup()
							return nil
						}
						install := func() error {
							si := ini.Inst.StateV.GetSession(iniFar.IP)
							if si == nil {
								return fmt.Errorf("no session yet")
							}
							si.SetEncryptionSession(fresh)
							return nil
						}
						if half == "response-installed" {
							if err := serve(); err != nil {
								res.Count("key_setup_during_handshake_not_applicable", 1)
								continue
							}
						}
						plan := func(d wire.Dir, i int, msg []byte) [][]byte {
							if d == dir && i == idx && !fired {
								fired = true
								if half == "request-served" {
									evErr = serve()
								} else {
									evErr = install()
								}
							}
							return [][]byte{msg}
						}
						s := runHandshake(idA, idB, c.a, c.b, plan, a, b)
						if half == "request-served" && fired && evErr == nil {
							_ = install() // the response arrives after the handshake ended
						}
						wit := map[string]any{"config": desc, "errA": fmt.Sprint(s.ra.Err), "errB": fmt.Sprint(s.rb.Err), "case_id": desc}
						if !s.ok {
							res.Count("key_setup_during_handshake_watchdog", 1)
							s.close()
							continue
						}
						if pa := append(a.PanicAlerts(), b.PanicAlerts()...); len(pa) > 0 {
							res.Violate("setup-worker-panic:key-setup-during-handshake", desc+": "+pa[0], wit)
							s.close()
							return
						}
						switch {
						case !fired || evErr != nil:
							res.Count("key_setup_during_handshake_not_applicable", 1)
						case s.ra.Link != nil && s.rb.Link != nil && s.ra.Err == nil && s.rb.Err == nil:
							// the router that acts in the half that falls into the handshake
							who := "the-accepting-router"
							if (half == "request-served") != initiatorIsA {
								who = "the-dialling-router"
							}
							what := ":hello-request-served-in-place-by-"
							if half == "response-installed" {
								what = ":hello-response-installed-at-"
							}
							if !exchangeTrafficSig(res, s, r, 6, desc, fmt.Sprintf("%s%s-before-handshake-message-%d-%s", what, who, idx, map[wire.Dir]string{wire.AtoB: "of-the-dialling-router", wire.BtoA: "of-the-accepting-router"}[dir])) {
								s.close()
								continue // the other positions are still judged
							}
							res.Count("key_setup_during_handshake_link_works", 1)
						default:
							for _, x := range []struct {
								rt  *wire.Router
								far *m.Address
								err error
							}{{a, idB, s.ra.Err}, {b, idA, s.rb.Err}} {
								if x.err == nil {
									continue
								}
								if reg, what := registered(x.rt, x.far); reg {
									res.Violate("link-registered-by-failed-setup", fmt.Sprintf("%s: a router whose setup failed (%v) has something registered: %s", desc, x.err, what), wit)
									s.close()
									return
								}
							}
							res.Count("key_setup_during_handshake_setup_refused", 1)
						}
						res.Case("kx-during-handshake:"+desc, true)
						s.close()
						time.Sleep(3 * time.Millisecond)
					}
				}
			}
		}
	}
}

type faultJob struct {
	class   cfgClass
	dir     wire.Dir
	msgIdx  int
	kind    string
	bytePos int
	bit     uint
	rep     int // replay-kept-state: which consecutive attempt against the same router this is
}

func (j faultJob) String() string {
	if j.rep > 0 {
		jj := j
		jj.rep = 0
		return jj.String() + fmt.Sprintf(" repeated(%d)", j.rep)
	}
	return fmt.Sprintf("%s %s %s #%d %s byte=%d bit=%d", j.class.name, j.dir, msgNames[j.msgIdx], j.msgIdx, j.kind, j.bytePos, j.bit)
}

// runFault executes one handshake with one fault and judges the receiving router.
func runFault(res *core.Result, idA, idB *m.Address, j faultJob, baseline [2][][]byte, old [2][][]byte, keptA, keptB *wire.Router) {
	var mu sync.Mutex
	applied := false
	var held []byte
	var afterFault [][]byte // what the victim sent after the faulty message reached it
	plan := func(d wire.Dir, idx int, msg []byte) [][]byte {
		mu.Lock()
		defer mu.Unlock()
		if d != j.dir {
			// the victim's message number k+1 is its answer to the peer's message number k (its own request and its
			// answers to earlier, genuine messages travel independently and may still be on their way)
			if applied && idx == j.msgIdx+1 {
				afterFault = append(afterFault, append([]byte(nil), msg...))
			}
			return [][]byte{msg}
		}
		switch j.kind {
		case "bitflip":
			if idx == j.msgIdx && j.bytePos < len(msg) {
				applied = true
				mm := append([]byte(nil), msg...)
				mm[j.bytePos] ^= 1 << j.bit
				return [][]byte{mm}
			}
		case "truncate":
			if idx == j.msgIdx && j.bytePos < len(msg) {
				applied = true
				return [][]byte{append([]byte(nil), msg[:j.bytePos]...)}
			}
		case "truncate-fixlen":
			// the last bytePos bytes are cut off and the 2-byte length prefix is made to fit again
			if idx == j.msgIdx && j.bytePos+4 < len(msg) {
				applied = true
				mm := append([]byte(nil), msg[:len(msg)-j.bytePos]...)
				mm[0], mm[1] = byte(len(mm)>>8), byte(len(mm))
				return [][]byte{mm}
			}
		case "alter-then-original":
			// the altered message is followed by the genuine one (an attacker who lets the original through after
			// his own copy): the router must have given up at the altered one
			if idx == j.msgIdx && j.bytePos < len(msg) {
				applied = true
				mm := append([]byte(nil), msg...)
				mm[j.bytePos] ^= 1 << j.bit
				return [][]byte{mm, msg}
			}
		case "drop":
			if idx == j.msgIdx {
				applied = true
				return nil
			}
		case "duplicate":
			if idx == j.msgIdx {
				applied = true
				return [][]byte{msg, msg}
			}
		case "swap":
			if idx == j.msgIdx {
				held = msg
				return nil
			}
			if idx == j.msgIdx+1 && held != nil {
				applied = true
				return [][]byte{msg, held}
			}
		case "replay-kept-state", "replay-restarted":
			if idx == j.msgIdx && idx < len(old[d]) {
				applied = true
				return [][]byte{old[d][idx]}
			}
		case "reflect":
			// give the receiver its own message of that step back
			other := 1 - d
			if idx == j.msgIdx && idx < len(baseline[other]) {
				applied = true
				return [][]byte{baseline[other][idx]}
			}
		}
		return [][]byte{msg}
	}
	var a, b *wire.Router
	if j.kind == "replay-kept-state" {
		// the victim (receiver of the replayed message) keeps the state of the earlier session
		if j.dir == wire.AtoB {
			b = keptB
		} else {
			a = keptA
		}
	}
	s := runHandshake(idA, idB, j.class.a, j.class.b, plan, a, b)
	defer s.close()
	if !s.ok {
		res.Inconcl("handshake watchdog (%s)", j)
		return
	}
	if !applied {
		res.Count("faults_not_reached", 1)
		return
	}
	victim, far, vres := s.b, idA, s.rb
	if j.dir == wire.BtoA {
		victim, far, vres = s.a, idB, s.ra
	}
	field := "structural"
	if j.kind == "bitflip" || j.kind == "alter-then-original" {
		var msg []byte
		if j.msgIdx < len(baseline[j.dir]) {
			msg = baseline[j.dir][j.msgIdx]
		}
		field = fieldClass(msg, j.bytePos)
	}
	wit := map[string]any{"fault": j.String(), "victim_error": fmt.Sprint(vres.Err), "case_id": j.String()}
	reg, what := registered(victim, far)
	// replays against a victim with kept state: the victim still holds nothing new (its old link was closed before)
	switch {
	case j.kind == "duplicate" && j.msgIdx == 2:
		// the first copy of the last message is authentic and completes the handshake; the
		// second copy arrives on the established link and is the link layer's business (C05)
		res.Count("duplicate_of_last_message_tolerated", 1)
	case field == "ttl" || field == "flow":
		// hop-mutable: no assertion either way
		res.Count("hop_mutable_faults", 1)
	case field == "length-prefix":
		if reg && victim.Inst.PeeringV.GetLink(far.IP) == nil {
			res.Violate("link-to-wrong-peer", fmt.Sprintf("%s: after a framing fault the victim registered %s", j, what), wit)
			return
		}
	default:
		if j.kind == "replay-kept-state" {
			// the victim has seen this very message before (its per-peer timestamp filter still holds it): it must
			// abort right there. Whatever it sends afterwards may only be the error notice, never the next handshake step.
			mu.Lock()
			sent := afterFault
			mu.Unlock()
			for _, msg := range sent {
				if len(msg) < 3 {
					continue
				}
				f, err := frame.NewFrameBuilder().ParseFrame(append([]byte(nil), msg[2:]...), nil, 0)
				if err != nil {
					continue
				}
				var notice struct {
					Err string `cbor:"err,omitempty"`
				}
				uerr := cbor.Unmarshal(f.MessageData(), &notice)
				f.ReturnToPool()
				if uerr != nil || notice.Err == "" {
					res.Violate(fmt.Sprintf("handshake-continued-after-replay:%s", msgNames[j.msgIdx]),
						fmt.Sprintf("%s%s: the router that received a message it had already accepted in an earlier connection did not abort: it went on to send its next handshake message", j, map[int]string{0: "", 1: " (second time against the same router)", 2: " (third time against the same router)"}[j.rep]), wit)
					return
				}
				res.Count("replays_answered_with_error_notice", 1)
			}
		}
		if (j.kind == "bitflip" || j.kind == "alter-then-original" || j.kind == "truncate-fixlen") && vres.Done && !vres.BeforeCut && !reg {
			// the statement says "aborts": the setup must end by the router's own decision when the altered message
			// arrives, not sit there until somebody cuts the connection
			res.Violate(fmt.Sprintf("handshake-not-aborted-after-altered-message:%s:%s", j.kind, msgNames[j.msgIdx]),
				fmt.Sprintf("%s (%s): the router that received the altered message neither completed nor gave up; its setup only returned when the connection, on which nothing moved any more, was cut (err=%v)", j, field, vres.Err), wit)
			return
		}
		if reg {
			res.Violate(fmt.Sprintf("link-registered-after-fault:%s:%s", j.kind, msgNames[j.msgIdx]),
				fmt.Sprintf("%s (%s): the router that received the faulty message registered a link (%s); its setup returned err=%v", j, field, what, vres.Err), wit)
			return
		}
		if vres.Err == nil && vres.Link != nil {
			res.Violate(fmt.Sprintf("setup-succeeded-after-fault:%s:%s", j.kind, msgNames[j.msgIdx]), fmt.Sprintf("%s: link setup returned success at the router that received the faulty message", j), wit)
			return
		}
		res.Count("faults_refused:"+j.kind, 1)
	}
	role := "victim-is-server"
	if j.dir == wire.BtoA {
		role = "victim-is-client"
	}
	res.Case(fmt.Sprintf("%s|%s|%s|%s|%s", msgNames[j.msgIdx], field, j.kind, j.class.name, role), field != "ttl" && field != "flow" && field != "length-prefix")
}

// impostor: a raw client that presents the victim an identity it cannot prove.
func impostor(res *core.Result, r *rand.Rand, idA, idB, idM *m.Address, recorded [2][][]byte, class cfgClass) {
	// (1) M replays A's complete recorded side of an earlier session against a fresh B.
	for _, kept := range []bool{false} {
		_ = kept
		w := wire.New()
		b := wire.NewRouter(idB, class.b)
		done := make(chan wire.SetupResult, 1)
		go func() {
			l, err := b.Inst.PeeringV.VerifSetupLink(w.B, wire.URL, false)
			done <- wire.SetupResult{Link: l, Err: err, Done: true}
		}()
		for _, msg := range recorded[wire.AtoB] {
			w.Inject(wire.AtoB, msg)
			wire.WaitIdle(w, wire.AtoB, 5*time.Second)
		}
		time.Sleep(5 * time.Millisecond)
		w.A.Close()
		var rb wire.SetupResult
		select {
		case rb = <-done:
		case <-time.After(20 * time.Second):
			res.Inconcl("impostor replay: watchdog")
			return
		}
		if reg, what := registered(b, idA); reg || rb.Err == nil {
			res.Violate("link-registered-for-replayed-transcript", fmt.Sprintf("a router accepted the complete recorded handshake side of %s replayed by someone else (%s)", idA.IP, what), map[string]any{"config": class.name})
			return
		}
		res.Count("impostor_full_replay_refused", 1)
		res.Case("impostor|full-transcript-replay|"+class.name, true)
		if rb.Link != nil {
			rb.Link.Close(nil)
		}
	}
	// (2) M presents A's public identity but signs with its own key: take a genuine request of M and rewrite nothing but run M under A's address.
	fake := *idM
	fake.PublicAddress = idA.PublicAddress // A's address, hash, key; M's private key signs
	mr := wire.NewRouter(&fake, class.a)
	s := runHandshake(nil, idB, class.a, class.b, nil, mr, nil)
	defer s.close()
	if !s.ok {
		res.Inconcl("impostor handshake: watchdog")
		return
	}
	if reg, what := registered(s.b, idA); reg || s.rb.Err == nil {
		res.Violate("link-registered-for-impostor", fmt.Sprintf("a router registered a link for %s although the far end signed with a different key (%s)", idA.IP, what), map[string]any{"config": class.name})
		return
	}
	res.Count("impostor_wrong_key_refused", 1)
	res.Case("impostor|wrong-key|"+class.name, true)

	// (3) two-step: first a request naming A's address with the impostor's key (refused), then, against
	// the same router, A's genuine public identity signed with the impostor's key.
	victim := wire.NewRouter(idB, class.b)
	poison := *idM
	poison.PublicAddress = m.PublicAddress{IP: idA.IP, Hash: idM.Hash, Type: idM.Type, PublicKey: idM.PublicKey}
	s1 := runHandshake(nil, idB, class.a, class.b, nil, wire.NewRouter(&poison, class.a), victim)
	s1.close()
	time.Sleep(3 * time.Millisecond)
	fake2 := *idM
	fake2.PublicAddress = idA.PublicAddress
	s2 := runHandshake(nil, idB, class.a, class.b, nil, wire.NewRouter(&fake2, class.a), victim)
	defer s2.close()
	if !s1.ok || !s2.ok {
		res.Inconcl("impostor two-step: watchdog")
		return
	}
	if reg, what := registered(victim, idA); reg || s2.rb.Err == nil {
		res.Violate("link-registered-for-impostor:two-step", fmt.Sprintf("after a refused request that named %s with a foreign key, the same router completed a handshake for %s with someone who signs with that foreign key (%s)", idA.IP, idA.IP, what), map[string]any{"config": class.name})
		return
	}
	res.Count("impostor_two_step_refused", 1)
	res.Case("impostor|two-step-key-poisoning|"+class.name, true)

	// (4) a router connected to itself (its client role spliced to its server role). The two roles share one
	// signed-timestamp filter, so the server role starts a little later and the attempt is repeated: most
	// message orders abort for that reason alone.
	for attempt := 0; attempt < 10; attempt++ {
		self := wire.NewRouter(idA, class.a)
		w := wire.New()
		type out struct {
			l   interface{ Close(func()) }
			err error
		}
		ca, cb := make(chan out, 1), make(chan out, 1)
		go func() {
			l, err := self.Inst.PeeringV.VerifSetupLink(w.A, wire.URL, true)
			ca <- out{l, err}
		}()
		time.Sleep(time.Duration(2+attempt%3) * time.Millisecond)
		go func() {
			l, err := self.Inst.PeeringV.VerifSetupLink(w.B, wire.URL, false)
			cb <- out{l, err}
		}()
		var oa, ob out
		got := 0
		deadline := time.After(15 * time.Second)
		for got < 2 {
			select {
			case oa = <-ca:
				got++
				if oa.err != nil {
					w.A.Close()
					w.B.Close()
				}
			case ob = <-cb:
				got++
				if ob.err != nil {
					w.A.Close()
					w.B.Close()
				}
			case <-deadline:
				w.A.Close()
				w.B.Close()
				res.Inconcl("self-connect: watchdog")
				return
			}
		}
		reg, what := registered(self, idA)
		w.A.Close()
		w.B.Close()
		if reg || oa.err == nil || ob.err == nil {
			res.Violate("link-registered-to-self", fmt.Sprintf("a router whose own messages were reflected into its other role registered a link to itself (%s)", what), map[string]any{"config": class.name, "attempt": attempt})
			return
		}
	}
	res.Count("self_connect_refused", 1)
	res.Case("reflect|self-connect-both-roles|"+class.name, true)
}

func parallel(n int, fn func(w int)) { core.Parallel(n, fn) }

var errNoBaseline = errors.New("no baseline")

// record runs one honest session and returns the messages per direction (and the routers, which keep their state).
func record(idA, idB *m.Address, c cfgClass) (msgs [2][][]byte, a, b *wire.Router, err error) {
	s := runHandshake(idA, idB, c.a, c.b, nil, nil, nil)
	if !s.ok || s.ra.Err != nil || s.rb.Err != nil {
		s.close()
		return msgs, nil, nil, fmt.Errorf("%w: %v / %v", errNoBaseline, s.ra.Err, s.rb.Err)
	}
	for _, mm := range s.w.SentIn(wire.AtoB) {
		if len(msgs[0]) < 3 {
			msgs[0] = append(msgs[0], mm.Data)
		}
	}
	for _, mm := range s.w.SentIn(wire.BtoA) {
		if len(msgs[1]) < 3 {
			msgs[1] = append(msgs[1], mm.Data)
		}
	}
	s.close()
	// wait until both registries are empty again (links closed)
	for i := 0; i < 2000 && (s.a.Inst.PeeringV.LinkCnt() > 0 || s.b.Inst.PeeringV.LinkCnt() > 0); i++ {
		time.Sleep(time.Millisecond)
	}
	return msgs, s.a, s.b, nil
}

func run(c *core.Ctx) {
	res := c.Res
	rid := core.RNG("c04/ids")
	idA, idB, idM := env.NewIdentity(rid, nil), env.NewIdentity(rid, nil), env.NewIdentity(rid, nil)
	// honest matrix, both identity orders
	honestMatrix(res, core.RNG("c04/honest"), idA, idB)
	honestMatrix(res, core.RNG("c04/honest2"), idB, idA)
	keySetupDuringHandshake(res, core.RNG("c04/kxduring"), idA, idB)

	faultClasses := []cfgClass{classes()[2], classes()[0]}
	if c.Tier == core.Thorough {
		faultClasses = append(faultClasses, classes()[1])
	}
	var jobs []faultJob
	type rec struct {
		base, old [2][][]byte
		ka, kb    *wire.Router
	}
	recs := map[string]*rec{}
	r := core.RNG("c04/jobs")
	for _, fc := range faultClasses {
		base, _, _, err := record(idA, idB, fc)
		if err != nil {
			res.Inconcl("baseline: %v", err)
			return
		}
		time.Sleep(3 * time.Millisecond)
		old, ka, kb, err := record(idA, idB, fc)
		if err != nil {
			res.Inconcl("baseline: %v", err)
			return
		}
		recs[fc.name] = &rec{base: base, old: old, ka: ka, kb: kb}
		for d := wire.AtoB; d <= wire.BtoA; d++ {
			for mi := 0; mi < 3; mi++ {
				n := len(base[d][mi])
				for pos := 0; pos < n; pos++ {
					if c.Tier == core.Thorough {
						for bit := uint(0); bit < 8; bit++ {
							jobs = append(jobs, faultJob{class: fc, dir: d, msgIdx: mi, kind: "bitflip", bytePos: pos, bit: bit})
						}
					} else if fc.name == faultClasses[0].name || pos%7 == 0 {
						jobs = append(jobs, faultJob{class: fc, dir: d, msgIdx: mi, kind: "bitflip", bytePos: pos, bit: uint(r.IntN(8))})
					}
				}
				step := 9
				if c.Tier == core.Thorough {
					step = 1
				}
				for pos := 0; pos < n; pos += step {
					jobs = append(jobs, faultJob{class: fc, dir: d, msgIdx: mi, kind: "truncate", bytePos: pos})
				}
				for _, k := range []int{1, 2, 3, 8, 64} {
					jobs = append(jobs, faultJob{class: fc, dir: d, msgIdx: mi, kind: "truncate-fixlen", bytePos: k})
				}
				for _, pos := range []int{2, 3, 6, 10, 20, n - 70, n - 30, n - 1} {
					if pos >= 2 && pos < n {
						jobs = append(jobs, faultJob{class: fc, dir: d, msgIdx: mi, kind: "alter-then-original", bytePos: pos, bit: uint(r.IntN(8))})
					}
				}
				for _, kind := range []string{"drop", "duplicate", "swap", "replay-kept-state", "replay-restarted", "reflect"} {
					if kind == "swap" && mi == 2 {
						continue
					}
					jobs = append(jobs, faultJob{class: fc, dir: d, msgIdx: mi, kind: kind})
				}
			}
		}
		impostor(res, r, idA, idB, idM, old, fc)
	}
	// a message that loses exactly its last byte (prefix adjusted): every handshake signs afresh, so repeating this
	// walks through many different signature tails
	for k := 0; k < c.Q(96, 1200); k++ {
		jobs = append(jobs, faultJob{class: faultClasses[0], dir: wire.Dir(k % 2), msgIdx: (k / 2) % 3, kind: "truncate-fixlen", bytePos: 1, rep: 0})
	}
	universeMirror(res, core.RNG("c04/mirror"))
	doubleDial(res, core.RNG("c04/doubledial"))
	foreignAck(res, core.RNG("c04/foreignack"))
	pingThenImpostor(res, core.RNG("c04/pingimpostor"))
	staleRequest(res, core.RNG("c04/stale"))
	res.Sample(jobs[0].String())
	res.Sample(jobs[len(jobs)/2].String())
	res.Sample(jobs[len(jobs)-1].String())
	const W = 16
	var keptMu sync.Mutex
	parallel(W, func(w int) {
		for i := w; i < len(jobs); i += W {
			j := jobs[i]
			rc := recs[j.class.name]
			if j.kind == "replay-kept-state" {
				// kept-state routers are shared: serialise their use
				// ... and every such replay is tried three times in a row against the same router: a refusal must not
				// prepare the ground for the next attempt
				keptMu.Lock()
				for rep := 0; rep < 3; rep++ {
					j.rep = rep
					runFault(res, idA, idB, j, rc.base, rc.old, rc.ka, rc.kb)
				}
				keptMu.Unlock()
				continue
			}
			runFault(res, idA, idB, j, rc.base, rc.old, nil, nil)
		}
	})
	res.Assume("Ed25519/X25519/BLAKE3 strength is assumed; the monitor shows that every authenticated byte of every handshake message and the fresh challenge are actually checked before a link is registered")
	res.Assume("a handshake that is stuck (a message was dropped) is ended by closing the connection once both ends are parked in Read — what a peer or a TCP timeout would do")
	res.Assume("for configurations with an empty universe and a secret the code never peers; the statement only demands that nothing is registered without proof")
	res.Require(res.Counter("scripted_handshakes_completed") >= 1, "the scripted client never completed its positive-control handshake (%d unusable runs)", res.Counter("scripted_handshake_unusable"))
	res.Require(res.Counter("universe_secret_intruders_refused") >= 2 || res.ViolationCount() > 0, "universe-secret intruder scenario not exercised")
	res.Require(res.Counter("double_dial_second_connection_refused")+res.Counter("double_dial_second_link_sealed") >= 1 || res.ViolationCount() > 0, "double-dial scenario never reached its decisive step")
	res.Require(res.Counter("foreign_acks_refused") >= 1 || res.ViolationCount() > 0, "foreign-ack scenario never reached its decisive step")
	res.Require(res.Counter("honest_handshakes_completed") >= 8, "too few honest handshakes completed (positive control)")
	res.Require(res.Counter("faults_refused:bitflip") >= 500, "fewer than 500 bit-flip faults reached an authenticated byte")
}
