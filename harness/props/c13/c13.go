// Package c13: no input from the network can panic or stall a router worker.
package c13

import (
	"sync/atomic"
	"bytes"
	"encoding/binary"
	"errors"
	"fmt"
	"math/rand/v2"
	"net"
	"net/netip"
	"os"
	"runtime"
	"strings"
	"sync"
	"time"

	"github.com/fxamacker/cbor/v2"

	"github.com/mycoria/crop"
	mycoria "github.com/mycoria/mycoria"
	"github.com/mycoria/mycoria/config"
	"github.com/mycoria/mycoria/frame"
	"github.com/mycoria/mycoria/m"
	"github.com/mycoria/mycoria/mgr"
	"github.com/mycoria/mycoria/peering"
	"github.com/mycoria/mycoria/router"
	"github.com/mycoria/mycoria/state"

	"verifharness/core"
	"verifharness/env"
	"verifharness/vmesh"
	"verifharness/wire"
)

func init() {
	core.Register(&core.Prop{
		ID:    "C13",
		Level: "exploration",
		Rule: "hostile inputs against long-lived victims: (a) raw and length-inconsistent bytes to the frame parser; (b) byte streams and malformed/hostile handshake messages to the real link setup; (c) raw garbage and short link frames after the handshake on a real link; " +
			"(d) an authenticated malicious peer (real keys, real end-to-end session) sending well-formed frames of every message type with hostile content (every ping type with fuzzed CBOR and header, hop-record chains with depth 0..100, loops, bad signatures, unknown algorithms, tiny and huge nested blobs, traffic frames with inner/outer mismatch, denied, too short) and arbitrary frame bytes (every header field, switch blocks of every length with existing/dangling/zero-free/oversized labels), " +
			"synchronously through the switch and router handlers (exact attribution) and asynchronously through a real TCP link into a real relay-only instance with its real worker pools (sentinel pongs interleaved); non-trivial = input that passes link authentication and parsing and reaches a handler; distinct by (entry path, message type, ping type, mutation operator)",
		Run:              run,
		CrashIsViolation: true,
		HasRacePart:      true,
		// state reachable from network input during link setup and frame handling: a data race there is a
		// schedule on which a worker can dereference what another one just cleared
		RaceAnchors: []string{`state\.\(\*EncryptionSession\)\.Init`, `state\.\(\*EncryptionSession\)\.initFinalize`, `state\.\(\*EncryptionSession\)\.DeriveSessionFromKX`, `peering\.\(\*peeringRequestState\)`, `router\.\(\*Router\)\.handle`, `router\.\(\*PingPongHandler\)`, `router\.\(\*HelloPingHandler\)`, `router\.\(\*ErrorPingHandler\)`},
	})
}

// ---------- hostile frame generator (shared by the sync and the async part)

type attacker struct {
	r       *rand.Rand
	inst    *env.Instance // the malicious router's real state (keys, session with the victim)
	vIP     netip.Addr    // victim address
	known   []netip.Addr  // other addresses the victim knows
	keyless int
	ground  []groundID
	label   []m.SwitchLabel
}

type groundID struct {
	ip  netip.Addr
	key []byte
}

type hostile struct {
	data  []byte
	kind  string // generator operator (for attribution and distinctness)
	mtype byte
	ptype string
}

func (a *attacker) sealed(mt frame.MessageType, dst netip.Addr, sw, msg, apx []byte, op string) (hostile, bool) {
	b := a.inst.BuilderV
	f, err := b.NewFrameV1(a.inst.IdentityV.IP, dst, mt, sw, msg, apx)
	if err != nil {
		return hostile{}, false
	}
	defer f.ReturnToPool()
	sess := a.inst.StateV.GetSession(a.vIP)
	if mt.Class() == frame.MessageClassUnknown {
		// cannot be sealed: send as is
	} else if dst == a.vIP && sess != nil {
		if mt.IsEncrypted() && a.r.IntN(5) == 0 {
			// the peer holds the keys: it chooses its sequence numbers as it likes - at and around the ends of the
			// number space, backwards, far ahead (the counters sit in its own session object)
			hp := &state.EncryptionSessionTestHelper{EncryptionSession: sess.Encryption()}
			vals := []uint32{0, 1, 2, 255, 256, 0x7fffffff, 0x80000000, 0xfffffeff, 0xffffff00, 0xffffff01, 0xfffffffe, 0xffffffff, a.r.Uint32()}
			v := vals[a.r.IntN(len(vals))]
			if a.r.IntN(2) == 0 {
				hp.PrioSetOut(v)
			} else {
				hp.ReglSetOut(v)
			}
			op += "+sequence-preset"
		}
		if err := f.Seal(sess); err != nil {
			return hostile{}, false
		}
	} else {
		f.SetTTL(0)
		f.SetSequenceTime(time.Now().Round(time.Millisecond))
		if !mt.IsEncrypted() {
			_ = f.SignRaw(a.inst.IdentityV.PrivateKey)
		}
		f.SetTTL(32)
	}
	d, _ := f.FrameDataWithMargins(0, 0)
	return hostile{data: append([]byte(nil), d...), kind: op, mtype: byte(mt)}, true
}

var pingTypes = []string{"hello", "pong", "error", "disconnect", "announce", "nosuch", "", "a.b.c", "UPPER", strings.Repeat("t", 200)}

func (a *attacker) randCBOR() []byte {
	r := a.r
	switch r.IntN(9) {
	case 0:
		return core.RandBytes(r, r.IntN(80))
	case 1:
		b, _ := cbor.Marshal(map[string]any{"kx": core.RandBytes(r, r.IntN(70)), "kxt": "ECDH-X25519/BLAKE3", "mtu": r.IntN(100000) - 500})
		return b
	case 2:
		b, _ := cbor.Marshal(map[string]any{"kx": "not bytes", "kxt": 5, "mtu": "x"})
		return b
	case 3:
		b, _ := cbor.Marshal([]any{1, "two", []byte{3}})
		return b
	case 4:
		b, _ := cbor.Marshal(map[string]any{"msg": []string{"ping", "pong"}[r.IntN(2)]})
		return b
	case 5:
		b, _ := cbor.Marshal(map[string]any{"off": r.IntN(2) == 0, "d": []netip.Addr{a.vIP, a.inst.IdentityV.IP}})
		return b
	case 6:
		b, _ := cbor.Marshal(map[string]any{"u": a.known[r.IntN(len(a.known))], "d": a.vIP, "t": r.IntN(256), "p": r.IntN(65536)})
		return b
	case 7:
		// deeply nested
		var v any = 1
		for i := 0; i < 5+r.IntN(60); i++ {
			v = []any{v}
		}
		b, _ := cbor.Marshal(v)
		return b
	default:
		b, _ := cbor.Marshal(map[string]any{"i": map[string]any{"v": strings.Repeat("v", r.IntN(3000)), "l": []string{"a", "b"}, "srv": []any{1, 2}}, "b": r.IntN(70000), "s": true, "e": "not a time"})
		return b
	}
}

// ping builds a ping message with a hostile header and/or body.
func (a *attacker) ping() (hostile, bool) {
	r := a.r
	id := a.inst.IdentityV
	hdr := router.PingHeader{PingID: r.Uint64(), PingType: pingTypes[r.IntN(len(pingTypes))], PingCode: uint8(r.IntN(256)), FollowUp: r.IntN(2) == 0,
		AddrHash: id.Hash, KeyType: id.Type, PublicKey: id.PublicKey}
	op := "ping"
	switch r.IntN(10) {
	case 0:
		hdr.AddrHash = crop.Hash([]string{"", "blake3", "MD5", strings.Repeat("H", 100)}[r.IntN(4)])
		op = "ping-hdr-hash"
	case 1:
		hdr.KeyType = crop.KeyPairType([]string{"", "ed25519", "RSA", strings.Repeat("K", 120)}[r.IntN(4)])
		op = "ping-hdr-keytype"
	case 2:
		hdr.PublicKey = core.RandBytes(r, []int{0, 1, 5, 31, 33, 64, 150}[r.IntN(7)])
		op = "ping-hdr-keysize"
	}
	hd, err := cbor.Marshal(&hdr)
	if err != nil || len(hd) > 255 {
		return hostile{}, false
	}
	body := a.randCBOR()
	msg := append(append([]byte{1, byte(len(hd))}, hd...), body...)
	// header length tricks
	switch r.IntN(8) {
	case 0:
		msg[1] = byte(r.IntN(256))
		op += "+hdrlen-random"
	case 1:
		if len(msg) < 256 {
			msg[1] = byte(len(msg) - r.IntN(3))
			op += "+hdrlen-at-end"
		}
	case 2:
		// header whose last item absorbs following bytes: hdrLen == len(msg) or len(msg)-1
		pid, _ := cbor.Marshal(map[string]any{"t": hdr.PingType, "i": uint64(1) << 60})
		m2 := append([]byte{1, 0}, pid...)
		m2[1] = byte(len(m2) - r.IntN(2))
		msg = m2
		op += "+hdrlen-past-end"
	case 3:
		msg[0] = byte(r.IntN(256))
		op += "+version"
	case 4:
		msg = msg[:r.IntN(len(msg))+0]
		if len(msg) == 0 {
			msg = []byte{1}
		}
		op += "+truncated"
	}
	if r.IntN(12) == 0 {
		// first contact from an address that really is the digest of odd key material (oversized, undersized):
		// nobody can sign for it, the header is all the victim gets
		if len(a.ground) < 6 {
			for tries := 0; tries < 5000; tries++ {
				key := core.RandBytes(r, []int{33, 40, 64, 31, 5, 100}[len(a.ground)%6])
				ip, err := m.DigestToAddress(crop.BLAKE3, crop.KeyPairTypeEd25519, key, 0)
				if err == nil && ip.As16()[0] == 0xfd && ip.As16()[1]&0x80 == 0 {
					a.ground = append(a.ground, groundID{ip, key})
					break
				}
			}
		}
		if len(a.ground) > 0 {
			g := a.ground[r.IntN(len(a.ground))]
			gh := router.PingHeader{PingID: r.Uint64() | 1, PingType: []string{"pong", "hello", "announce"}[r.IntN(3)], AddrHash: crop.BLAKE3, KeyType: crop.KeyPairTypeEd25519, PublicKey: g.key}
			if ghd, err := cbor.Marshal(&gh); err == nil && len(ghd) <= 255 {
				gmsg := append(append([]byte{1, byte(len(ghd))}, ghd...), a.randCBOR()...)
				gmt := []frame.MessageType{frame.RouterPing, frame.RouterHopPing}[r.IntN(2)]
				gdst := a.vIP
				if gmt == frame.RouterHopPing {
					gdst = m.RouterAddress
				}
				if f, err := a.inst.BuilderV.NewFrameV1(g.ip, gdst, gmt, nil, gmsg, nil); err == nil {
					f.SetSequenceTime(time.Now().Round(time.Millisecond))
					copy(f.AuthData(), core.RandBytes(r, 64))
					f.SetTTL(20)
					d, _ := f.FrameDataWithMargins(0, 0)
					out := hostile{data: append([]byte(nil), d...), kind: fmt.Sprintf("ping-ground-identity-key%d", len(g.key)), mtype: byte(gmt), ptype: gh.PingType}
					f.ReturnToPool()
					return out, true
				}
			}
		}
	}
	mt := []frame.MessageType{frame.RouterPing, frame.RouterPing, frame.RouterCtrl, frame.RouterHopPing, frame.RouterHopPingDeprecated}[r.IntN(5)]
	dst := a.vIP
	if mt == frame.RouterHopPing || mt == frame.RouterHopPingDeprecated || r.IntN(10) == 0 {
		dst = m.RouterAddress
	}
	h, ok := a.sealed(mt, dst, nil, msg, nil, op)
	h.ptype = hdr.PingType
	return h, ok
}

// announce builds an announcement with a hostile hop-record chain.
func (a *attacker) announce() (hostile, bool) { return a.announceOpt(false) }

// announceOpt with honest=true builds a genuine depth-0 announcement (used to re-establish the attacker's own
// route at the victim before a sentinel, since hostile disconnect pings legitimately remove it).
func (a *attacker) announceOpt(honest bool) (hostile, bool) {
	r := a.r
	id := a.inst.IdentityV
	hdr := router.PingHeader{PingID: r.Uint64() | 1, PingType: "announce", AddrHash: id.Hash, KeyType: id.Type, PublicKey: id.PublicKey}
	hd, _ := cbor.Marshal(&hdr)
	body, _ := cbor.Marshal(&router.AnnouncePingMsg{Info: &m.RouterInfo{Version: "v", IANA: []string{strings.Repeat("x", r.IntN(500))}}, ReturnLabel: m.SwitchLabel(r.IntN(65536)), Stub: r.IntN(2) == 0, Expires: time.Now().Add(time.Duration(r.IntN(7200)-600) * time.Second)})
	if honest {
		body, _ = cbor.Marshal(&router.AnnouncePingMsg{Info: &m.RouterInfo{Version: "v"}, Expires: time.Now().Add(time.Hour)})
	} else if r.IntN(6) == 0 {
		body = a.randCBOR()
	}
	msg := append(append([]byte{1, byte(len(hd))}, hd...), body...)
	b := a.inst.BuilderV
	mtAnn := []frame.MessageType{frame.RouterHopPing, frame.RouterHopPingDeprecated}[r.IntN(2)]
	if honest {
		mtAnn = frame.RouterHopPing
	}
	f, err := b.NewFrameV1(id.IP, m.RouterAddress, mtAnn, nil, msg, nil)
	if err != nil {
		return hostile{}, false
	}
	defer f.ReturnToPool()
	f.SetTTL(0)
	f.SetSequenceTime(time.Now().Round(time.Millisecond))
	_ = f.SignRaw(id.PrivateKey)
	f.SetTTL(uint8(1 + r.IntN(40)))
	ctx := make([]byte, 88)
	copy(ctx[:16], id.IP.AsSlice())
	binary.BigEndian.PutUint64(ctx[16:24], uint64(f.SequenceTime().UnixMilli()))
	copy(ctx[24:], f.AuthData())
	// chain: innermost first
	depth := []int{0, 1, 2, 3, 10, 50, 99, 100, 101, 150}[r.IntN(10)]
	if honest {
		depth = 0
	}
	var apx []byte
	op := fmt.Sprintf("announce-depth-%d", depth)
	// each layer is "signed" by the attacker itself (its own key under its own identity), so signatures verify;
	// variants break individual layers
	breakAt := -1
	breakKind := r.IntN(8)
	if depth > 0 && breakKind < 7 {
		breakAt = r.IntN(depth)
	}
	for i := 0; i < depth; i++ {
		att := router.AnnouncePingAttachment{Router: id.PublicAddress, Delay: uint16(r.IntN(65536)), ForwardLabel: m.SwitchLabel(r.IntN(65536)), ReturnLabel: m.SwitchLabel(r.IntN(65536)), NextAttachment: apx}
		if i == breakAt {
			switch breakKind {
			case 0:
				att.Router.Hash = "NOPE"
				op += "+layer-unknown-hash"
			case 1:
				att.Router.Type = crop.KeyPairType(strings.Repeat("T", 300))
				op += "+layer-long-keytype"
			case 2:
				att.Router.PublicKey = core.RandBytes(r, []int{0, 5, 31, 33}[r.IntN(4)])
				op += "+layer-keysize"
			case 3:
				att.Router.IP = a.vIP // the victim itself: looping
				op += "+layer-loop"
			case 4:
				att.NextAttachment = core.RandBytes(r, 1+r.IntN(63)) // tiny inner attachment
				op += "+layer-tiny-inner"
			case 5:
				att.Router.IP = a.known[r.IntN(len(a.known))] // a known router's address with our key
				op += "+layer-foreign-address"
			case 6:
				att.NextAttachment = core.RandBytes(r, 64+r.IntN(3000))
				op += "+layer-garbage-inner"
			}
		}
		ab, err := cbor.Marshal(att)
		if err != nil {
			return hostile{}, false
		}
		sig, err := id.SignWithContext(ab, ctx)
		if err != nil {
			return hostile{}, false
		}
		if i == breakAt && breakKind == 7 {
			sig[r.IntN(64)] ^= 1
		}
		apx = append(ab, sig...)
		if len(apx) > 9500 {
			break
		}
	}
	fuzzApx := r.IntN(8)
	if honest {
		fuzzApx = 7
	}
	switch fuzzApx {
	case 0:
		apx = core.RandBytes(r, r.IntN(200))
		op = "announce-random-appendix"
	case 1:
		if len(apx) > 0 {
			apx = apx[:r.IntN(len(apx))]
			op += "+truncated-appendix"
		}
	}
	if len(apx) > 10000 {
		apx = apx[:10000]
	}
	if err := f.SetAppendixData(apx); err != nil {
		return hostile{}, false
	}
	d, _ := f.FrameDataWithMargins(0, 0)
	return hostile{data: append([]byte(nil), d...), kind: op, mtype: d[4], ptype: "announce"}, true
}

func ipv6Packet(src, dst netip.Addr, proto uint8, sport, dport uint16, n int) []byte {
	p := make([]byte, n)
	if n > 0 {
		p[0] = 6 << 4
	}
	if n >= 44 {
		p[6] = proto
		a := src.As16()
		copy(p[8:24], a[:])
		a = dst.As16()
		copy(p[24:40], a[:])
		p[40], p[41] = byte(sport>>8), byte(sport)
		p[42], p[43] = byte(dport>>8), byte(dport)
	}
	return p
}

func (a *attacker) traffic() (hostile, bool) {
	r := a.r
	src, dst := a.inst.IdentityV.IP, a.vIP
	op := "traffic-honest"
	n := 44 + r.IntN(200)
	switch r.IntN(8) {
	case 0:
		src = a.known[r.IntN(len(a.known))]
		op = "traffic-inner-src-mismatch"
	case 1:
		dst = a.known[r.IntN(len(a.known))]
		op = "traffic-inner-dst-mismatch"
	case 2:
		n = r.IntN(44)
		if n == 0 {
			n = 1
		}
		op = "traffic-too-short"
	case 3:
		dst = netip.MustParseAddr("fd00::b909")
		op = "traffic-internal-dst"
	case 4:
		op = "traffic-denied-port"
	}
	pkt := ipv6Packet(src, dst, []uint8{6, 17, 58, 0, 255}[r.IntN(5)], uint16(r.IntN(65536)), uint16(r.IntN(65536)), n)
	mt := []frame.MessageType{frame.NetworkTraffic, frame.NetworkTraffic, frame.SessionData, frame.SessionCtrl}[r.IntN(4)]
	if r.IntN(5) == 0 && len(a.known) > 0 {
		// traffic that claims a router the victim knows but shares no keys with and cannot reach (each such router
		// is used rarely: error pings towards one router are rate limited)
		a.keyless++
		src := a.known[a.keyless%len(a.known)]
		f, err := a.inst.BuilderV.NewFrameV1(src, a.vIP, mt, nil, ipv6Packet(src, a.vIP, 6, 1000, 80, 60), nil)
		if err != nil {
			return hostile{}, false
		}
		defer f.ReturnToPool()
		f.SetSequenceNum(r.Uint32())
		d, _ := f.FrameDataWithMargins(0, 0)
		return hostile{data: append([]byte(nil), d...), kind: "traffic-from-known-router-without-keys", mtype: byte(mt)}, true
	}
	return a.sealed(mt, a.vIP, nil, pkt, nil, op)
}

// rawFrame builds arbitrary frame bytes (not necessarily sealed): header fields, switch blocks.
func (a *attacker) rawFrame() (hostile, bool) {
	r := a.r
	var block []byte
	op := "raw"
	switch r.IntN(7) {
	case 0: // labels that exist at the victim, possibly looping, no terminator
		for len(block) < r.IntN(255) {
			block = binary.AppendUvarint(block, uint64(a.label[r.IntN(len(a.label))]))
		}
		op = "raw-switch-existing-labels"
	case 1: // dangling labels
		for len(block) < 1+r.IntN(60) {
			block = binary.AppendUvarint(block, uint64(1+r.IntN(65535)))
		}
		op = "raw-switch-dangling-labels"
	case 2: // zero-free / full block
		block = bytes.Repeat([]byte{byte(1 + r.IntN(127))}, 1+r.IntN(255))
		op = "raw-switch-zero-free"
	case 3: // label bigger than the block / overlong varint
		block = bytes.Repeat([]byte{0xff}, 1+r.IntN(12))
		op = "raw-switch-overlong-varint"
	case 4: // only zeros
		block = make([]byte, 1+r.IntN(255))
		op = "raw-switch-zeros"
	case 5:
		block = core.RandBytes(r, 1+r.IntN(255))
		op = "raw-switch-random"
	}
	if len(block) > 255 {
		block = block[:255]
	}
	mt := frame.MessageType([]byte{0, 1, 2, 3, 8, 16, 17, 4, 5, 9, 200, 255}[r.IntN(12)])
	dst := []netip.Addr{a.vIP, a.known[r.IntN(len(a.known))], m.RouterAddress, netip.MustParseAddr("fd00::b909"), netip.MustParseAddr("2001:db8::1")}[r.IntN(5)]
	msg := core.RandBytes(r, 1+r.IntN(300))
	f, err := a.inst.BuilderV.NewFrameV1(a.inst.IdentityV.IP, dst, mt, block, msg, core.RandBytes(r, r.IntN(100)))
	if err != nil {
		return hostile{}, false
	}
	d, _ := f.FrameDataWithMargins(0, 0)
	data := append([]byte(nil), d...)
	f.ReturnToPool()
	// header field fuzz
	switch r.IntN(6) {
	case 0:
		data[1] = byte(r.IntN(3)) // TTL 0..2
		op += "+ttl-low"
	case 1:
		copy(data[16:32], core.RandBytes(r, 16))
		op += "+src-random"
	case 2:
		copy(data[16:32], data[32:48]) // src == dst
		op += "+src-eq-dst"
	case 3:
		a16 := a.vIP.As16()
		copy(data[16:32], a16[:]) // claims to come from the victim itself
		op += "+src-is-victim"
	}
	return hostile{data: data, kind: op, mtype: byte(mt)}, true
}

// lengthFuzz sets length fields of a valid frame to inconsistent values.
func (a *attacker) lengthFuzz() (hostile, bool) {
	r := a.r
	h, ok := a.ping()
	if !ok {
		return h, false
	}
	d := h.data
	op := "length"
	switch r.IntN(5) {
	case 0:
		d[48] = byte(r.IntN(256))
		op = "length-switch"
	case 1:
		mi := 49 + int(d[48])
		if mi+1 < len(d) {
			d[mi], d[mi+1] = byte(r.IntN(256)), byte(r.IntN(256))
		}
		op = "length-message"
	case 2:
		d = d[:r.IntN(len(d))]
		op = "length-truncated"
	case 3:
		d[0] = byte(r.IntN(256))
		op = "length-version"
	case 4:
		d = append(d, core.RandBytes(r, r.IntN(20000))...)
		op = "length-extended"
	}
	return hostile{data: d, kind: op, mtype: h.mtype, ptype: h.ptype}, true
}

func (a *attacker) next() (hostile, bool) {
	switch k := a.r.IntN(100); {
	case k < 30:
		return a.ping()
	case k < 50:
		return a.announce()
	case k < 65:
		return a.traffic()
	case k < 88:
		return a.rawFrame()
	default:
		return a.lengthFuzz()
	}
}

// pingOf extracts the ping header of a frame the victim sent.
func pingOf(d []byte) (router.PingHeader, frame.MessageType, bool) {
	var h router.PingHeader
	if len(d) < 52 {
		return h, 0, false
	}
	mi := 49 + int(d[48])
	if len(d) < mi+4 {
		return h, 0, false
	}
	ml := int(d[mi])<<8 | int(d[mi+1])
	msg := d[mi+2 : min(len(d), mi+2+ml)]
	if len(msg) < 3 || int(msg[1])+2 > len(msg) {
		return h, 0, false
	}
	if cbor.Unmarshal(msg[2:2+int(msg[1])], &h) != nil {
		return h, 0, false
	}
	return h, frame.MessageType(d[4]), true
}

// answers builds 1..3 follow-ups to a request of the victim: genuine, repeated (separately signed) and hostile.
func (a *attacker) answers(req router.PingHeader, mt frame.MessageType) []hostile {
	r := a.r
	id := a.inst.IdentityV
	var out []hostile
	n := 1 + r.IntN(3)
	for k := 0; k < n; k++ {
		hdr := router.PingHeader{PingID: req.PingID, PingType: req.PingType, FollowUp: true, AddrHash: id.Hash, KeyType: id.Type, PublicKey: id.PublicKey}
		hd, _ := cbor.Marshal(&hdr)
		var body []byte
		op := "answer-" + req.PingType
		switch {
		case r.IntN(4) == 0:
			body = a.randCBOR()
			op += "-hostile-body"
		case req.PingType == "pong":
			body, _ = cbor.Marshal(map[string]string{"msg": "pong"})
		case req.PingType == "hello":
			kx := core.RandBytes(r, 32)
			if s := a.inst.StateV.GetSession(a.vIP); s != nil && r.IntN(2) == 0 {
				if k2, _, err := s.Encryption().InitKeyClientStart(); err == nil {
					kx = k2
				}
			}
			body, _ = cbor.Marshal(&router.HelloPingResponse{KeyExchange: kx, KeyExchangeType: "ECDH-X25519/BLAKE3", MTU: 1400})
		default:
			body = a.randCBOR()
		}
		if k > 0 {
			op += "-repeated"
		}
		msg := append(append([]byte{1, byte(len(hd))}, hd...), body...)
		dst := a.vIP
		if mt == frame.RouterHopPing || mt == frame.RouterHopPingDeprecated {
			dst = m.RouterAddress
		}
		if h, ok := a.sealed(mt, dst, nil, msg, nil, op); ok {
			h.ptype = req.PingType
			out = append(out, h)
		}
		time.Sleep(1100 * time.Microsecond) // separately signed: later timestamps
	}
	return out
}

// ---------- (d) synchronous part: vmesh victim, exact attribution

func syncVictim(res *core.Result, r *rand.Rand, nFrames int) {
	ids := make([]*m.Address, 5)
	for i := range ids {
		ids[i] = env.NewIdentity(r, nil)
	}
	// victim with services (so that traffic frames reach the policy) and a fake tun
	cfg := config.MakeTestConfig(config.Store{
		ServiceConfigs: []config.ServiceConfig{{Name: "web", URL: "http://web.myco", Public: true}, {Name: "dns", URL: "udp://:53", Friends: true}},
		FriendConfigs:  []config.FriendConfig{{Name: "mal", IP: ids[1].IP.String()}},
	})
	ms := vmesh.New()
	for i := 0; i < 4; i++ {
		opts := vmesh.NodeOpts{}
		if i == 0 {
			opts = vmesh.NodeOpts{Config: cfg, FakeTun: true}
		}
		if _, err := ms.AddNode(ids[i], opts); err != nil {
			res.Inconcl("node: %v", err)
			return
		}
	}
	labels := []m.SwitchLabel{3, 200, 9}
	for i := 1; i < 4; i++ {
		if err := ms.Connect(0, i, labels[i-1], 7); err != nil {
			res.Inconcl("connect: %v", err)
			return
		}
	}
	if err := ms.Converge(r, false); err != nil {
		res.Inconcl("converge: %v", err)
		return
	}
	// end-to-end session attacker (node 1) <-> victim
	if _, err := ms.Nodes[1].Inst.RouterV.HelloPing.Send(ids[0].IP); err != nil {
		res.Inconcl("hello: %v", err)
		return
	}
	ms.Drain(vmesh.FIFO, 100)
	att := &attacker{r: r, inst: ms.Nodes[1].Inst, vIP: ids[0].IP, known: []netip.Addr{ids[2].IP, ids[3].IP, ids[4].IP}, label: labels}
	// routers the victim has a record of (learned from gossip) but no keys with and no route to
	for i := 0; i < 60; i++ {
		id := env.NewIdentity(r, nil)
		if err := ms.Nodes[0].Inst.StateV.AddRouter(&id.PublicAddress); err == nil {
			att.known = append(att.known, id.IP)
		}
	}
	V := ms.Nodes[0]
	handlers := map[string]int{}
	var recent []string
	for i := 0; i < nFrames; i++ {
		h, ok := att.next()
		if !ok {
			continue
		}
		via := 1
		if r.IntN(12) == 0 {
			via = 2 // arrives over another link
		}
		p := &vmesh.Packet{From: via, To: 0, Data: h.data}
		var resu vmesh.Result
		// the handler runs on another goroutine so that one that never returns is seen as such: no legitimate path
		// blocks longer than the one-second hand-over to the local interface; 30 s without a process stall is a stall
		doneCh := core.OnHelper(func() { resu = ms.DeliverOn(p, 0, via) })
		for {
			t0 := time.Now()
			select {
			case <-doneCh:
			case <-time.After(30 * time.Second):
				if core.StalledSince(t0) {
					// the process (or the whole VM) stood still during these 30 s: they do not count, wait for a
					// window without a stall (the supervisor's own watchdog bounds this)
					res.Count("stall_watchdog_windows_discarded_after_process_stall", 1)
					continue
				}
				res.Violate("worker-stalled:sync:"+strings.SplitN(h.kind, "+", 2)[0], fmt.Sprintf("the victim's handler did not return within 30 s from a frame of an authenticated peer (%s, message type %d, ping type %q); the frames before it: %s", h.kind, h.mtype, h.ptype, strings.Join(recent, ", ")),
					map[string]any{"operator": h.kind, "frame": fmt.Sprintf("%x", h.data[:min(len(h.data), 600)]), "index": i, "case_id": h.kind})
				return
			}
			break
		}
		recent = append(recent, fmt.Sprintf("%s/type %d", h.kind, h.mtype))
		if len(recent) > 6 {
			recent = recent[1:]
		}
		if len(ms.Panics) > 0 {
			res.Violate("worker-panic:sync:"+strings.SplitN(h.kind, "+", 2)[0], fmt.Sprintf("a frame from an authenticated peer (%s, message type %d, ping type %q) panicked the victim's worker: %v", h.kind, h.mtype, h.ptype, ms.Panics[0]),
				map[string]any{"operator": h.kind, "frame": fmt.Sprintf("%x", h.data[:min(len(h.data), 600)]), "frame_len": len(h.data), "index": i, "case_id": h.kind})
			return
		}
		reached := resu.ParseErr == nil && resu.Escalated > 0
		if reached {
			handlers[fmt.Sprintf("%d/%s", h.mtype, h.ptype)]++
		}
		res.Case(fmt.Sprintf("sync|%d|%s|%s", h.mtype, h.ptype, h.kind), reached)
		// whatever the victim emits goes nowhere interesting; drop it, drain the fake tun
		for ms.Pending() > 0 {
			ms.Take(0)
		}
		for drained := false; !drained; {
			select {
			case f := <-V.Tun.SendFrame:
				f.ReturnToPool()
			case <-V.Tun.SendRaw:
			default:
				drained = true
			}
		}
		if i%97 == 0 {
			time.Sleep(time.Millisecond) // later signed timestamps
		}
		if i%60 == 59 {
			// the victim itself asks the attacker something (keep-alive pong to the peer, routed pong, key setup);
			// the attacker answers once, several times (separately signed) or with hostile bodies
			switch r.IntN(3) {
			case 0:
				_, _, _ = V.Inst.RouterV.PingPong.Send(att.inst.IdentityV.IP, true, 0)
			case 1:
				_, _, _ = V.Inst.RouterV.PingPong.Send(att.inst.IdentityV.IP, false, 0)
			default:
				_, _ = env.Rekey(V.Inst, att.inst.IdentityV.IP)
			}
			ms.Settle() // a tree that hands frames to its links from a worker of its own
			var reqs [][]byte
			for ms.Pending() > 0 {
				reqs = append(reqs, ms.Take(0).Data)
			}
			for _, rq := range reqs {
				hdr, mt, ok := pingOf(rq)
				if !ok || hdr.FollowUp {
					continue
				}
				for _, h := range att.answers(hdr, mt) {
					ms.DeliverOn(&vmesh.Packet{From: 1, To: 0, Data: h.data}, 0, 1)
					if len(ms.Panics) > 0 {
						res.Violate("worker-panic:sync:"+h.kind, fmt.Sprintf("an answer of an authenticated peer to the victim's own %s request (%s) panicked the victim's worker: %v", hdr.PingType, h.kind, ms.Panics[0]),
							map[string]any{"operator": h.kind, "frame": fmt.Sprintf("%x", h.data[:min(len(h.data), 600)]), "case_id": h.kind})
						return
					}
					res.Case(fmt.Sprintf("sync-answer|%d|%s|%s", h.mtype, h.ptype, h.kind), true)
					res.Count("answers_to_victim_requests", 1)
					for ms.Pending() > 0 {
						ms.Take(0)
					}
				}
			}
		}
	}
	res.Count("sync_frames", int64(nFrames))
	res.Count("sync_handler_kinds_reached", int64(len(handlers)))
}

// ---------- (a) parser

func parserFuzz(res *core.Result, r *rand.Rand, n int) {
	b := frame.NewFrameBuilder()
	id := env.NewIdentity(r, nil)
	for i := 0; i < n; i++ {
		var data []byte
		op := "random"
		switch r.IntN(4) {
		case 0:
			data = core.RandBytes(r, r.IntN(200))
		case 1:
			data = core.RandBytes(r, 60+r.IntN(65000))
			data[0] = 1
			op = "random-v1"
		default:
			f, err := b.NewFrameV1(id.IP, id.IP, frame.MessageType(r.IntN(20)), core.RandBytes(r, r.IntN(256)), core.RandBytes(r, 1+r.IntN(500)), core.RandBytes(r, r.IntN(300)))
			if err != nil {
				continue
			}
			d, _ := f.FrameDataWithMargins(0, 0)
			data = append([]byte(nil), d...)
			f.ReturnToPool()
			switch r.IntN(4) {
			case 0:
				data[48] = byte(r.IntN(256))
			case 1:
				mi := 49 + int(data[48])
				data[mi], data[mi+1] = byte(r.IntN(256)), byte(r.IntN(256))
			case 2:
				data = data[:r.IntN(len(data))]
			case 3:
				data[4] = byte(r.IntN(256))
			}
			op = "valid-with-bad-length"
		}
		var pf frame.Frame
		var perr error
		pv := vmesh.Safely(func() {
			ps := b.GetPooledSlice(12 + len(data) + 16)
			if ps == nil {
				return
			}
			copy(ps[12:], data)
			pf, perr = b.ParseFrame(ps[12:12+len(data)], ps, 12)
			if perr == nil {
				// touch every accessor a handler would use
				_ = pf.SwitchBlock()
				_ = pf.MessageData()
				_ = pf.AuthData()
				_ = pf.AppendixData()
				_, _ = pf.MessageDataWithOffset(10)
				_ = pf.SrcIP()
				c := pf.Clone()
				c.ReturnToPool()
				pf.ReturnToPool()
			}
		})
		if pv != nil {
			res.Violate("parser-panic:"+op, fmt.Sprintf("parsing/accessing a %d-byte input (%s) panicked: %v", len(data), op, pv), map[string]any{"input": fmt.Sprintf("%x", data[:min(len(data), 300)]), "len": len(data)})
			return
		}
		res.Case("parse|"+op+fmt.Sprint(perr == nil), perr == nil)
	}
	res.Count("parser_inputs", int64(n))
}

// ---------- (b) handshake bytes

func handshakeFuzz(res *core.Result, r *rand.Rand, n int) {
	idV := env.NewIdentity(r, nil)
	idM := env.NewIdentity(r, nil)
	// a recorded genuine request of M, as raw material
	var genuine []byte
	{
		w := wire.New()
		a, b := wire.NewRouter(idM, config.Router{}), wire.NewRouter(idV, config.Router{})
		ra, rb, _ := wire.Handshake(w, a, b, 10*time.Second)
		if msgs := w.SentIn(wire.AtoB); len(msgs) > 0 {
			genuine = msgs[0].Data
		}
		if ra.Link != nil {
			ra.Link.Close(nil)
		}
		if rb.Link != nil {
			rb.Link.Close(nil)
		}
		w.A.Close()
		w.B.Close()
	}
	for i := 0; i < n; i++ {
		victim := wire.NewRouter(idV, config.Router{Universe: []string{"", "u"}[r.IntN(2)]})
		w := wire.New()
		done := make(chan error, 1)
		go func() {
			_, err := victim.Inst.PeeringV.VerifSetupLink(w.B, wire.URL, r.IntN(2) == 0)
			done <- err
		}()
		var stream []byte
		op := ""
		switch r.IntN(8) {
		case 0:
			stream = core.RandBytes(r, 1+r.IntN(3000))
			op = "random-stream"
		case 1:
			n := r.IntN(41)
			if r.IntN(10) == 0 {
				n = 65535
			}
			stream = append([]byte{byte(n >> 8), byte(n)}, core.RandBytes(r, min(n, 70000))...)
			op = fmt.Sprintf("length-prefix-%d", n)
		case 2:
			stream = append([]byte(nil), genuine[:r.IntN(len(genuine))]...)
			op = "genuine-truncated"
		case 3:
			stream = append(append([]byte(nil), genuine...), core.RandBytes(r, r.IntN(300))...)
			op = "genuine-extended"
		case 4:
			stream = append([]byte(nil), genuine...)
			for k := 0; k < 1+r.IntN(4); k++ {
				stream[2+r.IntN(len(stream)-2)] ^= 1 << uint(r.IntN(8))
			}
			op = "genuine-bitflips"
		default:
			// a well-formed, correctly signed request with a hostile CBOR body
			body := hostileRequest(r, idM)
			f, err := victim.Inst.BuilderV.NewFrameV1(idM.IP, m.RouterAddress, frame.RouterPing, nil, body, nil)
			if err != nil {
				w.A.Close()
				<-done
				continue
			}
			f.SetTTL(0)
			f.SetSequenceTime(time.Now().Round(time.Millisecond).Add(-time.Millisecond))
			_ = f.SignRaw(idM.PrivateKey)
			f.SetTTL(1)
			d, _ := f.FrameDataWithMargins(0, 0)
			stream = make([]byte, 2+len(d))
			binary.BigEndian.PutUint16(stream, uint16(len(stream)))
			copy(stream[2:], d)
			f.ReturnToPool()
			op = "signed-request-hostile-body"
		}
		w.Inject(wire.AtoB, stream)
		// wait until the setup returned (it rejects most inputs) or consumed everything and waits for more
		var err error
		returned := false
		for spin := 0; spin < 50000 && !returned; spin++ {
			select {
			case err = <-done:
				returned = true
			default:
				if w.Idle(wire.AtoB) && spin > 5 {
					spin = 50000
				} else {
					time.Sleep(100 * time.Microsecond)
				}
			}
		}
		w.A.Close()
		w.B.Close()
		if returned {
			done <- err
		}
		select {
		case err = <-done:
		case <-time.After(15 * time.Second):
			res.Violate("setup-stalled", fmt.Sprintf("link setup did not return 15s after the connection was closed (input %s)", op), map[string]any{"operator": op, "stream": fmt.Sprintf("%x", stream[:min(len(stream), 300)])})
			return
		}
		if err != nil && errors.Is(err, mgr.ErrWorkerPanic) {
			res.Violate("worker-panic:handshake:"+strings.SplitN(op, "-", 2)[0], fmt.Sprintf("bytes on a connection during link setup (%s) panicked the setup worker: %v", op, err),
				map[string]any{"operator": op, "stream": fmt.Sprintf("%x", stream[:min(len(stream), 600)]), "case_id": op})
			return
		}
		res.Case("handshake|"+strings.SplitN(op, "-", 3)[0]+op[len(op)-min(3, len(op)):], op == "signed-request-hostile-body" || op == "genuine-bitflips")
	}
	res.Count("handshake_streams", int64(n))
}

func hostileRequest(r *rand.Rand, idM *m.Address) []byte {
	addr := map[string]any{"i": idM.IP, "h": string(idM.Hash), "t": string(idM.Type), "k": []byte(idM.PublicKey)}
	switch r.IntN(9) {
	case 0:
		addr["h"] = []string{"", "blake3", "SHA1", strings.Repeat("H", 5000)}[r.IntN(4)]
	case 1:
		addr["t"] = []string{"", "RSA", strings.Repeat("K", 255), strings.Repeat("K", 256), strings.Repeat("K", 9000)}[r.IntN(5)]
	case 2:
		addr["k"] = core.RandBytes(r, []int{0, 1, 5, 31, 33, 64, 9000}[r.IntN(7)])
	case 3:
		addr["i"] = []any{[]byte{1, 2, 3}, "fd00::1", 5, nil}[r.IntN(4)]
	case 4:
		addr["e"] = r.Uint64()
	case 5:
		addr = map[string]any{"i": 1, "h": 2, "t": 3, "k": 4}
	}
	req := map[string]any{"v": strings.Repeat("v", r.IntN(3000)), "u": []string{"", "u", strings.Repeat("u", 2000)}[r.IntN(3)], "a": addr,
		"c": core.RandBytes(r, []int{0, 1, 15, 16, 32, 5000}[r.IntN(6)]), "lv": []any{1, 0, 2, "x", -1}[r.IntN(5)], "tmtu": []any{9000, -5, 1 << 40, "m"}[r.IntN(4)]}
	if r.IntN(8) == 0 {
		b, _ := cbor.Marshal([]any{req})
		return b
	}
	b, err := cbor.Marshal(req)
	if err != nil || len(b) > 9900 {
		return []byte{0xA0}
	}
	return b
}

// ---------- (b2) hostile response / ack: a real attacker-side setup whose 2nd or 3rd message is replaced by a
// correctly signed message with a hostile body

func hostileStepBody(r *rand.Rand) []byte {
	kx := core.RandBytes(r, []int{0, 1, 31, 32, 33, 64, 5000}[r.IntN(7)])
	var v any
	switch r.IntN(7) {
	case 0:
		v = map[string]any{"c": core.RandBytes(r, []int{0, 1, 16, 32, 4000}[r.IntN(5)]), "ua": core.RandBytes(r, r.IntN(200)), "kx": kx, "kxt": []string{"", "ECDH-X25519/BLAKE3", "X", strings.Repeat("k", 3000)}[r.IntN(4)]}
	case 1:
		v = map[string]any{"ack": true, "kx": kx, "kxt": []string{"", "ECDH-X25519/BLAKE3", "nope"}[r.IntN(3)]}
	case 2:
		v = map[string]any{"err": strings.Repeat("e", r.IntN(9000))}
	case 3:
		v = map[string]any{"c": 5, "ua": "x", "kx": []int{1, 2}, "kxt": 7, "ack": "yes", "err": []byte{1}}
	case 4:
		v = []any{1, 2, 3}
	case 5:
		v = map[string]any{"ack": true} // ack without key exchange material
	default:
		return core.RandBytes(r, r.IntN(300))
	}
	b, err := cbor.Marshal(v)
	if err != nil || len(b) > 9900 {
		return []byte{0xA0}
	}
	return b
}

func handshakeSteps(res *core.Result, r *rand.Rand, n int) {
	idV, idM := env.NewIdentity(r, nil), env.NewIdentity(r, nil)
	for i := 0; i < n; i++ {
		victimIsB := r.IntN(2) == 0
		step := 1 + r.IntN(2) // 1 = response, 2 = ack
		body := hostileStepBody(r)
		// the first 408 rounds enumerate (message, victim role, field, hostile value) on an otherwise genuine
		// message; later rounds replace the whole body
		values := []any{
			strings.Repeat("\x01", 10), strings.Repeat("\x01", 3000), strings.Repeat("\x01", 20000), // control characters (quoted 4:1 in error texts)
			"", "k", strings.Repeat("k", 300), strings.Repeat("k", 9000), strings.Repeat("k", 30000),
			[]byte{}, []byte{1}, core.RandBytes(r, 31), core.RandBytes(r, 33), core.RandBytes(r, 5000), core.RandBytes(r, 40000),
			r.IntN(1000) - 500, []any{"x", 1}, r.IntN(2) == 0,
		}
		fieldsList := []string{"kxt", "kx", "ua", "err", "c", "ack"}
		keepRest := i < 2*2*len(fieldsList)*len(values)
		hostileField, hostileValue := "", any(nil)
		if keepRest {
			step = 1 + i%2
			victimIsB = (i/2)%2 == 0
			hostileField = fieldsList[(i/4)%len(fieldsList)]
			hostileValue = values[(i/(4*len(fieldsList)))%len(values)]
		}
		w := wire.New()
		var a, b *wire.Router
		attDir := wire.AtoB
		if victimIsB {
			a, b = wire.NewRouter(idM, config.Router{}), wire.NewRouter(idV, config.Router{})
		} else {
			a, b = wire.NewRouter(idV, config.Router{}), wire.NewRouter(idM, config.Router{})
			attDir = wire.BtoA
		}
		builder := frame.NewFrameBuilder()
		replaced := false
		w.Plan = func(dir wire.Dir, idx int, msg []byte) [][]byte {
			if dir != attDir || idx != step || len(msg) < 2+49 {
				return [][]byte{msg}
			}
			orig := msg[2:]
			useBody := body
			if keepRest {
				// keep the genuine message (right challenge, right key material) and make one field hostile
				mi := 49 + int(orig[48])
				ml := int(orig[mi])<<8 | int(orig[mi+1])
				var fields map[string]any
				if mi+2+ml <= len(orig) && cbor.Unmarshal(orig[mi+2:mi+2+ml], &fields) == nil && len(fields) > 0 {
					fields[hostileField] = hostileValue
					if b2, err := cbor.Marshal(fields); err == nil {
						useBody = b2
					}
				}
			}
			// the frame is written by hand: messages above the builder's 10000-byte cap are still valid on the wire
			raw := make([]byte, 0, 51+len(useBody)+64)
			raw = append(raw, orig[:48]...)
			raw = append(raw, 0, byte(len(useBody)>>8), byte(len(useBody)))
			raw = append(raw, useBody...)
			raw = append(raw, make([]byte, 64)...)
			if len(useBody) > 65000 {
				return [][]byte{msg}
			}
			pf, err := builder.ParseFrame(raw, nil, 0)
			if err != nil {
				return [][]byte{msg}
			}
			f1, isV1 := pf.(*frame.FrameV1)
			if !isV1 {
				return [][]byte{msg}
			}
			f1.SetTTL(0)
			_ = f1.SignRaw(idM.PrivateKey)
			f1.SetTTL(orig[1])
			d := raw // the frame was parsed in place: signature and TTL are in raw
			if len(d)+2 > 65535 {
				return [][]byte{msg}
			}
			out := make([]byte, 2+len(d))
			binary.BigEndian.PutUint16(out, uint16(len(out)))
			copy(out[2:], d)
			replaced = true
			return [][]byte{out}
		}
		ra, rb, ok := wire.Handshake(w, a, b, 10*time.Second)
		if !ok {
			res.Violate("setup-stalled", "link setup did not return 5s after the connection was closed (hostile handshake step)", map[string]any{"step": step, "body": fmt.Sprintf("%x", body[:min(len(body), 200)])})
			return
		}
		vres, vr := rb, b
		if !victimIsB {
			vres, vr = ra, a
		}
		if (vres.Err != nil && errors.Is(vres.Err, mgr.ErrWorkerPanic)) || len(vr.PanicAlerts()) > 0 {
			res.Violate(fmt.Sprintf("worker-panic:handshake:step%d", step), fmt.Sprintf("a correctly signed handshake message %d with a hostile body panicked the setup worker: %v %v", step, vres.Err, vr.PanicAlerts()),
				map[string]any{"step": step, "victim_is_listener": victimIsB, "body": fmt.Sprintf("%x", body[:min(len(body), 600)]), "case_id": fmt.Sprintf("step%d", step)})
			return
		}
		for _, l := range []peering.Link{ra.Link, rb.Link} {
			if l != nil {
				l.Close(nil)
			}
		}
		w.A.Close()
		w.B.Close()
		if os.Getenv("C13_DEBUG") != "" && keepRest {
			e := "<nil>"
			if vres.Err != nil {
				e = vres.Err.Error()
			}
			fmt.Fprintf(os.Stderr, "HS step=%d victimIsB=%v field=%s value=%T/%d replaced=%v err=%.150s\n", step, victimIsB, hostileField, hostileValue, len(fmt.Sprint(hostileValue)), replaced, e)
		}
		res.Case(fmt.Sprintf("handshake-step|%d|%v|%d", step, victimIsB, i%8), replaced)
		if replaced {
			res.Count("handshake_hostile_steps", 1)
		}
		time.Sleep(3 * time.Millisecond) // same identities again: later signed timestamps
	}
}

// ---------- (c)+(d) asynchronous part: real instance, real TCP link, real worker pools

type rawFrame struct {
	frame.Frame
	data []byte // with link margins: 12 bytes offset + frame + 16 overhead
}

func (f *rawFrame) FrameDataWithMargins(offset, overhead int) ([]byte, error) {
	if offset > 12 || overhead > 16 {
		return nil, errors.New("margins")
	}
	return f.data[12-offset : len(f.data)-16+overhead], nil
}
func (f *rawFrame) ReturnToPool()                  {}
func (f *rawFrame) MessageType() frame.MessageType { return frame.MessageType(f.data[12+4]) }

func freePort() int {
	ln, err := net.Listen("tcp", "127.0.0.1:0")
	if err != nil {
		return 0
	}
	defer ln.Close()
	return ln.Addr().(*net.TCPAddr).Port
}

func asyncVictim(res *core.Result, r *rand.Rand, nFrames int) {
	idV, idM := env.NewIdentity(r, nil), env.NewIdentity(r, nil)
	port := freePort()
	if port == 0 {
		res.Inconcl("no free port")
		return
	}
	cfg, err := config.Store{
		Router: config.Router{Address: idV.Store(), Listen: []string{fmt.Sprintf("tcp://127.0.0.1:%d", port)}},
		System: config.System{DisableTun: true},
	}.Parse()
	if err != nil {
		res.Inconcl("config: %v", err)
		return
	}
	victim, err := mycoria.New("v0.0.0-verif", cfg)
	if err != nil {
		res.Inconcl("victim: %v", err)
		return
	}
	var alertMu sync.Mutex
	var alerts []string
	var ams []*mgr.AlertMgr
	for _, mm := range []*mgr.Manager{victim.Router().Manager(), victim.Switch().Manager(), victim.Peering().Manager(), victim.State().Manager()} {
		ams = append(ams, mgr.NewAlertMgr(mm))
	}
	collect := func() {
		alerts = alerts[:0]
		for _, am := range ams {
			u := am.Export()
			for _, al := range u.Alerts {
				if strings.HasPrefix(al.ID, "worker-panic") {
					alerts = append(alerts, u.Module+": "+al.ID+": "+al.Message)
				}
			}
		}
	}
	if err := victim.Start(); err != nil {
		res.Inconcl("victim start: %v", err)
		return
	}
	defer victim.Stop()
	// the malicious peer: a real peering manager dialling the victim over TCP
	mal := wire.NewRouter(idM, config.Router{})
	mal.Inst.PeeringV.AddProtocol("tcp", peering.ProtocolTCP)
	var link peering.Link
	for try := 0; try < 200; try++ {
		link, err = mal.Inst.PeeringV.PeerWith(&m.PeeringURL{Protocol: "tcp", Domain: "127.0.0.1", Port: uint16(port)}, netip.Addr{})
		if err == nil {
			break
		}
		time.Sleep(25 * time.Millisecond)
	}
	if err != nil || link == nil {
		res.Inconcl("malicious peer could not connect: %v", err)
		return
	}
	defer link.Close(nil)
	// Nothing hostile has been sent yet. A worker panic at this point is not about network input: the listener
	// could not bind (the port was taken between probe and bind), which on this tree panics the listen manager
	// (DESIGN.md 9.6). That victim is not usable; another run decides.
	collect()
	if len(alerts) > 0 {
		res.Count("async_victims_skipped_panic_before_any_input", 1)
		return
	}
	// end-to-end session by hand (the attacker has no router): hello request, wait for the response on its upstream
	ab := mal.Inst.StateV.GetSession(idV.IP)
	kx, kxt, _ := ab.Encryption().InitKeyClientStart()
	reqBody, _ := cbor.Marshal(&router.HelloPingRequest{KeyExchange: kx, KeyExchangeType: kxt, MTU: 9000})
	sendPing := func(pingType string, pingID uint64, body []byte) {
		hdr := router.PingHeader{PingID: pingID, PingType: pingType, AddrHash: idM.Hash, KeyType: idM.Type, PublicKey: idM.PublicKey}
		hd, _ := cbor.Marshal(&hdr)
		msg := append(append([]byte{1, byte(len(hd))}, hd...), body...)
		f, err := mal.Inst.BuilderV.NewFrameV1(idM.IP, idV.IP, frame.RouterPing, nil, msg, nil)
		if err == nil && f.Seal(ab) == nil {
			_ = link.SendPriority(f)
		}
	}
	// answerRequest: the victim's own requests (keep-alive pongs, key setups) are answered 1..3 times, genuinely
	// or with hostile bodies, once the attacker is set up.
	var att *attacker
	answered := 0
	answerRequest := func(f frame.Frame) {
		if att == nil {
			return
		}
		d, err := f.FrameDataWithMargins(0, 0)
		if err != nil {
			return
		}
		hdr, mt, ok := pingOf(d)
		if !ok || hdr.FollowUp || (hdr.PingType != "pong" && hdr.PingType != "hello") {
			return
		}
		for _, h := range att.answers(hdr, mt) {
			buf := make([]byte, 12+len(h.data)+16)
			copy(buf[12:], h.data)
			_ = link.SendPriority(&rawFrame{data: buf})
			answered++
		}
	}
	waitReply := func(pingType string, pingID uint64, d time.Duration) ([]byte, bool) {
		deadline := time.After(d)
		for {
			select {
			case f := <-mal.Upstream:
				// signed pings are plaintext; the attacker does not apply the replay filter to them (the victim's
				// workers answer concurrently, so answers may arrive slightly out of timestamp order)
				if f.MessageType() == frame.RouterPing {
					md := append([]byte(nil), f.MessageData()...)
					if len(md) > 2 && int(md[1])+2 <= len(md) {
						var h router.PingHeader
						if cbor.Unmarshal(md[2:2+int(md[1])], &h) == nil && h.PingType == pingType && h.PingID == pingID {
							f.ReturnToPool()
							return md[2+int(md[1]):], true
						}
					}
				}
				answerRequest(f)
				f.ReturnToPool()
			case <-deadline:
				return nil, false
			}
		}
	}
	helloID := r.Uint64() | 1
	sendPing("hello", helloID, reqBody)
	if body, ok := waitReply("hello", helloID, 10*time.Second); ok {
		var resp router.HelloPingResponse
		if cbor.Unmarshal(body, &resp) == nil {
			_ = ab.Encryption().InitKeyClientComplete(resp.KeyExchange, resp.KeyExchangeType)
		}
	}
	if !ab.Encryption().IsSetUp() {
		res.Inconcl("async: end-to-end session with the victim did not come up")
		return
	}
	att = &attacker{r: r, inst: mal.Inst, vIP: idV.IP, known: []netip.Addr{env.NewIdentity(r, nil).IP, env.NewIdentity(r, nil).IP}, label: []m.SwitchLabel{link.SwitchLabel(), 5, 300}}
	sentinelOK := 0
	var journal []hostile
	check := func(upto int) bool {
		alertMu.Lock()
		defer alertMu.Unlock()
		collect()
		if len(alerts) > 0 {
			last := journal[max(0, len(journal)-25):]
			var ops []string
			for _, h := range last {
				ops = append(ops, h.kind)
			}
			w := map[string]any{"alerts": alerts, "last_operators": ops, "frames_sent": upto}
			if len(last) > 0 {
				w["last_frame"] = fmt.Sprintf("%x", last[len(last)-1].data[:min(600, len(last[len(last)-1].data))])
			}
			res.Violate("worker-panic:async", fmt.Sprintf("a worker of a real router instance panicked while an authenticated peer sent hostile frames (last operators: %v): %s", ops[max(0, len(ops)-4):], alerts[0]), w)
			return false
		}
		return true
	}
	for i := 0; i < nFrames; i++ {
		h, ok := att.next()
		if !ok {
			continue
		}
		for drained := 0; drained < 20; drained++ {
			select {
			case f := <-mal.Upstream:
				answerRequest(f)
				f.ReturnToPool()
				continue
			default:
			}
			break
		}
		journal = append(journal, h)
		if len(journal) > 200 {
			journal = journal[100:]
		}
		buf := make([]byte, 12+len(h.data)+16)
		copy(buf[12:], h.data)
		rf := &rawFrame{data: buf}
		if len(buf) <= 0xFFFF {
			if i%2 == 0 {
				_ = link.Send(rf)
			} else {
				_ = link.SendPriority(rf)
			}
		}
		if i%50 == 49 {
			// sentinel: a genuine pong request must still be answered (workers alive, not in panic backoff)
			id := r.Uint64() | 1
			pb, _ := cbor.Marshal(map[string]string{"msg": "ping"})
			// signed frames carry millisecond timestamps which must strictly increase per sender: leave a gap
			// after the hostile frames, and try a few times (answers are not retransmitted by the protocol)
			answered := false
			for try := 0; try < 4 && !answered; try++ {
				time.Sleep(3 * time.Millisecond)
				if h, ok := att.announceOpt(true); ok {
					buf := make([]byte, 12+len(h.data)+16)
					copy(buf[12:], h.data)
					_ = link.SendPriority(&rawFrame{data: buf})
					time.Sleep(3 * time.Millisecond)
				}
				id = r.Uint64() | 1
				sendPing("pong", id, pb)
				_, answered = waitReply("pong", id, 5*time.Second)
			}
			if answered {
				sentinelOK++
			} else if link.IsClosing() {
				res.Count("async_link_closed_by_victim", 1)
				break
			} else {
				if !check(i) {
					return
				}
				if stuck := stuckWorkers(); len(stuck) > 0 {
					res.Violate("worker-stalled:async", fmt.Sprintf("after %d hostile frames a worker of the real router stays in the same non-idle stack for 1.5s and genuine pong requests are not answered: %s", i, stuck[0]), map[string]any{"frames_sent": i, "stuck": stuck})
					return
				}
				// workers are idle: the attacker made itself unreachable by legitimate means; observation only
				res.Count("async_sentinel_unanswered_workers_idle", 1)
			}
			if !check(i) {
				return
			}
		}
		res.Case(fmt.Sprintf("async|%d|%s|%s", h.mtype, h.ptype, h.kind), true)
	}
	time.Sleep(50 * time.Millisecond)
	if !check(nFrames) {
		return
	}
	if stuck := stuckWorkers(); len(stuck) > 0 {
		res.Violate("worker-stalled:async", fmt.Sprintf("after %d hostile frames a worker of the real router stays in the same non-idle stack for 1.5s: %s", nFrames, stuck[0]), map[string]any{"stuck": stuck})
		return
	}
	res.Count("async_quiescent_stack_samples", 1)
	res.Count("async_frames", int64(nFrames))
	res.Count("async_sentinel_pongs_answered", int64(sentinelOK))
	res.Count("async_answers_to_victim_requests", int64(answered))
}

// stallConn is a TCP connection whose reader can be frozen: the far end of a link that stops reading (a hung or
// overloaded neighbour), so that the victim's writer for that link blocks and its send queue fills up.
type stallConn struct {
	net.Conn
	stalled atomic.Bool
	closed  atomic.Bool
}

func (c *stallConn) Read(b []byte) (int, error) {
	for c.stalled.Load() && !c.closed.Load() {
		time.Sleep(5 * time.Millisecond)
	}
	return c.Conn.Read(b)
}

func (c *stallConn) Close() error {
	c.closed.Store(true)
	return c.Conn.Close()
}

// congestedNeighbour: a real router instance has two peers: the malicious one and a neighbour that stops reading
// from its connection. The malicious peer sends far more transit frames for that neighbour (both priority
// classes) than the victim's link queue holds. Whatever the victim does with the frames it cannot send - nothing
// may panic its workers, and it must keep answering.
func congestedNeighbour(res *core.Result, r *rand.Rand, nFrames int) {
	idV, idM, idS := env.NewIdentity(r, nil), env.NewIdentity(r, nil), env.NewIdentity(r, nil)
	port := freePort()
	if port == 0 {
		res.Inconcl("no free port")
		return
	}
	cfg, err := config.Store{
		Router: config.Router{Address: idV.Store(), Listen: []string{fmt.Sprintf("tcp://127.0.0.1:%d", port)}},
		System: config.System{DisableTun: true},
	}.Parse()
	if err != nil {
		res.Inconcl("config: %v", err)
		return
	}
	victim, err := mycoria.New("v0.0.0-verif", cfg)
	if err != nil {
		res.Inconcl("victim: %v", err)
		return
	}
	var ams []*mgr.AlertMgr
	for _, mm := range []*mgr.Manager{victim.Router().Manager(), victim.Switch().Manager(), victim.Peering().Manager(), victim.State().Manager()} {
		ams = append(ams, mgr.NewAlertMgr(mm))
	}
	panics := func() []string {
		var out []string
		for _, am := range ams {
			u := am.Export()
			for _, al := range u.Alerts {
				if strings.HasPrefix(al.ID, "worker-panic") {
					out = append(out, u.Module+": "+al.ID+": "+al.Message)
				}
			}
		}
		return out
	}
	if err := victim.Start(); err != nil {
		res.Inconcl("victim start: %v", err)
		return
	}
	defer victim.Stop()
	mal := wire.NewRouter(idM, config.Router{})
	mal.Inst.PeeringV.AddProtocol("tcp", peering.ProtocolTCP)
	var link peering.Link
	for try := 0; try < 200; try++ {
		link, err = mal.Inst.PeeringV.PeerWith(&m.PeeringURL{Protocol: "tcp", Domain: "127.0.0.1", Port: uint16(port)}, netip.Addr{})
		if err == nil {
			break
		}
		time.Sleep(25 * time.Millisecond)
	}
	if err != nil || link == nil {
		res.Inconcl("malicious peer could not connect: %v", err)
		return
	}
	defer link.Close(nil)
	// the neighbour: a real link setup over a TCP connection whose reader the harness can freeze
	nb := wire.NewRouter(idS, config.Router{})
	raw, err := net.Dial("tcp", fmt.Sprintf("127.0.0.1:%d", port))
	if err != nil {
		res.Inconcl("neighbour dial: %v", err)
		return
	}
	sc := &stallConn{Conn: raw}
	defer sc.Close()
	nbLink, err := nb.Inst.PeeringV.VerifSetupLink(sc, &m.PeeringURL{Protocol: "tcp", Domain: "127.0.0.1", Port: uint16(port)}, true)
	if err != nil || nbLink == nil {
		res.Inconcl("neighbour link setup: %v", err)
		return
	}
	defer nbLink.Close(nil)
	deadline := time.Now().Add(10 * time.Second)
	for victim.Peering().GetLink(idS.IP) == nil && time.Now().Before(deadline) {
		time.Sleep(2 * time.Millisecond)
	}
	if victim.Peering().GetLink(idS.IP) == nil {
		res.Inconcl("victim did not register the neighbour")
		return
	}
	sc.stalled.Store(true)
	// transit frames for the neighbour: correct frames of both classes that the victim only has to pass on
	sent := 0
	for i := 0; i < nFrames; i++ {
		mt := frame.NetworkTraffic
		if i%4 == 3 {
			mt = frame.RouterCtrl
		}
		f, err := mal.Inst.BuilderV.NewFrameV1(idM.IP, idS.IP, mt, nil, core.RandBytes(r, 1300), nil)
		if err != nil {
			continue
		}
		d, _ := f.FrameDataWithMargins(0, 0)
		buf := make([]byte, 12+len(d)+16)
		copy(buf[12:], d)
		f.ReturnToPool()
		if i%4 == 3 {
			_ = link.SendPriority(&rawFrame{data: buf})
		} else {
			_ = link.Send(&rawFrame{data: buf})
		}
		sent++
		if i%500 == 499 {
			time.Sleep(2 * time.Millisecond)
			if p := panics(); len(p) > 0 {
				res.Violate("worker-panic:congested-next-hop", fmt.Sprintf("a worker of a real router instance panicked after %d transit frames for a neighbour that had stopped reading: %s", sent, p[0]), map[string]any{"alerts": p, "frames_sent": sent, "case_id": "congested-neighbour"})
				return
			}
		}
	}
	// frames of one link are read in order: once a genuine pong request sent after the flood is answered, the
	// victim has worked off the flood (bounded wait; no answer is not a verdict by itself)
	ab := mal.Inst.StateV.GetSession(idV.IP)
	answered := false
	for try := 0; try < 5 && !answered && ab != nil; try++ {
		time.Sleep(3 * time.Millisecond)
		id := r.Uint64() | 1
		hdr := router.PingHeader{PingID: id, PingType: "pong", AddrHash: idM.Hash, KeyType: idM.Type, PublicKey: idM.PublicKey}
		hd, _ := cbor.Marshal(&hdr)
		pb, _ := cbor.Marshal(map[string]string{"msg": "ping"})
		msg := append(append([]byte{1, byte(len(hd))}, hd...), pb...)
		if f, err := mal.Inst.BuilderV.NewFrameV1(idM.IP, idV.IP, frame.RouterPing, nil, msg, nil); err == nil && f.Seal(ab) == nil {
			_ = link.SendPriority(f)
		}
		deadline := time.After(8 * time.Second)
	wait:
		for {
			select {
			case f := <-mal.Upstream:
				if f.MessageType() == frame.RouterPing {
					md := f.MessageData()
					var h router.PingHeader
					if len(md) > 2 && int(md[1])+2 <= len(md) && cbor.Unmarshal(md[2:2+int(md[1])], &h) == nil && h.PingID == id {
						answered = true
					}
				}
				f.ReturnToPool()
				if answered {
					break wait
				}
			case <-deadline:
				break wait
			}
		}
	}
	if answered {
		res.Count("congested_neighbour_sentinels_answered", 1)
	}
	if p := panics(); len(p) > 0 {
		res.Violate("worker-panic:congested-next-hop", fmt.Sprintf("a worker of a real router instance panicked after %d transit frames for a neighbour that had stopped reading: %s", sent, p[0]), map[string]any{"alerts": p, "frames_sent": sent, "case_id": "congested-neighbour"})
		return
	}
	if stuck := stuckWorkers(); len(stuck) > 0 && !answered {
		res.Violate("worker-stalled:congested-next-hop", fmt.Sprintf("after %d transit frames for a neighbour that had stopped reading, a frame-handling worker of the real router stays in the same non-idle stack for 1.5s: %s", sent, stuck[0]), map[string]any{"stuck": stuck, "case_id": "congested-neighbour"})
		return
	}
	res.Count("congested_neighbour_transit_frames", int64(sent))
	res.Count("congested_neighbour_runs", 1)
	res.Case("congested-neighbour", true)
}

// ---------- (c) post-handshake garbage on a wire link (real reader)

func postHandshakeGarbage(res *core.Result, r *rand.Rand, n int) {
	idA, idB := env.NewIdentity(r, nil), env.NewIdentity(r, nil)
	for i := 0; i < n; i++ {
		w := wire.New()
		a, b := wire.NewRouter(idA, config.Router{}), wire.NewRouter(idB, config.Router{})
		ra, rb, ok := wire.Handshake(w, a, b, 10*time.Second)
		if !ok || ra.Err != nil || rb.Err != nil {
			time.Sleep(3 * time.Millisecond)
			continue
		}
		for k := 0; k < 40; k++ {
			var g []byte
			switch r.IntN(4) {
			case 0:
				n := r.IntN(45)
				g = append([]byte{0, byte(n)}, core.RandBytes(r, max(0, n-2))...)
			case 1:
				g = core.RandBytes(r, 1+r.IntN(100))
			case 2:
				n := 28 + r.IntN(2000)
				g = append([]byte{byte(n >> 8), byte(n), 1, 0}, core.RandBytes(r, n-4)...)
			default:
				g = []byte{0xff, 0xff}
			}
			w.Inject(wire.AtoB, g)
		}
		wire.WaitIdle(w, wire.AtoB, 3*time.Second)
		if pa := b.PanicAlerts(); len(pa) > 0 {
			res.Violate("worker-panic:link-reader", fmt.Sprintf("raw bytes on an established link panicked the link reader: %s", pa[0]), map[string]any{"alerts": pa})
			return
		}
		ra.Link.Close(nil)
		rb.Link.Close(nil)
		w.A.Close()
		w.B.Close()
		res.Case(fmt.Sprintf("post-handshake-garbage|%d", i%7), true)
		time.Sleep(3 * time.Millisecond)
	}
	res.Count("post_handshake_garbage_links", int64(n))
}

var workerFuncs = []string{"router.(*Router).frameHandler", "switchr.(*Switch).handler", "peering.(*LinkBase).reader", "peering.(*LinkBase).writer", "router.(*Router).handleTun"}

// stuckWorkers samples all goroutine stacks twice, 1.5s apart, and returns the frame-handling workers of real
// router instances that show the same non-idle stack in both samples.
func stuckWorkers() []string {
	sample := func() map[string]string {
		buf := make([]byte, 16<<20)
		buf = buf[:runtime.Stack(buf, true)]
		out := map[string]string{}
		for _, g := range strings.Split(string(buf), "\n\n") {
			lines := strings.Split(g, "\n")
			if len(lines) < 3 {
				continue
			}
			isWorker := ""
			for _, wf := range workerFuncs {
				if strings.Contains(g, wf) {
					isWorker = wf
				}
			}
			if isWorker == "" || strings.Contains(g, "c13.(*stallConn).Read") {
				// (the frozen reader of the congested-neighbour scenario is the harness's own doing)
				continue
			}
			// idle: the innermost non-runtime function is the worker loop itself, or the reader waits for network input
			inner := ""
			for _, l := range lines[1:] {
				if strings.HasPrefix(l, "\t") || strings.HasPrefix(l, "runtime.") || strings.HasPrefix(l, "internal/") || strings.HasPrefix(l, "sync.") || strings.HasPrefix(l, "time.") {
					continue
				}
				inner = l
				break
			}
			if strings.Contains(inner, isWorker) || strings.Contains(lines[0], "IO wait") {
				continue
			}
			gid := strings.Fields(lines[0])[1]
			var fns []string
			for _, l := range lines[1:] {
				if !strings.HasPrefix(l, "\t") {
					fns = append(fns, strings.SplitN(l, "(", 2)[0])
				}
			}
			out[gid] = strings.Join(fns, " < ")
		}
		return out
	}
	// four samples over 1.5 s: a worker that is merely busy (a reader working off a backlog spends most of its
	// time in a few hot functions) is not in the very same stack every time; a stalled one is
	a := sample()
	for k := 0; k < 3 && len(a) > 0; k++ {
		time.Sleep(500 * time.Millisecond)
		b := sample()
		for gid, st := range a {
			if b[gid] != st {
				delete(a, gid)
			}
		}
	}
	var stuck []string
	for gid, st := range a {
		stuck = append(stuck, "goroutine "+gid+": "+st)
	}
	return stuck
}

// raceSetups (race-detector build): one peer opens two connections at the same time, again and again, against
// one long-lived victim, then sends hostile frames over whatever link came up. The two setups share the peer's
// session at the victim.
func raceSetups(res *core.Result, r *rand.Rand, n int) {
	idV, idM := env.NewIdentity(r, nil), env.NewIdentity(r, nil)
	victim := wire.NewRouter(idV, config.Router{})
	for i := 0; i < n; i++ {
		mal := wire.NewRouter(idM, config.Router{})
		w1, w2 := wire.New(), wire.New()
		var wg sync.WaitGroup
		var links [4]peering.Link
		var errs [4]error
		for k, c := range []struct {
			rt  *wire.Router
			cn  net.Conn
			out bool
		}{{mal, w1.A, true}, {victim, w1.B, false}, {mal, w2.A, true}, {victim, w2.B, false}} {
			wg.Add(1)
			go func() {
				defer wg.Done()
				if c.out {
					links[k], errs[k] = c.rt.Inst.PeeringV.VerifSetupLink(c.cn, wire.URL, true)
				} else {
					links[k], errs[k] = c.rt.Inst.PeeringV.VerifSetupLink(c.cn, wire.URL, false)
				}
			}()
		}
		fin := make(chan struct{})
		go func() { wg.Wait(); close(fin) }()
		select {
		case <-fin:
		case <-time.After(3 * time.Second):
			w1.A.Close()
			w1.B.Close()
			w2.A.Close()
			w2.B.Close()
			<-fin
		}
		for k, e := range errs {
			if e != nil && errors.Is(e, mgr.ErrWorkerPanic) {
				res.Violate("worker-panic:concurrent-setups", fmt.Sprintf("two simultaneous connections of one peer panicked a setup worker (setup %d): %v", k, e), map[string]any{"iteration": i})
				return
			}
		}
		up := 0
		for _, l := range links {
			if l != nil {
				up++
				l.Close(nil)
			}
		}
		w1.A.Close()
		w1.B.Close()
		w2.A.Close()
		w2.B.Close()
		res.Case(fmt.Sprintf("race:concurrent-setups|%d", up), true)
		res.Count("race_concurrent_setup_rounds", 1)
		time.Sleep(4 * time.Millisecond)
	}
}

func parallel(n int, fn func(w int)) { core.Parallel(n, fn) }

func run(c *core.Ctx) {
	res := c.Res
	if c.RaceBuild {
		parallel(4, func(w int) {
			raceSetups(res, core.RNG(fmt.Sprintf("c13/race/%d", w)), c.Q(40, 600))
		})
		res.Require(res.Counter("race_concurrent_setup_rounds") >= 50, "too few concurrent setup rounds under the race detector")
		return
	}
	const W = 12
	parallel(W, func(w int) {
		r := core.RNG(fmt.Sprintf("c13/%d", w))
		if only := os.Getenv("C13_ONLY"); only != "" && only != fmt.Sprint(w) {
			return
		}
		switch {
		case w < 6:
			syncVictim(res, r, c.Q(25000, 800000))
		case w < 8:
			asyncVictim(res, r, c.Q(2500, 100000))
		case w == 8:
			parserFuzz(res, r, c.Q(30000, 1000000))
		case w == 9:
			handshakeFuzz(res, r, c.Q(1500, 40000))
		case w == 10:
			handshakeFuzz(res, r, c.Q(1000, 30000))
			handshakeSteps(res, r, c.Q(520, 10000))
		default:
			postHandshakeGarbage(res, r, c.Q(60, 1500))
			for i := 0; i < c.Q(1, 6); i++ {
				congestedNeighbour(res, r, c.Q(14000, 30000))
			}
		}
	})
	res.Require(res.Counter("congested_neighbour_runs") >= 1 || res.ViolationCount() > 0, "the congested-neighbour scenario did not run")
	res.Sample(map[string]any{"operator": "announce-depth-50+layer-tiny-inner", "desc": "announcement signed by an authenticated peer whose hop-record chain contains a 1..63-byte inner attachment"})
	res.Sample(map[string]any{"operator": "ping-hdr-hash+hdrlen-past-end", "desc": "ping whose header names an unknown hash algorithm and whose header length points past the message"})
	res.Sample(map[string]any{"operator": "raw-switch-zero-free+src-is-victim", "desc": "frame with a full switch block without terminator that claims the victim's own address as source"})
	res.Assume("this property is a search: silence means no panic/stall on the inputs of these shapes that were generated; the evidence lists how many inputs reached a handler")
	res.Assume("the synchronous part calls the same handler functions as the worker loops through the hooks VerifHandleFrame; the asynchronous part drives the real link reader and the real worker pools of a relay-only instance")
	res.Assume("a double release is observed through the repository's own guard (it panics)")
	res.Require(res.Counter("sync_frames") >= 1000, "too few synchronous frames")
	res.Require(res.Counter("answers_to_victim_requests") >= 100, "too few answers to requests of the victim itself")
	res.Require(res.Counter("handshake_hostile_steps") >= 50, "too few hostile handshake responses/acks delivered")
	res.Require(res.Counter("async_sentinel_pongs_answered") >= 10, "too few sentinel pongs answered by the real instance")
}
