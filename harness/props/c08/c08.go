// Package c08: gossip routes name only routers that signed their hop;
// tampering is rejected.
package c08

import (
	"bytes"
	"fmt"
	"math/rand/v2"
	"net/netip"
	"strings"
	"sync"
	"sync/atomic"
	"time"

	"github.com/fxamacker/cbor/v2"

	"github.com/mycoria/mycoria/frame"
	"github.com/mycoria/mycoria/m"
	"github.com/mycoria/mycoria/router"

	"verifharness/core"
	"verifharness/env"
	"verifharness/vmesh"
	"verifharness/wire"
)

func init() {
	core.Register(&core.Prop{
		ID:    "C08",
		Level: "exploration",
		Rule: "authentic announcements with 0..12 signed hop records are produced by the real forwarding code in lines and small graphs (several origins, two announcement times, 1-/2-byte labels, router infos up to 1.5 KB) and captured on every link; " +
			"variants (bit flips in header/body/origin signature/every appendix position, splices of appendices across origins and times, stripped/re-attributed/re-ordered/re-signed layers incl. layers re-signed by a router that really holds a key, wrong delivering link, rewritten source) are delivered to a fresh victim; " +
			"non-trivial = variant built from >= 2 authentic announcements or mutating inside a nested layer; distinct by (operator, layer depth, field class)",
		Run:              run,
		CrashIsViolation: true,
		HasRacePart:      true,
		// the announcement handler is one object shared by all frame-handling workers of a router
		// (only the verification code itself: what Handle stores about the origin afterwards - state.AddPublicRouterInfo
		// on the shared storage record - is not state of this property and shows up under unrelated_races)
		RaceAnchors: []string{`router\.\(\*AnnouncePingHandler\)\.(signingContext|parseAnnouncePing|sessionFromAnnouncePingAttachment)`, `m\.\(\*PublicAddress\)\.VerifySigWithContext`},
	})
}

type capture struct {
	data   []byte
	from   int // sender node index in its mesh
	origin netip.Addr
	sender *m.Address
	layers []router.AnnouncePingAttachment // outermost first
	apx    []byte
	meshID int
	ids    []*m.Address
}

func apxIndex(d []byte) int {
	sw := int(d[48])
	mi := 49 + sw
	ml := int(d[mi])<<8 | int(d[mi+1])
	return mi + 2 + ml + 64
}

func decodeLayers(apx []byte) []router.AnnouncePingAttachment {
	var out []router.AnnouncePingAttachment
	for len(apx) > 64 {
		var att router.AnnouncePingAttachment
		if err := cbor.Unmarshal(apx[:len(apx)-64], &att); err != nil {
			break
		}
		out = append(out, att)
		apx = att.NextAttachment
	}
	return out
}

func isAnnouncement(d []byte) bool {
	if len(d) < 120 || (d[4] != byte(frame.RouterHopPing) && d[4] != byte(frame.RouterHopPingDeprecated)) {
		return false
	}
	mi := 49 + int(d[48])
	return bytes.Contains(d[mi:min(len(d), mi+120)], []byte("announce"))
}

func signingContext(d []byte) []byte {
	ai := apxIndex(d)
	ctx := make([]byte, 16+8+64)
	copy(ctx[:16], d[16:32])
	copy(ctx[16:24], d[8:16])
	copy(ctx[24:], d[ai-64:ai])
	return ctx
}

// harvest runs a mesh and captures every announcement on every link.
func harvest(r *rand.Rand, t *vmesh.Topology, ids []*m.Address, labels vmesh.LabelMode, info int, meshID int) ([]*capture, error) {
	ms, err := vmesh.Build(r, t, ids, vmesh.BuildOpts{Labels: labels, InfoBytes: info})
	if err != nil {
		return nil, err
	}
	var caps []*capture
	ms.OnSend = func(p *vmesh.Packet) {
		if !isAnnouncement(p.Data) {
			return
		}
		c := &capture{data: append([]byte(nil), p.Data...), from: p.From, meshID: meshID, ids: ids}
		c.origin = netip.AddrFrom16([16]byte(p.Data[16:32]))
		c.sender = ids[p.From]
		c.apx = c.data[apxIndex(c.data):]
		c.layers = decodeLayers(c.apx)
		caps = append(caps, c)
	}
	for round := 0; round < 2; round++ {
		if err := ms.Converge(r, round == 1); err != nil {
			return nil, err
		}
		time.Sleep(3 * time.Millisecond) // a later announcement time
	}
	return caps, nil
}

type victim struct {
	ms   *vmesh.Mesh
	v    *vmesh.Node
	sent []*vmesh.Packet
}

// newVictim builds a fresh router with one-way links to stubs for the given peers.
func newVictim(idV *m.Address, peers []*m.Address, known []*m.Address) (*victim, error) {
	ms := vmesh.New()
	v, err := ms.AddNode(idV, vmesh.NodeOpts{})
	if err != nil {
		return nil, err
	}
	// routers the victim has met before (stored record, so a session is built from storage)
	for _, k := range known {
		pk := k.PublicAddress
		if err := v.Inst.StateV.AddRouter(&pk); err != nil {
			return nil, err
		}
	}
	vc := &victim{ms: ms, v: v}
	for i, p := range peers {
		st := ms.AddStub(p)
		if err := ms.ConnectOneWay(0, st.Idx, m.SwitchLabel(40+i)); err != nil {
			return nil, err
		}
	}
	ms.OnSend = func(p *vmesh.Packet) { vc.sent = append(vc.sent, p) }
	return vc, nil
}

func (vc *victim) tableKey() string {
	var b strings.Builder
	for _, e := range vc.v.Inst.RouterV.Table().VerifEntries() {
		fmt.Fprintf(&b, "%s|%s|%d|%v|", e.DstIP, e.NextHop, e.Source, e.Stub)
		for _, h := range e.Path.Hops {
			fmt.Fprintf(&b, "%s/%d/%d/%d,", h.Router, h.Delay, h.ForwardLabel, h.ReturnLabel)
		}
		b.WriteByte('\n')
	}
	return b.String()
}

type variant struct {
	op        string
	data      []byte
	viaPeer   *m.Address // delivering link's peer
	authentic bool
	base      *capture // for authentic variants: expected hop list source
	depth     int
	field     string
	multi     bool // built from >= 2 announcements
	// poison: before the variant is delivered, the victim receives (and must refuse) a peering request that names
	// address poisonIP but carries and is signed with the key of poisonKey
	poisonIP  netip.Addr
	poisonKey *m.Address
	// poisonByPing: the poisoning message is a first-contact ping (key in the ping header) instead of a peering request
	poisonByPing bool
}

func withApx(c *capture, apx []byte) []byte {
	ai := apxIndex(c.data)
	return append(append([]byte(nil), c.data[:ai]...), apx...)
}

func encodeLayer(att router.AnnouncePingAttachment, sig []byte) []byte {
	b, err := cbor.Marshal(att)
	if err != nil {
		panic(err)
	}
	return append(b, sig...)
}

func genVariants(r *rand.Rand, c *capture, all []*capture, idsByIP map[netip.Addr]*m.Address, flipsPerClass int) []variant {
	var vs []variant
	ai := apxIndex(c.data)
	mi := 49 + int(c.data[48])
	depthN := len(c.layers)
	flip := func(pos int, field string, depth int) {
		d := append([]byte(nil), c.data...)
		d[pos] ^= 1 << uint(r.IntN(8))
		vs = append(vs, variant{op: "bitflip", data: d, viaPeer: c.sender, field: field, depth: depth})
	}
	// authentic as is (positive control), also with TTL/flow changed
	vs = append(vs, variant{op: "authentic", data: c.data, viaPeer: c.sender, authentic: true, base: c, depth: depthN})
	{
		d := append([]byte(nil), c.data...)
		d[1] = byte(1 + r.IntN(255))
		d[2] = byte(r.IntN(8))
		vs = append(vs, variant{op: "authentic-ttl-flow-changed", data: d, viaPeer: c.sender, authentic: true, base: c, depth: depthN})
	}
	for k := 0; k < flipsPerClass; k++ {
		hp := 3 + r.IntN(45)
		if hp == 4 {
			hp = 5 // the type byte is handled separately: another type is no longer an announcement
		}
		flip(hp, "header", 0)
		flip(mi+2+r.IntN(ai-64-mi-2), "body", 0)
		flip(ai-64+r.IntN(64), "origin-signature", 0)
	}
	if len(c.apx) > 0 {
		n := flipsPerClass * (1 + depthN)
		for k := 0; k < n; k++ {
			pos := r.IntN(len(c.apx))
			field, depth := "appendix-nested", 1+pos*depthN/len(c.apx)
			if pos >= len(c.apx)-64 {
				field, depth = "appendix-outer-signature", 0
			} else if pos < 12 {
				field, depth = "appendix-outer-record", 0
			}
			flip(ai+pos, field, depth)
		}
	}
	// switched between the two hop-ping message types (still an announcement, but the type is signed)
	{
		d := append([]byte(nil), c.data...)
		d[4] ^= 3 // 0 <-> 3
		vs = append(vs, variant{op: "hop-ping-type-switched", data: d, viaPeer: c.sender, field: "type", depth: 0})
	}
	// delivered on a link whose peer is not the outermost signer
	for _, other := range c.ids {
		if other.IP != c.sender.IP && other.IP != c.origin {
			vs = append(vs, variant{op: "wrong-delivering-link", data: c.data, viaPeer: other, field: "link", depth: depthN})
			break
		}
	}
	// an announcement that already carries hop records, delivered on the link of its origin (the outermost signer
	// is not the delivering peer)
	if depthN >= 1 && c.sender.IP != c.origin {
		for _, other := range c.ids {
			if other.IP == c.origin {
				vs = append(vs, variant{op: "delivered-by-origin-with-hop-records", data: c.data, viaPeer: other, field: "link", depth: depthN})
				break
			}
		}
	}
	// source rewritten to another known router
	for _, other := range c.ids {
		if other.IP != c.origin {
			d := append([]byte(nil), c.data...)
			a := other.IP.As16()
			copy(d[16:32], a[:])
			via := c.sender
			if depthN == 0 {
				via = other
			}
			vs = append(vs, variant{op: "source-rewritten", data: d, viaPeer: via, field: "src", depth: 0})
			break
		}
	}
	// splices: this announcement's frame with the appendix of another announcement
	for k := 0; k < 3; k++ {
		q := all[r.IntN(len(all))]
		if len(q.apx) == 0 || bytes.Equal(signingContext(q.data), signingContext(c.data)) {
			continue
		}
		kind := "splice-other-origin"
		if q.origin == c.origin {
			kind = "splice-other-time-or-variant"
		}
		vs = append(vs, variant{op: kind, data: withApx(c, q.apx), viaPeer: q.sender, field: "appendix", depth: len(q.layers), multi: true})
	}
	if depthN >= 1 {
		outer := c.layers[0]
		outerSig := c.apx[len(c.apx)-64:]
		inner := outer.NextAttachment
		// strip the outermost layer but deliver on the same link (peer = stripped signer)
		vs = append(vs, variant{op: "outer-layer-stripped-same-link", data: withApx(c, inner), viaPeer: c.sender, field: "layers", depth: depthN})
		// re-attribute the outermost record to another router, keep the signature
		for _, other := range c.ids {
			if other.IP != outer.Router.IP && other.IP != c.origin {
				att := outer
				att.Router = other.PublicAddress
				vs = append(vs, variant{op: "outer-record-reattributed", data: withApx(c, encodeLayer(att, outerSig)), viaPeer: other, field: "layers", depth: 0})
				break
			}
		}
		// change the signed labels / delay of the outermost record
		{
			att := outer
			att.Delay += 100
			vs = append(vs, variant{op: "outer-delay-changed", data: withApx(c, encodeLayer(att, outerSig)), viaPeer: c.sender, field: "layers", depth: 0})
			att = outer
			att.ForwardLabel ^= 0x15
			vs = append(vs, variant{op: "outer-label-changed", data: withApx(c, encodeLayer(att, outerSig)), viaPeer: c.sender, field: "layers", depth: 0})
		}
		// duplicate the outer layer (wrap the whole appendix in a copy of the outer record)
		{
			att := outer
			att.NextAttachment = c.apx
			vs = append(vs, variant{op: "outer-layer-duplicated", data: withApx(c, encodeLayer(att, outerSig)), viaPeer: c.sender, field: "layers", depth: 0})
		}
		// a router that really holds a key (the sender) re-signs its own layer over foreign inner material
		signer := idsByIP[outer.Router.IP]
		if signer != nil {
			resign := func(op string, innerApx []byte, multi bool) {
				att := outer
				att.NextAttachment = innerApx
				body, _ := cbor.Marshal(att)
				sig, err := signer.SignWithContext(body, signingContext(c.data))
				if err != nil {
					return
				}
				vs = append(vs, variant{op: op, data: withApx(c, append(body, sig...)), viaPeer: c.sender, field: "layers-resigned", depth: 1, multi: multi})
			}
			resignAuthentic := func(op string, innerApx []byte) {
				att := outer
				att.NextAttachment = innerApx
				body, _ := cbor.Marshal(att)
				sig, err := signer.SignWithContext(body, signingContext(c.data))
				if err != nil {
					return
				}
				vs = append(vs, variant{op: op, data: withApx(c, append(body, sig...)), viaPeer: c.sender, authentic: true, base: c, field: "layers-resigned", depth: depthN - 1})
			}
			// inner chain from a different announcement
			for k := 0; k < 2; k++ {
				q := all[r.IntN(len(all))]
				if len(q.apx) == 0 || bytes.Equal(signingContext(q.data), signingContext(c.data)) {
					continue
				}
				resign("resigned-outer-over-foreign-inner-chain", q.apx, true)
			}
			if depthN >= 2 {
				// skip the second layer: every remaining record is genuinely signed for this very
				// announcement (the outer one by its owner), so this is authentic by the statement's definition
				resignAuthentic("resigned-outer-skipping-a-hop", c.layers[1].NextAttachment)
				// modify the inner record's labels (inner signature must fail)
				in := c.layers[1]
				in.ReturnLabel ^= 0x2a
				innerSig := inner[len(inner)-64:]
				resign("resigned-outer-over-modified-inner-record", encodeLayer(in, innerSig), false)
			}
		}
		if depthN >= 2 {
			// swap the two outermost layers (re-encode)
			l0, l1 := c.layers[0], c.layers[1]
			sig0 := outerSig
			sig1 := inner[len(inner)-64:]
			rest := l1.NextAttachment
			a := l0
			a.NextAttachment = rest
			innerNew := encodeLayer(a, sig0)
			b := l1
			b.NextAttachment = innerNew
			if id1 := idsByIP[l1.Router.IP]; id1 != nil {
				vs = append(vs, variant{op: "layers-reordered", data: withApx(c, encodeLayer(b, sig1)), viaPeer: id1, field: "layers", depth: 1})
			}
		}
	}
	// a hop record that names a (possibly already known) router's address but carries and is signed with a foreign key
	if depthN >= 1 {
		outer := c.layers[0]
		var foreign *m.Address
		for _, other := range c.ids {
			if other.IP != outer.Router.IP && other.IP != c.origin {
				foreign = other
				break
			}
		}
		if foreign != nil {
			att := outer
			att.Router = m.PublicAddress{IP: outer.Router.IP, Hash: foreign.Hash, Type: foreign.Type, PublicKey: foreign.PublicKey}
			body, _ := cbor.Marshal(att)
			if sig, err := foreign.SignWithContext(body, signingContext(c.data)); err == nil {
				vs = append(vs, variant{op: "hop-record-with-foreign-key", data: withApx(c, append(body, sig...)), viaPeer: c.sender, field: "layers-resigned", depth: 0})
			}
		}
	}
	// an inner hop record that names router X under a foreign key (signed with that key), below a genuine outer
	// record re-signed by its real owner - delivered to a victim that does not know X, and to one that just
	// refused a peering request claiming X's address with that foreign key
	if depthN >= 2 {
		outer, inner1 := c.layers[0], c.layers[1]
		signer := idsByIP[outer.Router.IP]
		var foreign *m.Address
		for _, other := range c.ids {
			if other.IP != outer.Router.IP && other.IP != c.origin && other.IP != inner1.Router.IP {
				foreign = other
				break
			}
		}
		if signer != nil && foreign != nil {
			in := inner1
			in.Router = m.PublicAddress{IP: inner1.Router.IP, Hash: foreign.Hash, Type: foreign.Type, PublicKey: foreign.PublicKey}
			inBody, _ := cbor.Marshal(in)
			if inSig, err := foreign.SignWithContext(inBody, signingContext(c.data)); err == nil {
				att := outer
				att.NextAttachment = append(inBody, inSig...)
				body, _ := cbor.Marshal(att)
				if sig, err := signer.SignWithContext(body, signingContext(c.data)); err == nil {
					d := withApx(c, append(body, sig...))
					vs = append(vs, variant{op: "inner-record-under-foreign-key", data: d, viaPeer: c.sender, field: "layers-resigned", depth: 1})
					vs = append(vs, variant{op: "inner-record-under-foreign-key-after-refused-peering", data: d, viaPeer: c.sender, field: "layers-resigned", depth: 1, poisonIP: inner1.Router.IP, poisonKey: foreign})
					vs = append(vs, variant{op: "inner-record-under-foreign-key-after-refused-first-contact-ping", data: d, viaPeer: c.sender, field: "layers-resigned", depth: 1, poisonIP: inner1.Router.IP, poisonKey: foreign, poisonByPing: true})
				}
			}
		}
	}
	// garbage appendices
	vs = append(vs, variant{op: "appendix-garbage", data: withApx(c, core.RandBytes(r, 65+r.IntN(200))), viaPeer: c.sender, field: "appendix", depth: 0})
	if depthN == 0 {
		// a hop record invented for an announcement that has none
		vs = append(vs, variant{op: "appendix-truncated-signature-only", data: withApx(c, core.RandBytes(r, 64)), viaPeer: c.sender, field: "appendix", depth: 0})
	}
	return vs
}

// refusedPing lets the victim receive first-contact pings (hello and pong requests) whose header carries the key
// of `key` while the frame claims source address ip (correctly signed with that key). The address does not derive
// from that key: the victim must refuse them; what they leave behind must not help the forgery that follows.
func refusedPing(res *core.Result, vc *victim, idV *m.Address, ip netip.Addr, key *m.Address, r *rand.Rand) bool {
	for _, pingType := range []string{"hello", "pong"} {
		hdr := router.PingHeader{PingID: r.Uint64() | 1, PingType: pingType, AddrHash: key.Hash, KeyType: key.Type, PublicKey: key.PublicKey}
		hd, err := cbor.Marshal(&hdr)
		if err != nil {
			return true
		}
		body, _ := cbor.Marshal(map[string]any{"msg": "ping"})
		data := append(append([]byte{1, byte(len(hd))}, hd...), body...)
		f, err := vc.v.Inst.BuilderV.NewFrameV1(ip, idV.IP, frame.RouterPing, nil, data, nil)
		if err != nil {
			return true
		}
		f.SetTTL(0)
		f.SetSequenceTime(time.Now().Round(time.Millisecond).Add(-time.Millisecond))
		_ = f.SignRaw(key.PrivateKey)
		f.SetTTL(32)
		fd, _ := f.FrameDataWithMargins(0, 0)
		cp := append([]byte(nil), fd...)
		f.ReturnToPool()
		before := vc.tableKey()
		vc.ms.DeliverOn(&vmesh.Packet{From: 1, To: 0, Data: cp}, 0, 1)
		if len(vc.ms.Panics) > 0 {
			res.Violate("handler-panic:first-contact-ping-under-foreign-key", fmt.Sprint(vc.ms.Panics[0]), nil)
			return false
		}
		if vc.tableKey() != before {
			res.Violate("forged-ping-changed-table", fmt.Sprintf("a first-contact %s ping naming %s under a foreign key changed the routing table", pingType, ip), nil)
			return false
		}
		time.Sleep(1100 * time.Microsecond)
	}
	res.Count("refused_first_contact_pings_before_forgery", 1)
	return true
}

// refusedPeering lets the victim receive a peering request that claims address ip with the key pair of key
// (correctly signed with it). The address does not derive from that key: the victim must refuse and register no link.
func refusedPeering(res *core.Result, vc *victim, ip netip.Addr, key *m.Address, r *rand.Rand) bool {
	req := map[string]any{"v": "v0.0.0", "a": m.PublicAddress{IP: ip, Hash: key.Hash, Type: key.Type, PublicKey: key.PublicKey}, "c": core.RandBytes(r, 32), "lv": 1, "tmtu": 9000}
	body, err := cbor.Marshal(req)
	if err != nil {
		return true
	}
	f, err := vc.v.Inst.BuilderV.NewFrameV1(ip, m.RouterAddress, frame.RouterPing, nil, body, nil)
	if err != nil {
		return true
	}
	f.SetTTL(0)
	f.SetSequenceTime(time.Now().Round(time.Millisecond).Add(-time.Millisecond))
	_ = f.SignRaw(key.PrivateKey)
	f.SetTTL(1)
	fd, _ := f.FrameDataWithMargins(0, 0)
	msg := make([]byte, 2+len(fd))
	msg[0], msg[1] = byte(len(msg)>>8), byte(len(msg))
	copy(msg[2:], fd)
	f.ReturnToPool()
	w := wire.New()
	done := make(chan struct{})
	go func() {
		vc.v.Inst.PeeringV.VerifSetupLinkAsListener(w.B, wire.URL)
		close(done)
	}()
	w.Inject(wire.AtoB, msg)
	deadline := time.Now().Add(5 * time.Second)
	for w.SentCount(wire.BtoA) < 2 && time.Now().Before(deadline) {
		select {
		case <-done:
			deadline = time.Now()
		default:
			time.Sleep(200 * time.Microsecond)
		}
	}
	w.A.Close()
	w.B.Close()
	select {
	case <-done:
	case <-time.After(10 * time.Second):
		res.Inconcl("refused peering: setup did not return")
		return false
	}
	if vc.v.Inst.PeeringV.GetLink(ip) != nil {
		res.Violate("link-registered-for-foreign-key", fmt.Sprintf("a peering request naming %s under a foreign key was not refused", ip), nil)
		return false
	}
	res.Count("refused_peering_requests_before_forgery", 1)
	return true
}

func runVariants(res *core.Result, r *rand.Rand, caps []*capture, idV *m.Address, spare *m.Address, flips int, perCapture func(*capture) bool) {
	idsByIP := map[netip.Addr]*m.Address{}
	for _, c := range caps {
		for _, id := range c.ids {
			idsByIP[id.IP] = id
		}
	}
	for _, c := range caps {
		if !perCapture(c) {
			continue
		}
		for vi, v := range genVariants(r, c, caps, idsByIP, flips) {
			// alternately a fresh victim and one that has met every router of the mesh before
			var known []*m.Address
			knows := "fresh-victim"
			if vi%2 == 1 || v.op == "hop-record-with-foreign-key" {
				known = c.ids
				knows = "victim-knows-routers"
			}
			v.op = v.op + "/" + knows
			vc, err := newVictim(idV, []*m.Address{v.viaPeer, spare}, known)
			if err != nil {
				res.Inconcl("victim: %v", err)
				return
			}
			if v.poisonKey != nil {
				known, knows = nil, "fresh-victim"
				vc, err = newVictim(idV, []*m.Address{v.viaPeer, spare}, nil)
				if err != nil {
					res.Inconcl("victim: %v", err)
					return
				}
				if v.poisonByPing {
					if !refusedPing(res, vc, idV, v.poisonIP, v.poisonKey, r) {
						return
					}
				} else if !refusedPeering(res, vc, v.poisonIP, v.poisonKey, r) {
					return
				}
			}
			before := vc.tableKey()
			p := &vmesh.Packet{From: 1, To: 0, Data: v.data}
			vc.ms.DeliverOn(p, 0, 1)
			wit := map[string]any{"operator": v.op, "origin": c.origin.String(), "layers": len(c.layers), "field": v.field, "frame": fmt.Sprintf("%x", v.data[:min(len(v.data), 400)]), "case_id": v.op}
			if len(vc.ms.Panics) > 0 {
				res.Violate("handler-panic:"+v.op, fmt.Sprintf("announcement variant %s: %v", v.op, vc.ms.Panics[0]), wit)
				return
			}
			after := vc.tableKey()
			changed := before != after
			key := fmt.Sprintf("%s/depth%d/%s", v.op, min(v.depth, 12), v.field)
			if !v.authentic {
				if changed {
					res.Violate("forged-announcement-accepted:"+v.op, fmt.Sprintf("variant %s (origin %s, %d authentic layers) changed the routing table:\n%s", v.op, c.origin, len(c.layers), after), wit)
					return
				}
				nAnn := 0
				for _, sp := range vc.sent {
					if isAnnouncement(sp.Data) {
						nAnn++
					}
				}
				if nAnn > 0 {
					res.Violate("forged-announcement-forwarded:"+v.op, fmt.Sprintf("variant %s (origin %s) made the victim forward %d announcement frame(s)", v.op, c.origin, nAnn), wit)
					return
				}
				// a second delivery of the same forgery to the same router (whatever the first one left behind must not help)
				vc.ms.DeliverOn(&vmesh.Packet{From: 1, To: 0, Data: v.data}, 0, 1)
				if len(vc.ms.Panics) > 0 {
					res.Violate("handler-panic:"+v.op, fmt.Sprintf("announcement variant %s (second delivery): %v", v.op, vc.ms.Panics[0]), wit)
					return
				}
				if vc.tableKey() != before {
					res.Violate("forged-announcement-accepted-on-second-delivery:"+strings.SplitN(v.op, "/", 2)[0], fmt.Sprintf("variant %s (origin %s) was rejected once, but the same frame delivered again changed the routing table:\n%s", v.op, c.origin, vc.tableKey()), wit)
					return
				}
				res.Count("rejected:"+strings.SplitN(v.op, "/", 2)[0], 1)
				res.Case(key, v.multi || v.depth >= 1)
				continue
			}
			// authentic: if accepted, the route must list exactly the signers, in order, with their signed values
			if !changed {
				res.Violate("authentic-announcement-not-accepted", fmt.Sprintf("authentic announcement (origin %s, %d layers, op %s) delivered by its outermost signer to a fresh router added no route", c.origin, len(c.layers), v.op), wit)
				return
			}
			var got *m.RoutingTableEntry
			es := vc.v.Inst.RouterV.Table().VerifEntries()
			for i := range es {
				if es[i].DstIP == c.origin && len(es[i].Path.Hops) > 0 {
					got = &es[i]
				}
			}
			if got == nil {
				res.Violate("authentic-announcement-wrong-route", fmt.Sprintf("authentic announcement of %s produced no route to it", c.origin), wit)
				return
			}
			link := vc.v.Links[1]
			vlayers := decodeLayers(v.data[apxIndex(v.data):])
			ok := got.NextHop == v.viaPeer.IP && len(got.Path.Hops) == len(vlayers)+2 &&
				got.Path.Hops[0].Router == idV.IP && got.Path.Hops[0].ForwardLabel == link.SwitchLabel() && got.Path.Hops[0].ReturnLabel == 0 &&
				got.Path.Hops[len(got.Path.Hops)-1].Router == c.origin
			if ok {
				for i, l := range vlayers {
					h := got.Path.Hops[1+i]
					if h.Router != l.Router.IP || h.Delay != l.Delay || h.ForwardLabel != l.ForwardLabel || h.ReturnLabel != l.ReturnLabel {
						ok = false
					}
				}
			}
			if !ok {
				res.Violate("authentic-announcement-wrong-route", fmt.Sprintf("route learned from an authentic announcement of %s does not list exactly the signed hop records: %+v", c.origin, got.Path.Hops), wit)
				return
			}
			// tampered redelivery: the same frame (same timestamp) with a modified body or origin signature must not change the route
			accepted := vc.tableKey()
			mi := 49 + int(v.data[48])
			ml := int(v.data[mi])<<8 | int(v.data[mi+1])
			for k := 0; k < 6; k++ {
				d := append([]byte(nil), v.data...)
				pos := mi + 2 + ml - 1 - r.IntN(min(ml, 24)) // tail of the body: return label, stub flag, expiry
				if k%3 == 2 {
					pos = mi + 2 + ml + r.IntN(64) // origin signature
				}
				d[pos] ^= 1 << uint(r.IntN(8))
				vc.ms.DeliverOn(&vmesh.Packet{From: 1, To: 0, Data: d}, 0, 1)
				if len(vc.ms.Panics) > 0 {
					res.Violate("handler-panic:tampered-redelivery", fmt.Sprintf("tampered redelivery: %v", vc.ms.Panics[0]), wit)
					return
				}
				if vc.tableKey() != accepted {
					res.Violate("tampered-redelivery-accepted", fmt.Sprintf("after the authentic announcement of %s was accepted, the same frame with byte %d modified changed the route:\n%s", c.origin, pos, vc.tableKey()), wit)
					return
				}
			}
			res.Count("tampered_redeliveries_rejected", 6)
			// a second authentic announcement (another origin, same delivering peer) on the same router: what the
			// first one left behind (records of relays it met for the first time) must not make it fail
			if v.op == "authentic/"+knows && len(c.layers) >= 2 {
				for _, c2 := range caps {
					if c2.sender.IP != c.sender.IP || c2.origin == c.origin || len(c2.layers) < 1 || c2.meshID != c.meshID {
						continue
					}
					shares := false
					for _, l2 := range c2.layers {
						for _, l1 := range c.layers[:len(c.layers)-1] {
							if l2.Router.IP == l1.Router.IP {
								shares = true
							}
						}
					}
					if !shares {
						continue
					}
					b2 := vc.tableKey()
					vc.ms.DeliverOn(&vmesh.Packet{From: 1, To: 0, Data: c2.data}, 0, 1)
					if len(vc.ms.Panics) > 0 {
						res.Violate("handler-panic:second-authentic", fmt.Sprintf("second authentic announcement: %v", vc.ms.Panics[0]), wit)
						return
					}
					has := false
					for _, e := range vc.v.Inst.RouterV.Table().VerifEntries() {
						if e.DstIP == c2.origin {
							has = true
						}
					}
					if vc.tableKey() == b2 || !has {
						res.Violate("authentic-announcement-not-accepted:after-an-earlier-one", fmt.Sprintf("after an authentic announcement of %s (%d hop records) was accepted, a second authentic announcement of %s (%d hop records, sharing relays with the first) delivered by the same peer added no route", c.origin, len(c.layers), c2.origin, len(c2.layers)),
							map[string]any{"operator": "second-authentic", "first_origin": c.origin.String(), "second_origin": c2.origin.String(), "case_id": "second-authentic"})
						return
					}
					res.Count("second_authentic_accepted", 1)
					break
				}
			}
			res.Count("accepted_authentic", 1)
			if len(c.layers) > int(res.Counter("max_authentic_depth")) {
				res.Count("max_authentic_depth", int64(len(c.layers))-res.Counter("max_authentic_depth"))
			}
			res.Case(key, len(c.layers) >= 1)
		}
	}
}

// reannounced: a route is learned from an announcement, then the same origin announces again over the same relays
// with other signed values (the relays' measured latencies have changed - here two of them swap, so that even the
// total stays the same). If the router accepts the second announcement (it is seen forwarding it with its own hop
// record), the route it holds for that origin over those relays must list what the relays signed in THAT
// announcement, not what they signed last time.
func reannounced(res *core.Result, r *rand.Rand, relays int) {
	n := relays + 3 // origin, relays, victim, a further peer of the victim
	t := vmesh.Line(n)
	ids := make([]*m.Address, n)
	for i := range ids {
		ids[i] = env.NewIdentity(r, nil)
	}
	ms, err := vmesh.Build(r, t, ids, vmesh.BuildOpts{Labels: vmesh.LabelMode(r.IntN(3))})
	if err != nil {
		res.Inconcl("reannounced: %v", err)
		return
	}
	V := n - 2
	origin := ids[0].IP
	lats := make([]uint16, n)
	for i := 1; i < n; i++ {
		lats[i] = uint16(5 + 7*i + r.IntN(5))
		ms.SetLatency(i-1, i, lats[i], lats[i]) // node i's link towards the origin
	}
	var lastIn []byte // the newest announcement of the origin that reached the victim
	forwarded := 0
	ms.OnSend = func(p *vmesh.Packet) {
		if !isAnnouncement(p.Data) || netip.AddrFrom16([16]byte(p.Data[16:32])) != origin {
			return
		}
		if p.To == V && p.From == V-1 {
			lastIn = append([]byte(nil), p.Data...)
		}
		if p.From == V && p.To == V+1 {
			forwarded++
		}
	}
	check := func(round int, what string) bool {
		if lastIn == nil {
			res.Count("reannounced_rounds_without_delivery", 1)
			return true
		}
		if forwarded == 0 {
			// not accepted (or not worth forwarding): the statement demands nothing of the table then
			res.Count("reannounced_rounds_not_forwarded", 1)
			return true
		}
		layers := decodeLayers(lastIn[apxIndex(lastIn):])
		var got *m.RoutingTableEntry
		es := ms.Nodes[V].Inst.RouterV.Table().VerifEntries()
		for i := range es {
			if es[i].DstIP == origin && len(es[i].Path.Hops) == len(layers)+2 {
				got = &es[i]
			}
		}
		wit := map[string]any{"operator": "reannounced", "round": round, "case_id": "reannounced"}
		if got == nil {
			res.Violate("authentic-announcement-wrong-route:reannounced", fmt.Sprintf("round %d (%s): the router forwarded the origin's announcement but holds no route to it over those %d relays", round, what, len(layers)), wit)
			return false
		}
		for i, l := range layers {
			h := got.Path.Hops[1+i]
			if h.Router != l.Router.IP || h.Delay != l.Delay || h.ForwardLabel != l.ForwardLabel || h.ReturnLabel != l.ReturnLabel {
				res.Violate("authentic-announcement-wrong-route:reannounced", fmt.Sprintf("round %d (%s): the router accepted and forwarded the origin's new announcement, but its route still lists other values than the relays signed in it: hop %d is %s delay %d labels %d/%d, signed now: delay %d labels %d/%d", round, what, 1+i, h.Router, h.Delay, h.ForwardLabel, h.ReturnLabel, l.Delay, l.ForwardLabel, l.ReturnLabel), wit)
				return false
			}
		}
		res.Count("reannounced_routes_match_newest_announcement", 1)
		return true
	}
	for round := 1; round <= 3; round++ {
		what := "first announcement"
		if round > 1 {
			// two relays swap their latencies (the total stays), or all change
			i, j := 1+r.IntN(n-2), 1+r.IntN(n-2)
			if round == 2 && i != j {
				lats[i], lats[j] = lats[j], lats[i]
				what = fmt.Sprintf("latencies of the links at nodes %d and %d swapped", i, j)
			} else {
				for k := 1; k < n-1; k++ {
					lats[k] = uint16(3 + r.IntN(90))
				}
				what = "all latencies changed"
			}
			for k := 1; k < n; k++ {
				ms.SetLatency(k-1, k, lats[k], lats[k])
			}
			time.Sleep(2 * time.Millisecond)
		}
		lastIn, forwarded = nil, 0
		if err := ms.Converge(r, false); err != nil {
			res.Inconcl("reannounced: %v", err)
			return
		}
		if len(ms.Panics) > 0 {
			res.Violate("handler-panic:reannounced", fmt.Sprint(ms.Panics[0]), nil)
			return
		}
		if !check(round, what) {
			return
		}
	}
	res.Case(fmt.Sprintf("reannounced/relays%d", relays), true)
}

// afterRejected: one long-lived victim (its frame structs and buffers are recycled from delivery to delivery, as
// in a running router) first refuses an announcement, then gets (a) an authentic announcement of another origin,
// which must be accepted with exactly its signed hop records, or (b) a frame of that other origin carrying the
// hop records signed for the refused one, which must be refused as when it comes alone.
func afterRejected(res *core.Result, r *rand.Rand, caps []*capture, idV, spare *m.Address, rounds int) {
	done := 0
	for try := 0; try < rounds*30 && done < rounds; try++ {
		a := caps[r.IntN(len(caps))]
		b := caps[r.IntN(len(caps))]
		if len(a.layers) == 0 || len(b.layers) == 0 || a.origin == b.origin || a.sender.IP != b.sender.IP || a.meshID != b.meshID {
			continue
		}
		done++
		vc, err := newVictim(idV, []*m.Address{a.sender, spare}, a.ids)
		if err != nil {
			res.Inconcl("victim: %v", err)
			return
		}
		// 1. an announcement of origin A that must be refused: its outermost hop signature is damaged
		bad := append([]byte(nil), a.data...)
		bad[len(bad)-1-r.IntN(32)] ^= 0x10
		before := vc.tableKey()
		vc.ms.DeliverOn(&vmesh.Packet{From: 1, To: 0, Data: bad}, 0, 1)
		if vc.tableKey() != before {
			continue // judged by the bit-flip variants above
		}
		wit := map[string]any{"operator": "after-rejected", "first_origin": a.origin.String(), "second_origin": b.origin.String(), "case_id": "after-rejected"}
		if done%2 == 0 {
			// (b) B's frame with the hop records signed for A
			splice := withApx(b, a.apx)
			vc.ms.DeliverOn(&vmesh.Packet{From: 1, To: 0, Data: splice}, 0, 1)
			if len(vc.ms.Panics) > 0 {
				res.Violate("handler-panic:after-rejected", fmt.Sprint(vc.ms.Panics[0]), wit)
				return
			}
			if vc.tableKey() != before {
				res.Violate("forged-announcement-accepted:splice-other-origin/after-a-rejected-announcement", fmt.Sprintf("right after the router refused a damaged announcement of %s, the frame of origin %s carrying the hop records signed for that announcement changed the routing table:\n%s", a.origin, b.origin, vc.tableKey()), wit)
				return
			}
			res.Count("splices_after_rejected_refused", 1)
			continue
		}
		// (a) the authentic announcement of origin B
		vc.ms.DeliverOn(&vmesh.Packet{From: 1, To: 0, Data: b.data}, 0, 1)
		if len(vc.ms.Panics) > 0 {
			res.Violate("handler-panic:after-rejected", fmt.Sprint(vc.ms.Panics[0]), wit)
			return
		}
		var got *m.RoutingTableEntry
		es := vc.v.Inst.RouterV.Table().VerifEntries()
		for i := range es {
			if es[i].DstIP == b.origin && len(es[i].Path.Hops) == len(b.layers)+2 {
				got = &es[i]
			}
		}
		if got == nil {
			res.Violate("authentic-announcement-not-accepted:after-a-rejected-one", fmt.Sprintf("right after the router refused a damaged announcement of %s, an authentic announcement of %s (%d hop records) delivered by the same peer added no route", a.origin, b.origin, len(b.layers)), wit)
			return
		}
		for i, l := range b.layers {
			h := got.Path.Hops[1+i]
			if h.Router != l.Router.IP || h.Delay != l.Delay || h.ForwardLabel != l.ForwardLabel || h.ReturnLabel != l.ReturnLabel {
				res.Violate("authentic-announcement-wrong-route:after-a-rejected-one", fmt.Sprintf("the route learned from an authentic announcement of %s right after a refused one does not list the signed hop records", b.origin), wit)
				return
			}
		}
		res.Count("authentic_after_rejected_accepted", 1)
	}
	res.Case("after-rejected", true)
}

// afterHousekeeping: a long-lived router. It accepts an announcement of origin A (sessions for A and the relays come
// into being), then hears nothing from them for a few minutes while its once-a-minute session cleaner ticks (virtual
// time hooks), then an announcement of another origin B arrives over the same peer: the authentic one must be accepted
// with exactly the signed hop records, B's frame carrying the hop records signed for A's announcement must be refused.
func afterHousekeeping(res *core.Result, r *rand.Rand, caps []*capture, idV, spare *m.Address, rounds int) {
	done := 0
	for try := 0; try < rounds*30 && done < rounds; try++ {
		a := caps[r.IntN(len(caps))]
		b := caps[r.IntN(len(caps))]
		if len(b.layers) == 0 || a.origin == b.origin || a.sender.IP != b.sender.IP || a.meshID != b.meshID {
			continue
		}
		done++
		vc, err := newVictim(idV, []*m.Address{a.sender, spare}, a.ids)
		if err != nil {
			res.Inconcl("victim: %v", err)
			return
		}
		vc.ms.DeliverOn(&vmesh.Packet{From: 1, To: 0, Data: a.data}, 0, 1)
		idle := time.Duration(2+r.IntN(20)) * time.Minute
		ticks := 1 + r.IntN(3)
		vc.v.Inst.StateV.VerifAdvanceTime(idle)
		for k := 0; k < ticks; k++ {
			vc.v.Inst.StateV.VerifHousekeeping()
		}
		hist := fmt.Sprintf("an announcement of %s was handled, then %s without traffic and %d ticks of the session cleaner", a.origin, idle, ticks)
		wit := map[string]any{"operator": "after-housekeeping", "first_origin": a.origin.String(), "second_origin": b.origin.String(), "case_id": "after-housekeeping"}
		before := vc.tableKey()
		if done%2 == 0 {
			splice := withApx(b, a.apx)
			if len(a.layers) == 0 {
				continue
			}
			vc.ms.DeliverOn(&vmesh.Packet{From: 1, To: 0, Data: splice}, 0, 1)
			if len(vc.ms.Panics) > 0 {
				res.Violate("handler-panic:after-housekeeping", fmt.Sprint(vc.ms.Panics[0]), wit)
				return
			}
			if vc.tableKey() != before {
				res.Violate("forged-announcement-accepted:splice-other-origin/after-housekeeping", fmt.Sprintf("%s: the frame of origin %s carrying the hop records signed for the other announcement changed the routing table:\n%s", hist, b.origin, vc.tableKey()), wit)
				return
			}
			res.Count("splices_after_housekeeping_refused", 1)
			continue
		}
		vc.ms.DeliverOn(&vmesh.Packet{From: 1, To: 0, Data: b.data}, 0, 1)
		if len(vc.ms.Panics) > 0 {
			res.Violate("handler-panic:after-housekeeping", fmt.Sprint(vc.ms.Panics[0]), wit)
			return
		}
		var got *m.RoutingTableEntry
		es := vc.v.Inst.RouterV.Table().VerifEntries()
		for i := range es {
			if es[i].DstIP == b.origin && len(es[i].Path.Hops) == len(b.layers)+2 {
				got = &es[i]
			}
		}
		if got == nil {
			res.Violate("authentic-announcement-not-accepted:after-housekeeping", fmt.Sprintf("%s: an authentic announcement of %s (%d hop records) delivered by the same peer added no route", hist, b.origin, len(b.layers)), wit)
			return
		}
		for i, l := range b.layers {
			h := got.Path.Hops[1+i]
			if h.Router != l.Router.IP || h.Delay != l.Delay || h.ForwardLabel != l.ForwardLabel || h.ReturnLabel != l.ReturnLabel {
				res.Violate("authentic-announcement-wrong-route:after-housekeeping", fmt.Sprintf("%s: the route learned from an authentic announcement of %s does not list the signed hop records", hist, b.origin), wit)
				return
			}
		}
		res.Count("authentic_after_housekeeping_accepted", 1)
	}
	res.Case("after-housekeeping", true)
}

// concurrentSplice: the router's frame handlers run in parallel (one per CPU). While several of them handle
// genuine announcements of origin Q delivered by peer P, another one receives the frame of origin C carrying the
// hop records P signed for Q's announcement. Handled alone that splice is refused (splice-other-origin above);
// it must be refused just the same while the genuine announcement is being verified next to it.
func concurrentSplice(res *core.Result, r *rand.Rand, caps []*capture, idV, spare *m.Address, pairs, attempts int) {
	done := 0
	for try := 0; try < pairs*20 && done < pairs; try++ {
		c := caps[r.IntN(len(caps))]
		q := caps[r.IntN(len(caps))]
		if len(q.layers) == 0 || q.origin == c.origin || c.origin == q.sender.IP || bytes.Equal(signingContext(q.data), signingContext(c.data)) {
			continue
		}
		named := false
		for _, l := range q.layers {
			if l.Router.IP == c.origin {
				named = true
			}
		}
		if named {
			continue
		}
		done++
		vc, err := newVictim(idV, []*m.Address{q.sender, spare}, c.ids)
		if err != nil {
			res.Inconcl("victim: %v", err)
			return
		}
		var sentMu sync.Mutex
		forwardedForged := 0
		vc.ms.OnSend = func(p *vmesh.Packet) {
			if isAnnouncement(p.Data) && netip.AddrFrom16([16]byte(p.Data[16:32])) == c.origin {
				sentMu.Lock()
				forwardedForged++
				sentMu.Unlock()
			}
		}
		splice := withApx(c, q.apx)
		var stop atomic.Bool
		var wg sync.WaitGroup
		for g := 0; g < 3; g++ {
			wg.Add(1)
			go func() {
				defer wg.Done()
				for !stop.Load() {
					_, _ = vc.ms.HandleAtRouter(0, 1, q.data)
				}
			}()
		}
		for i := 0; i < attempts; i++ {
			_, _ = vc.ms.HandleAtRouter(0, 1, splice)
		}
		stop.Store(true)
		wg.Wait()
		wit := map[string]any{"operator": "splice-other-origin/concurrent", "origin": c.origin.String(), "genuine_origin": q.origin.String(), "case_id": "concurrent-splice"}
		if len(vc.ms.Panics) > 0 {
			res.Violate("handler-panic:concurrent-announcements", fmt.Sprintf("announcements handled in parallel: %v", vc.ms.Panics[0]), wit)
			return
		}
		for _, e := range vc.v.Inst.RouterV.Table().VerifEntries() {
			if e.DstIP == c.origin {
				res.Violate("forged-announcement-accepted:splice-other-origin/concurrent", fmt.Sprintf("the frame of origin %s carrying the hop records signed for the announcement of %s was accepted (route via %s) while genuine announcements of %s were being handled by other workers; handled alone it is refused", c.origin, q.origin, e.NextHop, q.origin), wit)
				return
			}
		}
		sentMu.Lock()
		ff := forwardedForged
		sentMu.Unlock()
		if ff > 0 {
			res.Violate("forged-announcement-forwarded:splice-other-origin/concurrent", fmt.Sprintf("the spliced announcement of origin %s was forwarded %d time(s) while genuine announcements were handled in parallel", c.origin, ff), wit)
			return
		}
		res.Count("concurrent_splice_attempts_refused", int64(attempts))
		res.Case(fmt.Sprintf("concurrent-splice/depth%d", min(len(q.layers), 12)), true)
	}
}

func parallel(n int, fn func(w int)) { core.Parallel(n, fn) }

func run(c *core.Ctx) {
	res := c.Res
	const W = 16
	type src struct {
		t      *vmesh.Topology
		labels vmesh.LabelMode
		info   int
	}
	srcs := []src{
		{vmesh.Line(14), vmesh.LabelsSmall, 0}, {vmesh.Line(14), vmesh.LabelsBig, 300}, {vmesh.Line(9), vmesh.LabelsMixed, 1500},
		{vmesh.Line(3), vmesh.LabelsSmall, 0}, {vmesh.Ring(5), vmesh.LabelsMixed, 0}, {vmesh.Grid(3, 3), vmesh.LabelsSmall, 200},
		{vmesh.Tree(7), vmesh.LabelsBig, 0}, {vmesh.Line(2), vmesh.LabelsSmall, 0},
	}
	if c.RaceBuild {
		// race part: announcements handled by several workers of one router at once
		rs := []src{{vmesh.Line(5), vmesh.LabelsSmall, 0}, {vmesh.Ring(5), vmesh.LabelsMixed, 100}}
		parallel(len(rs), func(w int) {
			r := core.RNG(fmt.Sprintf("c08/race/%d", w))
			ids := make([]*m.Address, rs[w].t.N+2)
			for i := range ids {
				ids[i] = env.NewIdentity(r, nil)
			}
			caps, err := harvest(r, rs[w].t, ids[:rs[w].t.N], rs[w].labels, rs[w].info, w)
			if err != nil {
				res.Inconcl("harvest: %v", err)
				return
			}
			concurrentSplice(res, r, caps, ids[rs[w].t.N], ids[rs[w].t.N+1], c.Q(2, 10), c.Q(150, 600))
		})
		res.Require(res.Counter("concurrent_splice_attempts_refused") >= 300 || res.ViolationCount() > 0, "race part: too few concurrent deliveries")
		return
	}
	perMesh := c.Q(40, 400) // captures sampled per mesh
	flips := c.Q(2, 8)
	parallel(len(srcs), func(w int) {
		r := core.RNG(fmt.Sprintf("c08/%d", w))
		s := srcs[w]
		ids := make([]*m.Address, s.t.N+2)
		for i := range ids {
			ids[i] = env.NewIdentity(r, nil)
		}
		caps, err := harvest(r, s.t, ids[:s.t.N], s.labels, s.info, w)
		if err != nil {
			res.Inconcl("harvest %s: %v", s.t.Canon(), err)
			return
		}
		res.Count("authentic_announcements_captured", int64(len(caps)))
		// sample captures, stratified by depth
		byDepth := map[int][]*capture{}
		for _, cp := range caps {
			byDepth[len(cp.layers)] = append(byDepth[len(cp.layers)], cp)
		}
		chosen := map[*capture]bool{}
		for len(chosen) < min(perMesh, len(caps)) {
			for d := range byDepth {
				l := byDepth[d]
				chosen[l[r.IntN(len(l))]] = true
			}
		}
		runVariants(res, r, caps, ids[s.t.N], ids[s.t.N+1], flips, func(cp *capture) bool { return chosen[cp] })
		concurrentSplice(res, r, caps, ids[s.t.N], ids[s.t.N+1], c.Q(2, 12), c.Q(300, 1500))
		for k := 0; k < c.Q(2, 10); k++ {
			reannounced(res, r, 1+(w+k)%4)
		}
		afterRejected(res, r, caps, ids[s.t.N], ids[s.t.N+1], c.Q(6, 40))
		afterHousekeeping(res, r, caps, ids[s.t.N], ids[s.t.N+1], c.Q(8, 60))
		_ = W
	})
	res.Sample(map[string]any{"operator": "resigned-outer-over-foreign-inner-chain", "desc": "a relay that holds a real key signs its own hop record (context of announcement A) over the hop chain of announcement B"})
	res.Sample(map[string]any{"operator": "splice-other-time-or-variant", "desc": "frame of origin O at time t1 with the appendix captured for O at time t2"})
	res.Sample(map[string]any{"operator": "bitflip", "field": "appendix-nested", "depth": 7})
	res.Assume("Ed25519 is unforgeable; only material an attacker can build from valid announcements and from keys he really holds is tried")
	res.Assume("a stored router record / session for a valid self-certifying identity named in a rejected announcement is not a table change (C07 covers state outside the table)")
	res.Require(res.Counter("accepted_authentic") >= 100, "fewer than 100 authentic announcements accepted (positive control)")
	res.Require(res.Counter("max_authentic_depth") >= 8, "no authentic announcement with >= 8 hop records was produced")
}
