// Package c07: control plane — only messages authenticated as their source
// change router state.
package c07

import (
	"encoding/hex"
	"fmt"
	"github.com/mycoria/mycoria/mgr"
	"math/rand/v2"
	"net/netip"
	"os"
	"sort"
	"strings"
	"sync"
	"sync/atomic"
	"time"

	"github.com/fxamacker/cbor/v2"

	"github.com/mycoria/mycoria/frame"
	"github.com/mycoria/mycoria/m"
	"github.com/mycoria/mycoria/router"
	"github.com/mycoria/mycoria/state"
	"github.com/mycoria/mycoria/storage"

	"verifharness/core"
	"verifharness/env"
	"verifharness/vmesh"
)

func init() {
	core.Register(&core.Prop{
		ID:    "C07",
		Level: "exploration",
		Rule: "a long-lived victim router with peers, gossip routes, end-to-end sessions and connection states built by honest traffic; authentic pings of every type and code (hello request/response, pong request/response, error codes 0-4 and unknown, disconnect going-down/list, announcements) are produced by honest routers' real code and intercepted on the victim's link; " +
			"before the authentic frame is delivered, variants (every byte mutated, source rewritten to other known routers, message type switched, foreign keys) must leave the state snapshot unchanged; after it, replays (immediate, after newer frames, on another link) must as well; " +
			"positive controls check that the authentic frame changes exactly what the statement allows; non-trivial = variant of a ping whose authentic form does change the snapshot; distinct by (ping kind, variant operator, field class)",
		Run:              run,
		CrashIsViolation: true,
	})
}

const V = 0

const probeType = "c07probe"

// probe counts how often the victim's ping dispatcher handled a ping of the probe type, per ping id.
type probe struct {
	mu      sync.Mutex
	handled map[uint64]int
}

func (h *probe) Type() string { return probeType }
func (h *probe) Handle(_ *mgr.WorkerCtx, f frame.Frame, hdr *router.PingHeader, _ []byte) error {
	h.mu.Lock()
	h.handled[hdr.PingID]++
	h.mu.Unlock()
	f.ReturnToPool()
	return nil
}
func (h *probe) Clean(_ *mgr.WorkerCtx) error { return nil }
func (h *probe) count(id uint64) int {
	h.mu.Lock()
	defer h.mu.Unlock()
	return h.handled[id]
}

type scene struct {
	ms  *vmesh.Mesh
	ids []*m.Address
	t   *vmesh.Topology
	r   *rand.Rand
	// foreign: a key pair no router of the scene owns (an attacker's)
	foreign *m.Address
	probe   *probe
}

func helper(e *state.EncryptionSession) *state.EncryptionSessionTestHelper {
	return &state.EncryptionSessionTestHelper{EncryptionSession: e}
}

// snapshot serialises the victim's control-plane state, sectioned by router.
func (sc *scene) snapshot() map[string]string {
	v := sc.ms.Nodes[V]
	out := map[string]string{}
	// stored routers
	var ips []netip.Addr
	q := storage.NewRouterQuery(func(a *storage.StoredRouter) bool {
		ips = append(ips, a.Address.IP)
		var b strings.Builder
		fmt.Fprintf(&b, "offline=%v universe=%q info=", a.Offline, a.Universe)
		if a.PublicInfo == nil {
			b.WriteString("nil")
		} else {
			fmt.Fprintf(&b, "%q|%q|%q|%d", a.PublicInfo.Version, a.PublicInfo.Listeners, a.PublicInfo.IANA, len(a.PublicInfo.PublicServices))
		}
		out["stored:"+a.Address.IP.String()] = b.String()
		return false
	}, nil, 1)
	_ = v.Inst.StorageV.QueryRouters(q)
	for _, ip := range ips {
		s := v.Inst.StateV.GetSession(ip)
		if s == nil {
			continue
		}
		h := helper(s.Encryption())
		out["session:"+ip.String()] = fmt.Sprintf("in=%s out=%s setup=%v mtu=%d", hex.EncodeToString(h.InKey()), hex.EncodeToString(h.OutKey()), s.Encryption().IsSetUp(), s.TunMTU())
	}
	for _, e := range v.Inst.RouterV.Table().VerifEntries() {
		var b strings.Builder
		fmt.Fprintf(&b, "%s>%s src=%d stub=%v hops=", e.DstIP, e.NextHop, e.Source, e.Stub)
		for _, h := range e.Path.Hops {
			fmt.Fprintf(&b, "%s/%d/%d/%d,", h.Router, h.Delay, h.ForwardLabel, h.ReturnLabel)
		}
		out["route:"+b.String()] = "present"
	}
	for _, cs := range v.Inst.RouterV.VerifConnStates() {
		out[fmt.Sprintf("conn:%s>%s/%d/%d/%d", cs.LocalIP, cs.RemoteIP, cs.Protocol, cs.LocalPort, cs.RemotePort)] = fmt.Sprintf("status=%d inbound=%v", cs.Status, cs.Inbound)
	}
	return out
}

func diff(a, b map[string]string) []string {
	var d []string
	for k, v := range a {
		if w, ok := b[k]; !ok {
			d = append(d, "removed "+k)
		} else if w != v {
			d = append(d, fmt.Sprintf("changed %s: %s -> %s", k, v, w))
		}
	}
	for k := range b {
		if _, ok := a[k]; !ok {
			d = append(d, "added "+k+" = "+b[k])
		}
	}
	sort.Strings(d)
	return d
}

func buildScene(r *rand.Rand) (*scene, error) {
	t := &vmesh.Topology{Name: "c07", N: 6, Edges: [][2]int{{0, 1}, {0, 2}, {0, 3}, {1, 4}, {4, 5}}}
	ids := make([]*m.Address, t.N+1)
	for i := range ids {
		ids[i] = env.NewIdentity(r, nil)
	}
	ms := vmesh.New()
	for i := 0; i < t.N; i++ {
		if _, err := ms.AddNode(ids[i], vmesh.NodeOpts{FakeTun: i == V}); err != nil {
			return nil, err
		}
	}
	for k, e := range t.Edges {
		if err := ms.Connect(e[0], e[1], m.SwitchLabel(10+2*k), m.SwitchLabel(11+2*k)); err != nil {
			return nil, err
		}
	}
	sc := &scene{ms: ms, ids: ids, t: t, r: r, foreign: env.NewIdentity(r, nil), probe: &probe{handled: map[uint64]int{}}}
	if err := ms.Nodes[V].Inst.RouterV.RegisterPingHandler(sc.probe); err != nil {
		return nil, err
	}
	if err := ms.Converge(r, false); err != nil {
		return nil, err
	}
	// end-to-end sessions V <-> everyone (both ways of initiating)
	for i := 1; i < t.N; i++ {
		from, to := V, i
		if i%2 == 0 {
			from, to = i, V
		}
		if _, err := ms.Nodes[from].Inst.RouterV.HelloPing.Send(ms.Nodes[to].ID.IP); err != nil {
			return nil, fmt.Errorf("hello %d->%d: %w", from, to, err)
		}
		ms.Drain(vmesh.FIFO, 100)
		time.Sleep(2 * time.Millisecond)
	}
	// connection states: local packets to several routers
	v := ms.Nodes[V]
	for i := 1; i < t.N; i++ {
		for _, port := range []uint16{80, 443} {
			pkt := ipv6Packet(v.ID.IP, ms.Nodes[i].ID.IP, 6, uint16(40000+i), port)
			ps := v.Inst.BuilderV.GetPooledSlice(len(pkt))
			copy(ps, pkt)
			if perr := v.Inst.RouterV.VerifHandleTunPacket(ps[:len(pkt)]); perr != nil {
				return nil, perr
			}
		}
	}
	ms.Drain(vmesh.FIFO, 200)
	return sc, nil
}

func ipv6Packet(src, dst netip.Addr, proto uint8, sport, dport uint16) []byte {
	p := make([]byte, 60)
	p[0] = 6 << 4
	p[5] = 20
	p[6] = proto
	p[7] = 64
	a := src.As16()
	copy(p[8:24], a[:])
	a = dst.As16()
	copy(p[24:40], a[:])
	p[40], p[41] = byte(sport>>8), byte(sport)
	p[42], p[43] = byte(dport>>8), byte(dport)
	return p
}

// intercept runs fn (which makes an honest router emit a ping towards the victim),
// drains the mesh except for frames arriving at the victim, and returns those.
func (sc *scene) intercept(fn func() error) ([]*vmesh.Packet, error) {
	if err := fn(); err != nil {
		return nil, err
	}
	var held []*vmesh.Packet
	for steps := 0; steps < 500; steps++ {
		idx := -1
		for i, p := range sc.ms.InFlight {
			if p.To != V {
				idx = i
				break
			}
		}
		if idx < 0 {
			break
		}
		p := sc.ms.Take(idx)
		sc.ms.Deliver(p)
	}
	for sc.ms.Pending() > 0 {
		held = append(held, sc.ms.Take(0))
	}
	return held, nil
}

type pingKind struct {
	name string
	from int
	emit func(sc *scene, from int) error
	// expectChange: the authentic frame is expected to change the snapshot (positive control)
	expectChange bool
	// allowed reports whether a snapshot difference line is permitted for the authentic frame from src
	allowed func(sc *scene, src netip.Addr, line string) bool
}

func craftPing(sc *scene, from int, mt frame.MessageType, pingType string, code uint8, followUp bool, body []byte, dst netip.Addr) error {
	n := sc.ms.Nodes[from]
	hdr := router.PingHeader{PingID: sc.r.Uint64() | 1, PingType: pingType, PingCode: code, FollowUp: followUp, AddrHash: n.ID.Hash, KeyType: n.ID.Type, PublicKey: n.ID.PublicKey}
	hd, err := cbor.Marshal(&hdr)
	if err != nil {
		return err
	}
	data := append(append([]byte{1, byte(len(hd))}, hd...), body...)
	f, err := n.Inst.BuilderV.NewFrameV1(n.ID.IP, dst, mt, nil, data, nil)
	if err != nil {
		return err
	}
	if err := f.Seal(n.Inst.StateV.GetSession(dst)); err != nil {
		return err
	}
	return n.Inst.RouterV.RouteFrame(f)
}

// craftRawSigned sends a multicast hop ping signed with the sender's address key (as sendPingMsg does for unknown destinations).
func craftRawSigned(sc *scene, from int, mt frame.MessageType, pingType string, body []byte) error {
	n := sc.ms.Nodes[from]
	hdr := router.PingHeader{PingID: sc.r.Uint64() | 1, PingType: pingType, AddrHash: n.ID.Hash, KeyType: n.ID.Type, PublicKey: n.ID.PublicKey}
	hd, err := cbor.Marshal(&hdr)
	if err != nil {
		return err
	}
	data := append(append([]byte{1, byte(len(hd))}, hd...), body...)
	f, err := n.Inst.BuilderV.NewFrameV1(n.ID.IP, m.RouterAddress, mt, nil, data, nil)
	if err != nil {
		return err
	}
	f.SetTTL(0)
	f.SetSequenceTime(time.Now().Round(time.Millisecond))
	if err := f.SignRaw(n.ID.PrivateKey); err != nil {
		return err
	}
	f.SetTTL(32)
	for _, l := range n.Inst.PeeringV.GetLinks() {
		if err := n.Inst.SwitchV.ForwardByPeer(f.Clone(), l.Peer()); err != nil {
			return err
		}
	}
	return nil
}

func onlySessionOf(sc *scene, src netip.Addr, line string) bool {
	return strings.Contains(line, "session:"+src.String())
}

func kinds() []pingKind {
	vip := func(sc *scene) netip.Addr { return sc.ms.Nodes[V].ID.IP }
	return []pingKind{
		{name: "hello-request", expectChange: true, allowed: onlySessionOf,
			emit: func(sc *scene, from int) error {
				_, err := env.Rekey(sc.ms.Nodes[from].Inst, vip(sc))
				return err
			}},
		{name: "hello-response", expectChange: true, allowed: onlySessionOf,
			emit: func(sc *scene, from int) error {
				v := sc.ms.Nodes[V]
				// the victim asks, the honest router answers
				_, err := env.Rekey(v.Inst, sc.ms.Nodes[from].ID.IP)
				return err
			}},
		{name: "pong-request", allowed: func(*scene, netip.Addr, string) bool { return false },
			emit: func(sc *scene, from int) error {
				_, _, err := sc.ms.Nodes[from].Inst.RouterV.PingPong.Send(vip(sc), false, 0)
				return err
			}},
		{name: "pong-response", allowed: func(*scene, netip.Addr, string) bool { return false },
			emit: func(sc *scene, from int) error {
				_, _, err := sc.ms.Nodes[V].Inst.RouterV.PingPong.Send(sc.ms.Nodes[from].ID.IP, false, 0)
				return err
			}},
		{name: "error-generic", allowed: func(*scene, netip.Addr, string) bool { return false },
			emit: func(sc *scene, from int) error {
				return sc.ms.Nodes[from].Inst.RouterV.ErrorPing.SendGeneric(vip(sc), "some error text")
			}},
		{name: "error-unreachable", expectChange: true,
			allowed: func(sc *scene, src netip.Addr, line string) bool { return strings.HasPrefix(line, "changed conn:") },
			emit: func(sc *scene, from int) error {
				// "node 5 is unreachable"
				return sc.ms.Nodes[from].Inst.RouterV.ErrorPing.SendUnreachable(vip(sc), sc.ms.Nodes[5].ID.IP)
			}},
		{name: "error-access-denied", expectChange: true,
			allowed: func(sc *scene, src netip.Addr, line string) bool { return strings.HasPrefix(line, "changed conn:") },
			emit: func(sc *scene, from int) error {
				return sc.ms.Nodes[from].Inst.RouterV.ErrorPing.SendAccessDenied(vip(sc), sc.ms.Nodes[from].ID.IP, 6, 80)
			}},
		{name: "error-rejected", expectChange: true,
			allowed: func(sc *scene, src netip.Addr, line string) bool { return strings.HasPrefix(line, "changed conn:") },
			emit: func(sc *scene, from int) error {
				return sc.ms.Nodes[from].Inst.RouterV.ErrorPing.SendRejected(vip(sc), sc.ms.Nodes[from].ID.IP, 6, 443)
			}},
		{name: "error-unknown-code", allowed: func(*scene, netip.Addr, string) bool { return false },
			emit: func(sc *scene, from int) error {
				return craftPing(sc, from, frame.RouterPing, "error", 77, false, []byte{0x60}, vip(sc))
			}},
		{name: "unknown-ping-type", allowed: func(*scene, netip.Addr, string) bool { return false },
			emit: func(sc *scene, from int) error {
				return craftPing(sc, from, frame.RouterPing, "nosuchtype", 0, false, []byte{0xA0}, vip(sc))
			}},
		{name: "disconnect-list", expectChange: true,
			allowed: func(sc *scene, src netip.Addr, line string) bool {
				return strings.HasPrefix(line, "removed route:") && strings.Contains(line, src.String())
			},
			emit: func(sc *scene, from int) error {
				return sc.ms.Nodes[from].Inst.RouterV.DisconnectPing.Send(false, []netip.Addr{sc.ms.Nodes[5].ID.IP})
			}},
		{name: "disconnect-going-down", expectChange: true,
			allowed: func(sc *scene, src netip.Addr, line string) bool {
				return (strings.HasPrefix(line, "removed route:") && strings.Contains(line, src.String())) ||
					strings.HasPrefix(line, "changed stored:"+src.String())
			},
			emit: func(sc *scene, from int) error {
				return sc.ms.Nodes[from].Inst.RouterV.DisconnectPing.Send(true, nil)
			}},
		{name: "error-no-encryption-keys", expectChange: true, allowed: onlySessionOf,
			emit: func(sc *scene, from int) error {
				return sc.ms.Nodes[from].Inst.RouterV.ErrorPing.SendNoEncryptionKeys(vip(sc))
			}},
		{name: "disconnect-as-hop-ping", expectChange: true,
			allowed: func(sc *scene, src netip.Addr, line string) bool {
				return (strings.HasPrefix(line, "removed route:") && strings.Contains(line, src.String())) ||
					strings.HasPrefix(line, "changed stored:"+src.String())
			},
			emit: func(sc *scene, from int) error {
				body, _ := cbor.Marshal(&router.DisconnectPingMsg{GoingDown: sc.r.IntN(2) == 0, Disconnected: []netip.Addr{sc.ms.Nodes[5].ID.IP}})
				return craftRawSigned(sc, from, frame.RouterHopPing, "disconnect", body)
			}},
		{name: "announce", expectChange: false,
			allowed: func(sc *scene, src netip.Addr, line string) bool {
				// an announcement of src may add/replace routes to src and store its public info
				return (strings.Contains(line, "route:"+src.String()+">")) || strings.HasPrefix(line, "changed stored:"+src.String())
			},
			emit: func(sc *scene, from int) error {
				n := sc.ms.Nodes[from]
				for _, l := range n.Inst.PeeringV.GetLinks() {
					if err := n.Inst.RouterV.AnnouncePing.Send(l.Peer()); err != nil {
						return err
					}
				}
				return nil
			}},
	}
}

func fieldOf(d []byte, i int) string {
	sw := int(d[48])
	mi := 49 + sw
	ml := int(d[mi])<<8 | int(d[mi+1])
	auth := 64
	if frame.MessageType(d[4]).IsEncrypted() {
		auth = 16
	}
	switch {
	case i == 0:
		return "version"
	case i == 3:
		return "rate"
	case i == 4:
		return "type"
	case i < 8:
		return "nonce"
	case i < 16:
		return "sequence"
	case i < 32:
		return "src"
	case i < 48:
		return "dst"
	case i < mi+2:
		return "lengths"
	case i < mi+2+ml:
		return "body"
	case i < mi+2+ml+auth:
		return "auth"
	default:
		return "appendix"
	}
}

// seedRoutes adds seeded gossip routes through known routers to the victim's table.
func (sc *scene) seedRoutes(n int) {
	v := sc.ms.Nodes[V]
	for k := 0; k < n; k++ {
		var a [16]byte
		copy(a[:], core.RandBytes(sc.r, 16))
		a[0], a[1] = 0xfd, 0x10|byte(sc.r.IntN(0x60))
		dst := netip.AddrFrom16(a)
		nb := []int{1, 2, 3}[sc.r.IntN(3)]
		hops := []m.SwitchHop{{Router: v.ID.IP, ForwardLabel: v.Links[nb].SwitchLabel()}, {Router: sc.ms.Nodes[nb].ID.IP, ForwardLabel: 5, ReturnLabel: 6}}
		for j := sc.r.IntN(3); j > 0; j-- {
			x := 1 + sc.r.IntN(5)
			dup := false
			for _, h := range hops {
				if h.Router == sc.ms.Nodes[x].ID.IP {
					dup = true
				}
			}
			if !dup {
				hops = append(hops, m.SwitchHop{Router: sc.ms.Nodes[x].ID.IP, ForwardLabel: 7, ReturnLabel: 8})
			}
		}
		hops = append(hops, m.SwitchHop{Router: dst, ReturnLabel: 9})
		_, _ = v.Inst.RouterV.Table().AddRoute(m.RoutingTableEntry{DstIP: dst, NextHop: sc.ms.Nodes[nb].ID.IP, Source: m.RouteSourceGossip, Path: m.SwitchPath{Hops: hops}})
	}
}

func runScene(res *core.Result, r *rand.Rand, exhaustiveBits bool) {
	sc, err := buildScene(r)
	if err != nil {
		res.Inconcl("scene: %v", err)
		return
	}
	ms := sc.ms
	v := ms.Nodes[V]
	deliver := func(data []byte, via int) {
		p := &vmesh.Packet{From: via, To: V, Data: data}
		ms.DeliverOn(p, V, via)
	}
	settle := func() {
		// let everything the victim emitted reach the honest routers, but hold what comes back
		_, _ = sc.intercept(func() error { return nil })
	}
	var history [][]byte // authentic frames delivered so far (for late replays)
	var historyVia []int
	var historyKind []string
	var historyFrom []int
	for round := 0; round < 2; round++ {
		for _, k := range kinds() {
			for _, from := range []int{1, 4} { // a direct peer and a router two hops away
				if k.name == "announce" && from == 4 {
					continue
				}
				sc.seedRoutes(6)
				if !strings.HasPrefix(k.name, "hello") {
					// the honest router needs keys with the victim for most of its pings; an earlier step may have left
					// it without (a re-key whose answer was held back, an authentic "no encryption keys" error)
					if se := ms.Nodes[from].Inst.StateV.GetSession(v.ID.IP); se == nil || !se.Encryption().IsSetUp() {
						time.Sleep(1500 * time.Microsecond)
						if _, err := env.Rekey(ms.Nodes[from].Inst, v.ID.IP); err == nil {
							ms.Drain(vmesh.FIFO, 200)
							res.Count("keys_set_up_again_before_a_ping", 1)
						}
					}
				}
				held, err := sc.intercept(func() error { return k.emit(sc, from) })
				if err != nil {
					res.Count("emit_failed:"+k.name, 1)
					res.SetExtra("emit_error:"+k.name, err.Error())
					continue
				}
				src := ms.Nodes[from].ID.IP
				for _, p := range held {
					if netip.AddrFrom16([16]byte(p.Data[16:32])) != src {
						// something else arriving at the victim (e.g. a forwarded flood): deliver normally
						ms.DeliverOn(p, V, p.From)
						continue
					}
					P := p.Data
					via := p.From
					wit := func(op string, extra string) map[string]any {
						return map[string]any{"ping": k.name, "from_node": from, "operator": op, "detail": extra, "frame": hex.EncodeToString(P[:min(len(P), 300)]), "case_id": k.name + "|" + op}
					}
					check := func(op, field string, data []byte, onLink int) bool {
						before := sc.snapshot()
						deliver(data, onLink)
						if len(ms.Panics) > 0 {
							res.Violate("handler-panic", fmt.Sprintf("%s variant of %s: %v", op, k.name, ms.Panics[0]), wit(op, field))
							return false
						}
						after := sc.snapshot()
						if d := diff(before, after); len(d) > 0 {
							res.Violate(fmt.Sprintf("unauthenticated-ping-changed-state:%s:%s", k.name, op),
								fmt.Sprintf("%s variant (%s) of a %s ping from node %d changed the victim's state: %s", op, field, k.name, from, strings.Join(d[:min(len(d), 4)], "; ")), wit(op, field))
							return false
						}
						settle()
						res.Case(k.name+"|"+op+"|"+field, k.expectChange)
						return true
					}
					// 1. byte mutations (before the authentic frame is known to the victim)
					for i := 0; i < len(P); i++ {
						if i == 1 || i == 2 {
							continue // TTL and flow flags are hop-mutable
						}
						bits := []uint{uint(r.IntN(8))}
						if exhaustiveBits {
							bits = []uint{0, 1, 2, 3, 4, 5, 6, 7}
						}
						f := fieldOf(P, i)
						if f == "appendix" {
							continue // announcements' appendices are C08's business
						}
						if f == "dst" || f == "type" {
							// a frame for someone else / of another class is forwarded or dropped, not handled: still must not change state
						}
						for _, b := range bits {
							d := append([]byte(nil), P...)
							d[i] ^= 1 << b
							if !check("bitflip", f, d, via) {
								return
							}
						}
					}
					// 2. source rewritten to every other known router
					for x := 1; x < sc.t.N; x++ {
						if x == from {
							continue
						}
						d := append([]byte(nil), P...)
						a := ms.Nodes[x].ID.IP.As16()
						copy(d[16:32], a[:])
						if !check("source-rewritten", "src", d, via) {
							return
						}
					}
					// 3. message type switched between classes
					for _, mt := range []byte{0, 1, 2, 3, 8, 16, 17} {
						if mt == P[4] {
							continue
						}
						d := append([]byte(nil), P...)
						d[4] = mt
						if !check("type-switched", "type", d, via) {
							return
						}
					}
					// 4. positive control: the authentic frame
					before := sc.snapshot()
					deliver(P, via)
					if len(ms.Panics) > 0 {
						res.Violate("handler-panic", fmt.Sprintf("authentic %s: %v", k.name, ms.Panics[0]), wit("authentic", ""))
						return
					}
					after := sc.snapshot()
					d := diff(before, after)
					for _, line := range d {
						if !k.allowed(sc, src, line) {
							res.Violate("authentic-ping-changed-foreign-state:"+k.name, fmt.Sprintf("an authentic %s ping from node %d changed state it must not touch: %s", k.name, from, line), wit("authentic", line))
							return
						}
					}
					if len(d) > 0 {
						res.Count("authentic_pings_with_effect:"+k.name, 1)
					} else {
						res.Count("authentic_pings_without_effect:"+k.name, 1)
					}
					if k.name != "disconnect-as-hop-ping" {
						// (honest routers never send a disconnect as a hop ping, so nobody can replay one)
						history = append(history, P)
						historyVia = append(historyVia, via)
						historyKind = append(historyKind, k.name)
						historyFrom = append(historyFrom, from)
					}
					settle()
					// 4b. an authentic ping that changed something about its source (keys dropped or replaced, marked
					// offline, routes removed) must not make the victim forget what it already accepted from that source:
					// earlier frames of the same source are replayed right after it, before anything newer arrives
					if len(d) > 0 && k.name != "disconnect-as-hop-ping" {
						var earlier []int
						for j := 0; j < len(history)-1; j++ {
							if historyFrom[j] == from {
								earlier = append(earlier, j)
							}
						}
						r.Shuffle(len(earlier), func(a, b int) { earlier[a], earlier[b] = earlier[b], earlier[a] })
						for _, j := range earlier[:min(len(earlier), 4)] {
							if !check("replay-right-after-authentic-"+k.name, "whole-frame of an earlier "+historyKind[j], history[j], historyVia[j]) {
								return
							}
							res.Count("replays_right_after_state_changing_ping", 1)
						}
					}
					// 5. replays
					if k.name != "disconnect-as-hop-ping" {
						if !check("replay-immediate", "whole-frame", P, via) {
							return
						}
						other := 2
						if via == 2 {
							other = 3
						}
						if !check("replay-on-other-link", "whole-frame", P, other) {
							return
						}
					}
					if k.name != "disconnect-as-hop-ping" {
						// the accepted frame once more, at once, with a changed message byte / a changed signature byte
						mi := 49 + int(P[48])
						ml := int(P[mi])<<8 | int(P[mi+1])
						for _, pos := range []int{mi + 2 + r.IntN(max(ml, 1)), mi + 2 + ml + r.IntN(16)} {
							if pos < len(P) {
								d := append([]byte(nil), P...)
								d[pos] ^= 1 << uint(r.IntN(8))
								if !check("replay-immediate-tampered", fieldOf(P, pos), d, via) {
									return
								}
							}
						}
					}
					if k.name == "announce" {
						// a fresh announcement of the same origin, extended by a hop record that names a router the
						// victim knows (its peer on link 2) but carries and is signed with a foreign key
						held2, err := sc.intercept(func() error { time.Sleep(1500 * time.Microsecond); return k.emit(sc, from) })
						if err == nil {
							for _, p2 := range held2 {
								if netip.AddrFrom16([16]byte(p2.Data[16:32])) != src || len(p2.Data) < 49+int(p2.Data[48])+2 {
									continue
								}
								Q := p2.Data
								mi := 49 + int(Q[48])
								end := mi + 2 + (int(Q[mi])<<8 | int(Q[mi+1])) + 64
								if end > len(Q) {
									continue
								}
								K := ms.Nodes[2].ID
								att := router.AnnouncePingAttachment{Router: m.PublicAddress{IP: K.IP, Hash: K.Hash, Type: K.Type, PublicKey: sc.foreign.PublicKey}, Delay: 3, ForwardLabel: 21, ReturnLabel: 22}
								ab, _ := cbor.Marshal(att)
								ctx := make([]byte, 88)
								copy(ctx[:16], Q[16:32])
								copy(ctx[16:24], Q[8:16])
								copy(ctx[24:], Q[end-64:end])
								sig, serr := sc.foreign.SignWithContext(ab, ctx)
								if serr != nil {
									continue
								}
								forged := append(append(append([]byte(nil), Q[:end]...), ab...), sig...)
								if !check("hop-record-of-known-router-with-foreign-key", "appendix", forged, 2) {
									return
								}
								res.Count("forged_hop_records_for_known_router", 1)
								break
							}
						}
					}
					if len(history) > 3 {
						j := r.IntN(len(history) - 1)
						if !check("replay-after-newer-frames", "whole-frame of an earlier "+historyKind[j], history[j], historyVia[j]) {
							return
						}
					}
				}
				time.Sleep(1500 * time.Microsecond) // distinct signed timestamps per emitted ping
			}
		}
	}
	// Encrypted control pings at the edge of the replay window: ping A is handled, then exactly g-1 later pings of
	// the same sender and class are lost and the g-th arrives, then A is delivered again. A registered probe
	// handler counts how often the dispatcher hands A to a handler (error pings have a receive cooldown that would
	// hide a second handling).
	{
		// (earlier "no encryption keys" errors legitimately discarded keys: set them up again first)
		n1 := ms.Nodes[1]
		ms.Nodes[V].Inst.RouterV.HelloPing.VerifExpireHello(n1.ID.IP)
		time.Sleep(1500 * time.Microsecond)
		_, _ = env.Rekey(n1.Inst, ms.Nodes[V].ID.IP)
		ms.Drain(vmesh.FIFO, 100)
	}
	// (only the sequence-numbered class: hundreds of signed pings sealed within milliseconds would push the
	// sender's signed timestamps ahead of the wall clock and make its later genuine pings look delayed)
	for _, mt := range []frame.MessageType{frame.RouterCtrl} {
		for _, gap := range []int{1, 2, 63, 64, 65, 128} {
			from := 1
			emit := func(n int) ([][]byte, []uint64) {
				var frames [][]byte
				var ids []uint64
				for k := 0; k < n; k++ {
					id := r.Uint64() | 1
					held, err := sc.intercept(func() error {
						nd := ms.Nodes[from]
						hdr := router.PingHeader{PingID: id, PingType: probeType, AddrHash: nd.ID.Hash, KeyType: nd.ID.Type, PublicKey: nd.ID.PublicKey}
						hd, _ := cbor.Marshal(&hdr)
						f, err := nd.Inst.BuilderV.NewFrameV1(nd.ID.IP, ms.Nodes[V].ID.IP, mt, nil, append(append([]byte{1, byte(len(hd))}, hd...), 0xA0), nil)
						if err != nil {
							return err
						}
						if err := f.Seal(nd.Inst.StateV.GetSession(ms.Nodes[V].ID.IP)); err != nil {
							return err
						}
						return nd.Inst.RouterV.RouteFrame(f)
					})
					if err != nil {
						return nil, nil
					}
					for _, p := range held {
						if netip.AddrFrom16([16]byte(p.Data[16:32])) == ms.Nodes[from].ID.IP && p.Data[4] == byte(mt) {
							frames = append(frames, p.Data)
							ids = append(ids, id)
						}
					}
				}
				return frames, ids
			}
			fa, ia := emit(1)
			if len(fa) != 1 {
				continue
			}
			deliver(fa[0], from)
			if sc.probe.count(ia[0]) != 1 {
				continue // (no keys with this sender at the moment: nothing to judge)
			}
			if mt == frame.RouterPing {
				time.Sleep(1500 * time.Microsecond)
			}
			later, _ := emit(gap)
			if len(later) != gap {
				continue
			}
			deliver(later[gap-1], from)
			deliver(fa[0], from)
			if len(ms.Panics) > 0 {
				res.Violate("handler-panic", fmt.Sprintf("window-edge replay: %v", ms.Panics[0]), nil)
				return
			}
			if n := sc.probe.count(ia[0]); n != 1 {
				res.Violate(fmt.Sprintf("authenticated-ping-handled-twice:type%d", mt),
					fmt.Sprintf("a control ping (message type %d) was handed to its handler %d times: it was handled, then the sender's next %d pings of that class were lost and the one after arrived, then the first ping was delivered again", mt, n, gap-1),
					map[string]any{"gap": gap, "message_type": mt, "case_id": fmt.Sprintf("window-edge|%d|%d", mt, gap)})
				return
			}
			settle()
			res.Case(fmt.Sprintf("window-edge-replay|%d|%d", mt, gap), true)
			res.Count("window_edge_replays_refused", 1)
		}
	}
	// Poison-then-forge: an authentic peer M (node 1) sends an announcement whose hop record names an address the
	// victim has never heard of, under M's own key (refused: the address does not derive from that key). Then a
	// hello request arrives that claims to come from that address, with M's key in the header, signed by M.
	// Whatever the refused announcement left behind, the hello must not create keys for that address.
	{
		unknown := env.NewIdentity(r, nil)
		M := ms.Nodes[1]
		time.Sleep(1500 * time.Microsecond)
		held, err := sc.intercept(func() error { return M.Inst.RouterV.AnnouncePing.Send(ms.Nodes[V].ID.IP) })
		if err == nil {
			for _, p2 := range held {
				if netip.AddrFrom16([16]byte(p2.Data[16:32])) != M.ID.IP || len(p2.Data) < 49+int(p2.Data[48])+2 {
					continue
				}
				Q := p2.Data
				mi := 49 + int(Q[48])
				end := mi + 2 + (int(Q[mi])<<8 | int(Q[mi+1])) + 64
				if end > len(Q) {
					continue
				}
				att := router.AnnouncePingAttachment{Router: m.PublicAddress{IP: unknown.IP, Hash: M.ID.Hash, Type: M.ID.Type, PublicKey: M.ID.PublicKey}, Delay: 3, ForwardLabel: 31, ReturnLabel: 32}
				ab, _ := cbor.Marshal(att)
				ctx := make([]byte, 88)
				copy(ctx[:16], Q[16:32])
				copy(ctx[16:24], Q[8:16])
				copy(ctx[24:], Q[end-64:end])
				sig, serr := M.ID.SignWithContext(ab, ctx)
				if serr != nil {
					break
				}
				forged := append(append(append([]byte(nil), Q[:end]...), ab...), sig...)
				before := sc.snapshot()
				r1 := ms.DeliverOn(&vmesh.Packet{From: 1, To: V, Data: forged}, V, 1)
				if os.Getenv("C07_DEBUG") != "" {
					fmt.Fprintf(os.Stderr, "POISON announce: parse=%v switch=%v router=%v esc=%d\n", r1.ParseErr, r1.SwitchErr, r1.RouterErr, r1.Escalated)
				}
				if d := diff(before, sc.snapshot()); len(d) > 0 {
					// (a bare stored record is bookkeeping; anything else is a change)
					res.Count("poison_announcement_left_traces", 1)
				}
				settle()
				// the forged hello
				kxs := state.NewEncryptionSession()
				kx, kxt, _ := kxs.InitKeyClientStart()
				body, _ := cbor.Marshal(&router.HelloPingRequest{KeyExchange: kx, KeyExchangeType: kxt, MTU: 1400})
				hdr := router.PingHeader{PingID: r.Uint64() | 1, PingType: "hello", AddrHash: M.ID.Hash, KeyType: M.ID.Type, PublicKey: M.ID.PublicKey}
				hd, _ := cbor.Marshal(&hdr)
				f, ferr := M.Inst.BuilderV.NewFrameV1(unknown.IP, ms.Nodes[V].ID.IP, frame.RouterPing, nil, append(append([]byte{1, byte(len(hd))}, hd...), body...), nil)
				if ferr != nil {
					break
				}
				f.SetTTL(0)
				f.SetSequenceTime(time.Now().Round(time.Millisecond))
				_ = f.SignRaw(M.ID.PrivateKey)
				f.SetTTL(30)
				fd, _ := f.FrameDataWithMargins(0, 0)
				hello := append([]byte(nil), fd...)
				f.ReturnToPool()
				before = sc.snapshot()
				r2 := ms.DeliverOn(&vmesh.Packet{From: 1, To: V, Data: hello}, V, 1)
				if os.Getenv("C07_DEBUG") != "" {
					fmt.Fprintf(os.Stderr, "POISON hello: parse=%v switch=%v router=%v esc=%d\n", r2.ParseErr, r2.SwitchErr, r2.RouterErr, r2.Escalated)
				}
				if len(ms.Panics) > 0 {
					res.Violate("handler-panic", fmt.Sprintf("forged hello after a refused announcement: %v", ms.Panics[0]), nil)
					return
				}
				var bad []string
				for _, line := range diff(before, sc.snapshot()) {
					if strings.Contains(line, "session:"+unknown.IP.String()) || strings.HasPrefix(line, "added route") || strings.HasPrefix(line, "changed") {
						bad = append(bad, line)
					}
				}
				if len(bad) > 0 {
					res.Violate("unauthenticated-ping-changed-state:hello-request:after-refused-announcement-naming-the-address",
						fmt.Sprintf("after the victim refused an announcement whose hop record named %s under a peer's key, a hello request claiming that address (that key in the header, signed with it) changed the victim's state: %s", unknown.IP, strings.Join(bad[:min(len(bad), 3)], "; ")),
						map[string]any{"case_id": "poison-then-forge"})
					return
				}
				settle()
				res.Case("hello-request|after-refused-announcement-naming-the-address|src", true)
				res.Count("poison_then_forge_refused", 1)
				break
			}
		}
	}
	// A quiet router: node 3 only ever sends announcements and error pings, and the victim never sends it a
	// signed frame in return. Its announcement, replayed after newer frames - the last one a disconnect, so that a
	// second handling would be visible - must not be handled again.
	{
		const Q = 3
		byName := map[string]pingKind{}
		for _, k := range kinds() {
			byName[k.name] = k
		}
		src := ms.Nodes[Q].ID.IP
		var first []byte
		for step, kn := range []string{"announce", "error-generic", "error-unknown-code", "disconnect-as-hop-ping"} {
			time.Sleep(2 * time.Millisecond)
			held, err := sc.intercept(func() error { return byName[kn].emit(sc, Q) })
			if err != nil {
				continue
			}
			for _, p := range held {
				if netip.AddrFrom16([16]byte(p.Data[16:32])) != src {
					ms.DeliverOn(p, V, p.From)
					continue
				}
				deliver(p.Data, p.From)
				if first == nil && step == 0 {
					first = append([]byte(nil), p.Data...)
				}
			}
			settle()
		}
		if first != nil {
			before := sc.snapshot()
			deliver(first, Q)
			if len(ms.Panics) > 0 {
				res.Violate("handler-panic", fmt.Sprintf("replay from a quiet router: %v", ms.Panics[0]), nil)
				return
			}
			if d := diff(before, sc.snapshot()); len(d) > 0 {
				res.Violate("unauthenticated-ping-changed-state:announce:replay-of-older-frame-from-quiet-router",
					fmt.Sprintf("an announcement of node %d replayed after newer signed frames of that router (the last one a disconnect that removed its routes) (to which the victim itself never sent a signed frame) changed the victim's state: %s", Q, strings.Join(d[:min(len(d), 4)], "; ")),
					map[string]any{"case_id": "quiet-router-replay"})
				return
			}
			settle()
			res.Case("announce|replay-of-older-frame-from-quiet-router|whole-frame", true)
			res.Count("quiet_router_replays_refused", 1)
		}
	}
	// Reflection: what the victim itself signed and sent comes back to it - as it is, and (announcements) extended
	// by a genuine hop record of the neighbour it was sent to, which is what that neighbour would attach when passing
	// it on to a third router. Its own old frames are replays like any other: they change nothing at the victim.
	{
		var own []*vmesh.Packet
		prev := ms.OnSend
		ms.OnSend = func(p *vmesh.Packet) {
			if p.From == V && netip.AddrFrom16([16]byte(p.Data[16:32])) == v.ID.IP {
				cp := *p
				cp.Data = append([]byte(nil), p.Data...)
				own = append(own, &cp)
			}
			if prev != nil {
				prev(p)
			}
		}
		time.Sleep(2 * time.Millisecond)
		for _, l := range v.Links {
			_ = v.Inst.RouterV.AnnouncePing.Send(l.Peer())
		}
		_, _, _ = v.Inst.RouterV.PingPong.Send(ms.Nodes[1].ID.IP, false, 0)
		ms.OnSend = prev
		settle()
		for _, p := range own {
			variants := [][]byte{p.Data}
			names := []string{"as-sent"}
			Q := p.Data
			mi := 49 + int(Q[48])
			if len(Q) >= mi+2 && (Q[4] == byte(frame.RouterHopPing) || Q[4] == byte(frame.RouterHopPingDeprecated)) {
				end := mi + 2 + (int(Q[mi])<<8 | int(Q[mi+1])) + 64
				if end == len(Q) {
					K := ms.Nodes[p.To].ID
					back := v.Links[p.To]
					att := router.AnnouncePingAttachment{Router: K.PublicAddress, Delay: 3, ForwardLabel: 21, ReturnLabel: 22}
					if back != nil {
						att.ReturnLabel = back.SwitchLabel()
					}
					ab, _ := cbor.Marshal(att)
					ctx := make([]byte, 88)
					copy(ctx[:16], Q[16:32])
					copy(ctx[16:24], Q[8:16])
					copy(ctx[24:], Q[end-64:end])
					if sig, serr := K.SignWithContext(ab, ctx); serr == nil {
						variants = append(variants, append(append(append([]byte(nil), Q...), ab...), sig...))
						names = append(names, "with-a-genuine-hop-record-of-the-neighbour")
					}
				}
			}
			for i, d := range variants {
				before := sc.snapshot()
				deliver(d, p.To)
				if len(ms.Panics) > 0 {
					res.Violate("handler-panic", fmt.Sprintf("the victim's own frame reflected to it (%s): %v", names[i], ms.Panics[0]), nil)
					return
				}
				if df := diff(before, sc.snapshot()); len(df) > 0 {
					res.Violate("unauthenticated-ping-changed-state:own-frame-reflected:"+names[i],
						fmt.Sprintf("a frame of type %d that the victim itself had sent to node %d, delivered back to it over that link (%s), changed the victim's state: %s", Q[4], p.To, names[i], strings.Join(df[:min(len(df), 4)], "; ")),
						map[string]any{"case_id": "own-frame-reflected"})
					return
				}
				settle()
				res.Count("own_frames_reflected:"+names[i], 1)
				res.Case(fmt.Sprintf("own-frame-reflected|%d|%s", Q[4], names[i]), true)
			}
		}
	}
	res.Count("scenes_completed", 1)
}

// concurrentDuplicates: the router's frame handlers run in parallel. A genuine signed ping and exact copies of it
// are picked up by several workers at the same moment, at a router that knows the sender (stored record) but
// holds no live session for it (it was idle and the cleaner dropped the session), with the storage lookup slowed
// down a little (storage access is where workers really wait). Exactly one copy may be handled; every other one
// is a replay and must be refused like it is when the copies arrive one after the other.
func concurrentDuplicates(res *core.Result, r *rand.Rand, rounds int) {
	for round := 0; round < rounds; round++ {
		ids := []*m.Address{env.NewIdentity(r, nil), env.NewIdentity(r, nil)}
		ms, err := vmesh.Build(r, vmesh.Line(2), ids, vmesh.BuildOpts{Labels: vmesh.LabelsSmall, Introduce: true})
		if err != nil {
			res.Inconcl("concurrent duplicates: %v", err)
			return
		}
		v, x := ms.Nodes[0], ms.Nodes[1]
		// the victim has been idle towards X for hours: no live session, only the stored record
		v.Inst.StateV.VerifAdvanceTime(3 * time.Hour)
		v.Inst.StateV.VerifHousekeeping()
		if v.Inst.StateV.VerifHasSession(x.ID.IP) {
			res.Count("concurrent_duplicates_skipped_session_alive", 1)
			continue
		}
		kind := []string{"hello-request", "pong-request"}[round%2]
		switch kind {
		case "hello-request":
			_, err = env.Rekey(x.Inst, v.ID.IP)
		default:
			_, _, err = x.Inst.RouterV.PingPong.Send(v.ID.IP, true, 0)
		}
		if err != nil || ms.Pending() != 1 {
			res.Count("concurrent_duplicates_emit_failed", 1)
			for ms.Pending() > 0 {
				ms.Take(0)
			}
			continue
		}
		P := ms.Take(0).Data
		var emitted atomic.Int64
		ms.OnSend = func(p *vmesh.Packet) {
			if p.From == 0 {
				emitted.Add(1)
			}
		}
		v.Inst.SlowV.SetGetRouterDelay(time.Duration(5+r.IntN(20)) * time.Millisecond)
		const copies = 3
		var okCount atomic.Int64
		var wg sync.WaitGroup
		start := make(chan struct{})
		for g := 0; g < copies; g++ {
			wg.Add(1)
			go func() {
				defer wg.Done()
				<-start
				if herr, perr := ms.HandleAtRouter(0, 1, P); herr == nil && perr == nil {
					okCount.Add(1)
				}
			}()
		}
		close(start)
		wg.Wait()
		v.Inst.SlowV.SetGetRouterDelay(0)
		wit := map[string]any{"ping": kind, "copies": copies, "case_id": "concurrent-duplicates"}
		if len(ms.Panics) > 0 {
			res.Violate("handler-panic", fmt.Sprintf("copies of one %s handled in parallel: %v", kind, ms.Panics[0]), wit)
			return
		}
		if okCount.Load() > 1 {
			res.Violate("replayed-ping-handled:"+kind+":concurrent-copies", fmt.Sprintf("%d of %d exact copies of one genuine %s, picked up by parallel workers of a router without a live session for the sender, were all handled (the router answered %d time(s)); one after the other, every copy but the first is refused as a replay", okCount.Load(), copies, kind, emitted.Load()), wit)
			return
		}
		if okCount.Load() == 1 {
			res.Count("concurrent_duplicate_rounds_one_handled", 1)
		} else {
			res.Count("concurrent_duplicate_rounds_none_handled", 1)
		}
		res.Case("concurrent-duplicates|"+kind, true)
		for ms.Pending() > 0 {
			ms.Take(0)
		}
	}
}

func parallel(n int, fn func(w int)) { core.Parallel(n, fn) }

func run(c *core.Ctx) {
	res := c.Res
	n := c.Q(16, 160)
	const W = 16
	parallel(W, func(w int) {
		r := core.RNG(fmt.Sprintf("c07/%d", w))
		for i := w; i < n; i += W {
			runScene(res, r, c.Tier == core.Thorough && i%4 == 0)
		}
	})
	parallel(4, func(w int) {
		concurrentDuplicates(res, core.RNG(fmt.Sprintf("c07/concdup/%d", w)), c.Q(4, 40))
	})
	res.Require(res.Counter("concurrent_duplicate_rounds_one_handled") >= 4 || res.ViolationCount() > 0, "concurrent duplicate scenario: too few rounds in which one copy was handled")
	res.Sample(map[string]any{"ping": "hello-request from node 4 (two hops away)", "variants": []string{"bitflip at every byte", "source rewritten to nodes 1,2,3,5", "type switched", "replay-immediate", "replay-on-other-link", "replay-after-newer-frames"}})
	res.Sample(map[string]any{"ping": "disconnect-going-down from node 1", "positive_control": "only routes whose destination, next hop or path contains node 1 disappear; stored record of node 1 goes offline"})
	res.Assume("bookkeeping is excluded from the snapshot: existence of a bare stored record for a valid self-certifying identity, UsedAt/activity timestamps, error-ping rate limiter, hello/pong request bookkeeping")
	res.Assume("what the victim emits is not part of this property (forwarding of re-addressed frames is C10's business)")
	res.Require(res.Counter("scenes_completed") >= int64(n*3/4), "too few scenes completed")
}
