// Package c10: unicast delivery, bounded forwarding, content preservation.
package c10

import (
	"bytes"
	"fmt"
	"github.com/mycoria/mycoria/config"
	"math/rand/v2"
	"net/netip"
	"sync"
	"time"
	"verifharness/wire"

	"github.com/fxamacker/cbor/v2"

	"github.com/mycoria/mycoria/frame"
	"github.com/mycoria/mycoria/m"
	"github.com/mycoria/mycoria/mgr"
	"github.com/mycoria/mycoria/router"

	"verifharness/core"
	"verifharness/env"
	"verifharness/vmesh"
)

func init() {
	core.Register(&core.Prop{
		ID:    "C10",
		Level: "exploration",
		Rule: "(a) converged honest meshes (topologies as in C09): for every ordered router pair a real pong request and a harness-crafted probe ping (custom ping type registered on every router, sealed with the sender's real session, injected through RouteFrame) plus label-switched probes over the table's forward blocks; " +
			"(b) adversarial forwarding state: routing tables filled with cyclic/inconsistent/stale entries, dangling and looping label blocks, frames of every message type with TTL 1..255 injected at every router; " +
			"every link crossing is monitored for TTL decrease, TTL>0, crossing bound and byte preservation; non-trivial = probe crossing >= 2 links or adversarial frame forwarded >= 3 times; distinct by (mesh, pair, kind)",
		Run:              run,
		CrashIsViolation: true,
	})
}

const probeType = "c10probe"

type probeHandler struct {
	node int
	mu   *sync.Mutex
	hits *[]probeHit
}

type probeHit struct {
	node   int
	pingID uint64
	src    netip.Addr
}

func (h *probeHandler) Type() string { return probeType }
func (h *probeHandler) Handle(_ *mgr.WorkerCtx, f frame.Frame, hdr *router.PingHeader, _ []byte) error {
	h.mu.Lock()
	*h.hits = append(*h.hits, probeHit{node: h.node, pingID: hdr.PingID, src: f.SrcIP()})
	h.mu.Unlock()
	f.ReturnToPool()
	return nil
}
func (h *probeHandler) Clean(_ *mgr.WorkerCtx) error { return nil }

type idPool struct {
	ids []*m.Address
	r   *rand.Rand
}

func (p *idPool) get(n int) []*m.Address {
	for len(p.ids) < n {
		p.ids = append(p.ids, env.NewIdentity(p.r, nil))
	}
	return append([]*m.Address(nil), p.ids[:n]...)
}

// crossingMonitor checks every forwarding step.
type crossingMonitor struct {
	sig, msg string
	maxCross map[string]int
	initTTL  map[string]int
	injected map[string]bool
	forwards map[string]int
	// origTTL: frames a router originated itself, with the TTL it gave them
	origTTL map[string]int
}

func newMonitor() *crossingMonitor {
	return &crossingMonitor{maxCross: map[string]int{}, initTTL: map[string]int{}, forwards: map[string]int{}, injected: map[string]bool{}, origTTL: map[string]int{}}
}

func (cm *crossingMonitor) fail(sig, msg string) {
	if cm.sig == "" {
		cm.sig, cm.msg = sig, msg
	}
}

func (cm *crossingMonitor) onForward(node int, in, out *vmesh.Packet) {
	a, b := in.Data, out.Data
	cm.forwards[vmesh.Key(a)]++
	if b[1] >= a[1] {
		cm.fail("ttl-not-decreased", fmt.Sprintf("node %d forwarded a frame (type %d) with TTL %d, it arrived with TTL %d", node, a[4], b[1], a[1]))
		return
	}
	if b[1] == 0 {
		cm.fail("forwarded-with-ttl-zero", fmt.Sprintf("node %d forwarded a frame (type %d) with TTL 0", node, a[4]))
		return
	}
	hop := a[4] == byte(frame.RouterHopPing) || a[4] == byte(frame.RouterHopPingDeprecated)
	swLen := int(a[48])
	cmpLen := len(a)
	if hop {
		// flooded hop pings get a new appendix by design: compare up to the appendix
		mi := 49 + swLen
		if len(a) < mi+2 {
			return
		}
		cmpLen = mi + 2 + (int(a[mi])<<8 | int(a[mi+1])) + 64
		if cmpLen > len(a) || cmpLen > len(b) {
			cmpLen = min(len(a), len(b))
		}
	} else if len(a) != len(b) {
		cm.fail("forwarding-changed-length", fmt.Sprintf("node %d forwarded a %d-byte frame (type %d) as %d bytes", node, len(a), a[4], len(b)))
		return
	}
	for i := 0; i < cmpLen; i++ {
		if a[i] == b[i] || i == 1 || i == 2 {
			continue
		}
		if swLen > 0 && i >= 49 && i < 49+swLen {
			continue
		}
		cm.fail("forwarding-changed-bytes", fmt.Sprintf("node %d changed byte %d of a forwarded frame (type %d, switch block %d bytes): %02x -> %02x", node, i, a[4], swLen, a[i], b[i]))
		return
	}
}

func (cm *crossingMonitor) onSend(p *vmesh.Packet) {
	k := vmesh.Key(p.Data)
	if p.Data[1] == 0 && !(cm.injected[k] && cm.maxCross[k] == 0) { // the attacker's own injection may carry TTL 0
		cm.fail("sent-with-ttl-zero", fmt.Sprintf("a frame (type %d) was put on link %d->%d with TTL 0", p.Data[4], p.From, p.To))
	}
	if t0, ok := cm.origTTL[k]; ok && cm.maxCross[k] == 0 && int(p.Data[1]) >= t0 {
		cm.fail("ttl-not-decreased", fmt.Sprintf("a frame (type %d) a router originated with TTL %d went onto its first link %d->%d with TTL %d", p.Data[4], t0, p.From, p.To, p.Data[1]))
	}
	// crossing bound, for frames whose initial TTL the harness registered
	if t, ok := cm.initTTL[k]; ok {
		cm.maxCross[k]++
		limit := t - 1
		if limit < 1 {
			limit = 1 // a frame injected with TTL 0: the injection itself is the only crossing allowed
		}
		if cm.maxCross[k] > limit && !(p.Data[4] == byte(frame.RouterHopPing) || p.Data[4] == byte(frame.RouterHopPingDeprecated)) {
			cm.fail("crossing-bound-exceeded", fmt.Sprintf("a frame injected with TTL %d crossed %d links", t, cm.maxCross[k]))
		}
	}
}

func buildPing(n *vmesh.Node, dst netip.Addr, pingType string, pingID uint64, followUp bool, body []byte) ([]byte, error) {
	hdr := router.PingHeader{PingID: pingID, PingType: pingType, FollowUp: followUp, AddrHash: n.ID.Hash, KeyType: n.ID.Type, PublicKey: n.ID.PublicKey}
	hd, err := cbor.Marshal(&hdr)
	if err != nil {
		return nil, err
	}
	out := append([]byte{1, byte(len(hd))}, hd...)
	return append(out, body...), nil
}

type pongObs struct {
	pingID uint64
	src    netip.Addr
	at     int
}

// partA: converged mesh, all ordered pairs.
func partA(res *core.Result, pool *idPool, r *rand.Rand, t *vmesh.Topology, labels vmesh.LabelMode, random bool, lite map[int]bool) {
	desc := fmt.Sprintf("%s labels=%d random-convergence=%v", t.Canon(), labels, random)
	if len(lite) > 0 {
		desc += fmt.Sprintf(" lite-mode-routers=%v", lite)
	}
	ms, err := vmesh.Build(r, t, pool.get(t.N), vmesh.BuildOpts{Labels: labels, Introduce: true, LiteNodes: lite})
	if err != nil {
		res.Inconcl("build: %v", err)
		return
	}
	var mu sync.Mutex
	var hits []probeHit
	for _, n := range ms.Nodes {
		if err := n.Inst.RouterV.RegisterPingHandler(&probeHandler{node: n.Idx, mu: &mu, hits: &hits}); err != nil {
			res.Inconcl("register probe handler: %v", err)
			return
		}
	}
	if err := ms.Converge(r, random); err != nil {
		res.Inconcl("mesh did not converge (C09's business): %v", err)
		return
	}
	if r.IntN(2) == 0 {
		// the routers have been up for a while: the ten-minute housekeeping of the routing table ran (once or twice)
		// at every router before the traffic starts
		desc += " table-housekeeping-before-traffic"
		for k := 1 + r.IntN(2); k > 0; k-- {
			for _, n := range ms.Nodes {
				if n.Inst != nil {
					n.Inst.RoutingTable().Clean()
				}
			}
		}
		res.Count("meshes_with_table_housekeeping_before_traffic", 1)
	}
	cm := newMonitor()
	ms.OnForward = cm.onForward
	ms.OnSend = cm.onSend
	var pongs []pongObs
	ms.OnEscalate = func(node int, d []byte) {
		// record pong responses arriving anywhere
		if d[4] != byte(frame.RouterPing) {
			return
		}
		sw := int(d[48])
		mi := 49 + sw
		if len(d) < mi+4 {
			return
		}
		ml := int(d[mi])<<8 | int(d[mi+1])
		msg := d[mi+2 : min(len(d), mi+2+ml)]
		if len(msg) < 3 || int(msg[1])+2 > len(msg) {
			return
		}
		var hdr router.PingHeader
		if cbor.Unmarshal(msg[2:2+int(msg[1])], &hdr) != nil {
			return
		}
		if hdr.PingType == "pong" && hdr.FollowUp {
			pongs = append(pongs, pongObs{pingID: hdr.PingID, src: netip.AddrFrom16([16]byte(d[16:32])), at: node})
		}
	}
	dist := map[int][]int{}
	for a := 0; a < t.N; a++ {
		dist[a] = t.BFS(a)
	}
	wit := func(a, b int, kind string) map[string]any {
		return map[string]any{"mesh": desc, "edges": t.Edges, "from": a, "to": b, "kind": kind, "case_id": fmt.Sprintf("%s|%d>%d|%s", desc, a, b, kind)}
	}
	for a := 0; a < t.N; a++ {
		for b := 0; b < t.N; b++ {
			if a == b {
				continue
			}
			A, B := ms.Nodes[a], ms.Nodes[b]
			// Every router on the way has just tried to build a frame it cannot build (a local packet beyond the
			// message limit, an oversized switch block): a refused build must leave nothing behind that the frames
			// handled next could pick up.
			if (a+b)%3 == 0 {
				for _, nd := range ms.Nodes {
					if _, err := nd.Inst.BuilderV.NewFrameV1(nd.ID.IP, A.ID.IP, frame.NetworkTraffic, nil, make([]byte, 10001+r.IntN(2000)), nil); err == nil {
						res.Count("oversized_local_builds_accepted", 1)
					}
					if _, err := nd.Inst.BuilderV.NewFrameV1(nd.ID.IP, B.ID.IP, frame.RouterPing, make([]byte, 256), []byte("x"), nil); err == nil {
						res.Count("oversized_local_builds_accepted", 1)
					}
				}
				res.Count("pairs_after_refused_local_builds", 1)
			}
			// (1) custom probe ping, routed by destination address.
			pingID := r.Uint64() | 1
			data, err := buildPing(A, B.ID.IP, probeType, pingID, false, []byte{0xA1, 0x61, 0x78, 0x01})
			if err != nil {
				res.Inconcl("build ping: %v", err)
				return
			}
			f, err := A.Inst.BuilderV.NewFrameV1(A.ID.IP, B.ID.IP, frame.RouterPing, nil, data, nil)
			if err == nil {
				err = f.Seal(A.Inst.StateV.GetSession(B.ID.IP))
			}
			if err != nil {
				res.Inconcl("probe frame: %v", err)
				return
			}
			fd, _ := f.FrameDataWithMargins(0, 0)
			cm.initTTL[vmesh.Key(fd)] = int(fd[1])
			hits = hits[:0]
			if err := A.Inst.RouterV.RouteFrame(f); err != nil {
				res.Violate("request-not-routable", fmt.Sprintf("%s: node %d cannot route a request to node %d in a converged mesh: %v", desc, a, b, err), wit(a, b, "probe"))
				return
			}
			ms.Drain(vmesh.FIFO, 5000)
			var at []int
			for _, h := range hits {
				if h.pingID == pingID {
					at = append(at, h.node)
				}
			}
			if len(at) != 1 || at[0] != b {
				res.Violate("request-misdelivered", fmt.Sprintf("%s: request %d->%d (distance %d) was handed to the handlers of nodes %v", desc, a, b, dist[a][b], at), wit(a, b, "probe"))
				return
			}
			// (2) real pong request / reply.
			pongs = pongs[:0]
			notify, pid, err := A.Inst.RouterV.PingPong.Send(B.ID.IP, false, 0)
			if err != nil {
				res.Violate("request-not-routable", fmt.Sprintf("%s: node %d cannot send a pong request to node %d: %v", desc, a, b, err), wit(a, b, "pong"))
				return
			}
			ms.Drain(vmesh.FIFO, 5000)
			replied := false
			select {
			case <-notify:
				replied = true
			default:
			}
			for _, p := range pongs {
				if p.pingID == pid && p.src != B.ID.IP {
					res.Violate("reply-from-wrong-router", fmt.Sprintf("%s: the pong request %d->%d was answered by %s (node %d)", desc, a, b, p.src, ms.IndexOf(p.src)), wit(a, b, "pong"))
					return
				}
			}
			if !replied {
				res.Violate("reply-did-not-arrive", fmt.Sprintf("%s: the pong reply %d->%d (distance %d) did not reach the requester", desc, b, a, dist[a][b]), wit(a, b, "pong"))
				return
			}
			if cm.sig != "" {
				res.Violate(cm.sig, fmt.Sprintf("%s: pair %d->%d: %s", desc, a, b, cm.msg), wit(a, b, "crossing"))
				return
			}
			res.Count("pairs_request_and_reply_ok", 1)
			res.Case(fmt.Sprintf("%s|%d>%d", desc, a, b), dist[a][b] >= 2)
			// pace the signed timestamps: one millisecond per pair keeps per-source timestamps strictly increasing
			time.Sleep(50 * time.Microsecond)
		}
	}
	// (3) label-switched probes with byte preservation monitored.
	for a := 0; a < t.N; a++ {
		for b := 0; b < t.N; b++ {
			if a == b {
				continue
			}
			A, B := ms.Nodes[a], ms.Nodes[b]
			e, _ := A.Inst.RouterV.Table().LookupNearest(B.ID.IP)
			if e == nil || len(e.Path.Hops) < 2 || len(e.Path.ForwardBlock) == 0 {
				continue
			}
			block := append([]byte(nil), e.Path.ForwardBlock...)
			first, err := m.NextRotateSwitchBlock(block, 0)
			if err != nil || first == 0 {
				continue
			}
			payload := core.RandBytes(r, 40+r.IntN(200))
			f, err := A.Inst.BuilderV.NewFrameV1(A.ID.IP, B.ID.IP, frame.SessionData, block, payload, nil)
			if err != nil {
				continue
			}
			fd, _ := f.FrameDataWithMargins(0, 0)
			key := vmesh.Key(fd)
			orig := append([]byte(nil), fd...)
			cm.initTTL[key] = int(fd[1])
			var arrived [][]byte
			var arrivedAt []int
			prev := ms.OnEscalate
			ms.OnEscalate = func(node int, d []byte) {
				if vmesh.Key(d) == key {
					arrived = append(arrived, d)
					arrivedAt = append(arrivedAt, node)
				}
			}
			_ = A.Inst.SwitchV.ForwardByLabel(f, first)
			ms.Drain(vmesh.FIFO, 500)
			ms.OnEscalate = prev
			if len(arrived) != 1 || arrivedAt[0] != b {
				res.Violate("switched-frame-misdelivered", fmt.Sprintf("%s: label-switched frame %d->%d escalated at %v", desc, a, b, arrivedAt), wit(a, b, "switched"))
				return
			}
			got := arrived[0]
			sw := int(orig[48])
			for i := range orig {
				if i == 1 || i == 2 || (i >= 49 && i < 49+sw) {
					continue
				}
				if i >= len(got) || got[i] != orig[i] {
					res.Violate("forwarding-changed-bytes", fmt.Sprintf("%s: label-switched frame %d->%d arrived with byte %d changed", desc, a, b, i), wit(a, b, "switched"))
					return
				}
			}
			if cm.sig != "" {
				res.Violate(cm.sig, fmt.Sprintf("%s: switched %d->%d: %s", desc, a, b, cm.msg), wit(a, b, "switched"))
				return
			}
			res.Count("switched_frames_byte_identical", 1)
		}
	}
	res.Count("meshes_converged", 1)
}

// partB: adversarial tables and label blocks, TTL bound.
func partB(res *core.Result, pool *idPool, r *rand.Rand, nInject int) {
	n := 3 + r.IntN(6)
	var t *vmesh.Topology
	switch r.IntN(3) {
	case 0:
		t = vmesh.Ring(n)
	case 1:
		t = vmesh.RandomSparse(r, n)
	default:
		t = vmesh.Grid(2, (n+1)/2)
	}
	desc := fmt.Sprintf("adversarial %s", t.Canon())
	ms, err := vmesh.Build(r, t, pool.get(t.N), vmesh.BuildOpts{Labels: vmesh.LabelsMixed, Introduce: true})
	if err != nil {
		res.Inconcl("build: %v", err)
		return
	}
	// Phantom destinations and cyclic/inconsistent routes.
	phantoms := make([]netip.Addr, 6)
	for i := range phantoms {
		var a [16]byte
		copy(a[:], core.RandBytes(r, 16))
		a[0], a[1] = 0xfd, 0x10|byte(r.IntN(0x60))
		phantoms[i] = netip.AddrFrom16(a)
	}
	for _, nd := range ms.Nodes {
		nb := t.Neighbours(nd.Idx)
		for _, ph := range phantoms {
			// next hop: "clockwise" neighbour (cycles in rings), or random neighbour (inconsistent)
			next := nb[(nd.Idx+1)%len(nb)]
			if r.IntN(3) == 0 {
				next = nb[r.IntN(len(nb))]
			}
			relay := ms.Nodes[next].ID.IP
			_, _ = nd.Inst.RouterV.Table().AddRoute(m.RoutingTableEntry{
				DstIP: ph, NextHop: relay, Source: m.RouteSourceGossip,
				Path: m.SwitchPath{Hops: []m.SwitchHop{
					{Router: nd.ID.IP, ForwardLabel: nd.Links[next].SwitchLabel()},
					{Router: relay, ForwardLabel: 9, ReturnLabel: 9},
					{Router: ph, ReturnLabel: 9},
				}},
			})
		}
	}
	cm := newMonitor()
	ms.OnForward = cm.onForward
	ms.OnSend = cm.onSend
	types := []frame.MessageType{0, 1, 2, 3, 8, 16, 17, 5, 255}
	for i := 0; i < nInject; i++ {
		at := r.IntN(t.N)
		nd := ms.Nodes[at]
		nb := t.Neighbours(at)
		via := nb[r.IntN(len(nb))]
		mt := types[r.IntN(len(types))]
		ttl := 1 + r.IntN(255)
		if r.IntN(3) == 0 {
			ttl = r.IntN(5) // includes frames that arrive with TTL 0 (no honest router emits them; an attacker can)
		}
		dst := phantoms[r.IntN(len(phantoms))]
		if r.IntN(4) == 0 {
			dst = ms.Nodes[r.IntN(t.N)].ID.IP
		}
		var block []byte
		if r.IntN(2) == 0 {
			// label block: existing labels (possibly looping back and forth), dangling labels, no terminator
			cur := at
			for k := 0; k < 1+r.IntN(120); k++ {
				if r.IntN(8) == 0 {
					block = appendUvarint(block, uint64(1+r.IntN(16000))) // dangling
					continue
				}
				nbs := t.Neighbours(cur)
				nx := nbs[r.IntN(len(nbs))]
				block = appendUvarint(block, uint64(ms.Nodes[cur].Links[nx].SwitchLabel()))
				cur = nx
				if len(block) > 250 {
					break
				}
			}
			pad := r.IntN(20)
			for k := 0; k < pad && len(block) < 255; k++ {
				block = append(block, 0)
			}
			if len(block) > 255 {
				block = block[:255]
			}
		}
		src := ms.Nodes[via].ID.IP
		if r.IntN(3) == 0 {
			src = phantoms[r.IntN(len(phantoms))]
		}
		f, err := nd.Inst.BuilderV.NewFrameV1(src, dst, mt, block, core.RandBytes(r, 20+r.IntN(100)), nil)
		if err != nil {
			continue
		}
		f.SetTTL(uint8(ttl))
		fd, _ := f.FrameDataWithMargins(0, 0)
		data := append([]byte(nil), fd...)
		key := vmesh.Key(data)
		if i%4 == 3 && ttl >= 2 && len(block) == 0 && dst != nd.ID.IP {
			// a frame this router originates itself (no receive link), handed to its own routing: the originating
			// hop is a forwarding step like any other - first crossing below the initial TTL, at most TTL-1 crossings
			g, gerr := nd.Inst.BuilderV.NewFrameV1(nd.ID.IP, dst, mt, nil, core.RandBytes(r, 20+r.IntN(100)), nil)
			f.ReturnToPool()
			if gerr != nil {
				continue
			}
			g.SetTTL(uint8(ttl))
			gd, _ := g.FrameDataWithMargins(0, 0)
			key = vmesh.Key(gd)
			data = append([]byte(nil), gd...)
			cm.initTTL[key] = ttl
			cm.origTTL[key] = ttl
			if err := nd.Inst.RouterV.RouteFrame(g); err != nil {
				g.ReturnToPool()
				continue
			}
			res.Count("originated_frames_routed", 1)
		} else {
			f.ReturnToPool()
			cm.initTTL[key] = ttl + 1 // the injection itself is the first crossing (via -> at)
			cm.injected[key] = true
			p := ms.Inject(via, at, data)
			ms.Take(ms.Pending() - 1)
			ms.Deliver(p)
		}
		steps, drained := ms.Drain(vmesh.FIFO, 2000)
		if !drained {
			res.Violate("forwarding-does-not-terminate", fmt.Sprintf("%s: a frame injected with TTL %d is still being forwarded after %d deliveries", desc, ttl, steps), map[string]any{"mesh": desc, "ttl": ttl, "type": mt, "block": fmt.Sprintf("%x", block)})
			return
		}
		if len(ms.Panics) > 0 {
			res.Violate("handler-panic", fmt.Sprintf("%s: %v (frame type %d, ttl %d, switch block %x)", desc, ms.Panics[0], mt, ttl, block), map[string]any{"mesh": desc, "frame": fmt.Sprintf("%x", data)})
			return
		}
		if cm.sig != "" {
			res.Violate(cm.sig, fmt.Sprintf("%s: injected frame (type %d, TTL %d, switch block %d bytes): %s", desc, mt, ttl, len(block), cm.msg),
				map[string]any{"mesh": desc, "edges": t.Edges, "frame": fmt.Sprintf("%x", data), "at": at, "via": via})
			return
		}
		fw := cm.forwards[key]
		if fw >= 3 {
			res.Count("adversarial_frames_forwarded_3plus", 1)
		}
		if fw > int(res.Counter("max_forwards_of_one_frame")) {
			res.Count("max_forwards_of_one_frame", int64(fw)-res.Counter("max_forwards_of_one_frame"))
		}
		res.Case(fmt.Sprintf("%s|%d|%d|%d|%x", desc, mt, ttl, len(block), r.Uint64()), fw >= 3)
	}
}

// partC: originated frames of every size around the pooled-buffer tiers must leave the origin (with the link
// margins the real writer needs) and arrive: requests (signed and encrypted) and traffic-class frames over 2 hops.
func partC(res *core.Result, pool *idPool, r *rand.Rand, sizes []int) {
	t := vmesh.Line(3)
	ms, err := vmesh.Build(r, t, pool.get(3), vmesh.BuildOpts{Labels: vmesh.LabelMode(1), Introduce: true})
	if err != nil {
		res.Inconcl("build: %v", err)
		return
	}
	var mu sync.Mutex
	var hits []probeHit
	for _, n := range ms.Nodes {
		if err := n.Inst.RouterV.RegisterPingHandler(&probeHandler{node: n.Idx, mu: &mu, hits: &hits}); err != nil {
			res.Inconcl("register probe handler: %v", err)
			return
		}
	}
	if err := ms.Converge(r, false); err != nil {
		res.Inconcl("mesh did not converge (C09's business): %v", err)
		return
	}
	A, B := ms.Nodes[0], ms.Nodes[2]
	if _, err := A.Inst.RouterV.HelloPing.Send(B.ID.IP); err != nil {
		res.Inconcl("hello: %v", err)
		return
	}
	ms.Drain(vmesh.FIFO, 200)
	sess := A.Inst.StateV.GetSession(B.ID.IP)
	if sess == nil || !sess.Encryption().IsSetUp() {
		res.Inconcl("size sweep: no end-to-end keys")
		return
	}
	for _, n := range sizes {
		for _, mt := range []frame.MessageType{frame.RouterPing, frame.RouterCtrl} {
			pingID := r.Uint64() | 1
			pad, _ := cbor.Marshal(map[string][]byte{"x": make([]byte, n)})
			data, err := buildPing(A, B.ID.IP, probeType, pingID, false, pad)
			if err != nil || len(data) > 10000 {
				continue
			}
			f, err := A.Inst.BuilderV.NewFrameV1(A.ID.IP, B.ID.IP, mt, nil, data, nil)
			if err == nil {
				err = f.Seal(sess)
			}
			if err != nil {
				res.Inconcl("size sweep frame: %v", err)
				return
			}
			hits = hits[:0]
			lost := ms.LostForMargins
			if err := A.Inst.RouterV.RouteFrame(f); err != nil {
				res.Violate("request-not-routable", fmt.Sprintf("size sweep: node 0 cannot route a %d-byte request (type %d): %v", len(data), mt, err), map[string]any{"message_len": len(data), "type": mt})
				return
			}
			ms.Drain(vmesh.FIFO, 100)
			ok := false
			for _, h := range hits {
				if h.pingID == pingID && h.node == 2 {
					ok = true
				}
			}
			if !ok {
				why := ""
				if ms.LostForMargins > lost {
					why = " (the frame lacks the margins the link writer needs for its header and MAC, so the real writer drops it)"
				}
				res.Violate("request-misdelivered:size", fmt.Sprintf("size sweep: an originated request with a %d-byte message (type %d) never reached its destination 2 hops away%s", len(data), mt, why),
					map[string]any{"message_len": len(data), "type": mt, "case_id": fmt.Sprintf("size|%d|%d", mt, n)})
				return
			}
			res.Case(fmt.Sprintf("size|%d|%d", mt, len(data)), true)
			res.Count("size_sweep_requests_delivered", 1)
		}
	}
}

// partD: the last hop of every delivery is a real link: frames handed to a real link (real writer, real reader,
// link-layer sealing) reach the peer's frame handler byte-identical and in order, also when the byte stream
// arrives in small pieces (TCP segment boundaries).
func partD(res *core.Result, r *rand.Rand, chunk int) {
	idA, idB := env.NewIdentity(r, nil), env.NewIdentity(r, nil)
	a, b := wire.NewRouter(idA, config.Router{}), wire.NewRouter(idB, config.Router{})
	w := wire.New()
	ra, rb, ok := wire.Handshake(w, a, b, 10*time.Second)
	if !ok || ra.Err != nil || rb.Err != nil || ra.Link == nil {
		res.Inconcl("real link did not come up: %v %v", ra.Err, rb.Err)
		return
	}
	defer func() {
		ra.Link.Close(nil)
		if rb.Link != nil {
			rb.Link.Close(nil)
		}
		w.A.Close()
		w.B.Close()
	}()
	w.SetReadChunk(wire.AtoB, chunk)
	var want [][]byte
	for i, n := range []int{40, 70, 500, 530, 580, 1500, 1590, 4000, 5050, 9000, 61, 62, 63, 64, 65} {
		f, err := a.Inst.BuilderV.NewFrameV1(idA.IP, idB.IP, frame.SessionData, nil, append([]byte(fmt.Sprintf("c10-real-link-%03d-", i)), core.RandBytes(r, n)...), nil)
		if err != nil {
			continue
		}
		d, _ := f.FrameDataWithMargins(0, 0)
		want = append(want, append([]byte(nil), d...))
		if err := ra.Link.Send(f); err != nil {
			res.Violate("real-link-send-failed", fmt.Sprintf("handing a %d-byte frame to an established link failed: %v", len(d), err), nil)
			return
		}
	}
	for i, wd := range want {
		select {
		case f := <-b.Upstream:
			d, _ := f.FrameDataWithMargins(0, 0)
			same := bytes.Equal(d, wd)
			f.ReturnToPool()
			if !same {
				res.Violate("real-link-frame-differs", fmt.Sprintf("stream delivered in pieces of %d bytes: frame %d arrived changed or out of order", chunk, i), map[string]any{"chunk": chunk, "case_id": fmt.Sprintf("real-link|%d", chunk)})
				return
			}
		case <-time.After(10 * time.Second):
			res.Violate("real-link-frame-lost", fmt.Sprintf("stream delivered in pieces of %d bytes: frame %d of %d (%d bytes) never reached the peer's frame handler although no byte was altered (link closing: %v)", chunk, i, len(want), len(wd), ra.Link.IsClosing()),
				map[string]any{"chunk": chunk, "case_id": fmt.Sprintf("real-link|%d", chunk)})
			return
		}
	}
	res.Count("real_link_frames_delivered", int64(len(want)))
	res.Case(fmt.Sprintf("real-link|chunk%d", chunk), true)
}

func appendUvarint(b []byte, v uint64) []byte {
	for v >= 0x80 {
		b = append(b, byte(v)|0x80)
		v >>= 7
	}
	return append(b, byte(v))
}

func parallel(n int, fn func(w int)) { core.Parallel(n, fn) }

func run(c *core.Ctx) {
	res := c.Res
	const W = 16
	rTop := core.RNG("c10/topologies")
	topos := []*vmesh.Topology{vmesh.Line(2), vmesh.Line(4), vmesh.Line(7), vmesh.Line(16), vmesh.Ring(3), vmesh.Ring(6), vmesh.Ring(11), vmesh.Star(8), vmesh.Tree(10), vmesh.Tree(16), vmesh.Grid(3, 3), vmesh.Grid(4, 4)}
	nMesh := c.Q(20, 500)
	for len(topos) < nMesh {
		topos = append(topos, vmesh.RandomSparse(rTop, 2+rTop.IntN(15)))
	}
	parallel(W, func(w int) {
		r := core.RNG(fmt.Sprintf("c10/a/%d", w))
		pool := &idPool{r: core.RNG(fmt.Sprintf("c10/ids/%d", w))}
		for i := w; i < len(topos); i += W {
			partA(res, pool, r, topos[i], vmesh.LabelMode(i%3), i%2 == 1, nil)
		}
		// a lite-mode router in the middle: its neighbours are all direct peers of it (announcements are not
		// forwarded TO lite routers, so longer chains behind one do not converge by design), and routes between
		// them lead through it
		if w < 4 {
			t := []*vmesh.Topology{vmesh.Line(3), vmesh.Star(4), vmesh.Star(6), vmesh.Line(3)}[w]
			center := 0
			if t.Name == "line" {
				center = 1
			}
			partA(res, pool, r, t, vmesh.LabelMode(w%3), w%2 == 1, map[int]bool{center: true})
			res.Count("meshes_with_lite_relay", 1)
		}
	})
	nAdvMeshes := c.Q(32, 800)
	perMesh := c.Q(80, 150)
	parallel(W, func(w int) {
		r := core.RNG(fmt.Sprintf("c10/b/%d", w))
		pool := &idPool{r: core.RNG(fmt.Sprintf("c10/idsb/%d", w))}
		for i := w; i < nAdvMeshes; i += W {
			partB(res, pool, r, perMesh)
		}
	})
	// size sweep around every pooled tier (600/1600/5100/9600 minus headers and margins), all sizes in thorough
	var sizes []int
	for _, edge := range []int{600, 1600, 5100, 9600} {
		for n := edge - 260; n <= edge+20; n++ {
			if n > 0 && (c.Tier == core.Thorough || n%3 == 0 || (n > edge-200 && n < edge-90)) {
				sizes = append(sizes, n)
			}
		}
	}
	parallel(4, func(w int) {
		var part []int
		for i := w; i < len(sizes); i += 4 {
			part = append(part, sizes[i])
		}
		partC(res, &idPool{r: core.RNG(fmt.Sprintf("c10/idsc/%d", w))}, core.RNG(fmt.Sprintf("c10/c/%d", w)), part)
	})
	for _, chunk := range []int{0, 1, 2, 3, 5, 1400} {
		partD(res, core.RNG(fmt.Sprintf("c10/d/%d", chunk)), chunk)
	}
	res.Sample(map[string]any{"part": "a", "mesh": "grid4x4", "pair": "0->15", "probes": []string{"custom ping via RouteFrame", "real pong request/reply", "label-switched frame over the table's forward block"}})
	res.Sample(map[string]any{"part": "b", "mesh": "ring of 7 with every route to a phantom destination pointing clockwise", "frame": "type 17, TTL 200, no switch block"})
	res.Assume("meshes are converged by the real announcement code first (C09); links are lossless")
	res.Assume("flooded hop pings get a new appendix by design; for them bytes are compared up to the appendix")
	res.Require(res.Counter("pairs_request_and_reply_ok") >= 500, "fewer than 500 ordered pairs exercised")
	res.Require(res.Counter("size_sweep_requests_delivered") >= 200, "size sweep delivered fewer than 200 requests")
	res.Require(res.Counter("adversarial_frames_forwarded_3plus") >= 50, "fewer than 50 adversarial frames were forwarded 3+ times")
}
