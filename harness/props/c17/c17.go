// Package c17: frame copies and buffer reuse are exact and isolated.
package c17

import (
	"bytes"
	"encoding/binary"
	"fmt"
	"math/rand/v2"
	"net"
	"net/netip"
	"strings"
	"sync"
	"sync/atomic"
	"time"
	"unsafe"

	"github.com/fxamacker/cbor/v2"

	"github.com/mycoria/mycoria/frame"
	"github.com/mycoria/mycoria/m"
	"github.com/mycoria/mycoria/router"

	"verifharness/core"
	"verifharness/env"
	"verifharness/vmesh"
)

func init() {
	core.Register(&core.Prop{
		ID:    "C17",
		Level: "exploration",
		Rule: "seeded operation sequences (new / parse on pooled slices / clone / reply / set-appendix shrink+grow / switch-block, TTL, flag edits / release / margin changes) " +
			"on one shared frame.Builder with sizes on and around every pooled tier boundary; after every operation every live frame is compared with a shadow image and " +
			"new/recycled frames are searched for tags, addresses and link references of released frames; non-trivial = a frame was created on a recycled struct or slice while another frame was live; distinct by operation sequence",
		Run:              run,
		HasRacePart:      true,
		RaceAnchors:      []string{`frame\.\(\*FrameV1\)`, `frame\.\(\*Builder\)`},
		CrashIsViolation: true,
	})
}

type fakeLink struct{ id int }

func (l *fakeLink) String() string                              { return fmt.Sprintf("fakelink-%d", l.id) }
func (l *fakeLink) Peer() netip.Addr                            { return netip.Addr{} }
func (l *fakeLink) SwitchLabel() m.SwitchLabel                  { return m.SwitchLabel(l.id) }
func (l *fakeLink) PeeringURL() *m.PeeringURL                   { return nil }
func (l *fakeLink) Outgoing() bool                              { return false }
func (l *fakeLink) SendPriority(f frame.Frame) error            { return nil }
func (l *fakeLink) Send(f frame.Frame) error                    { return nil }
func (l *fakeLink) LocalAddr() net.Addr                         { return nil }
func (l *fakeLink) RemoteAddr() net.Addr                        { return nil }
func (l *fakeLink) Latency() uint16                             { return 0 }
func (l *fakeLink) FlowControlIndicator() frame.FlowControlFlag { return 0 }
func (l *fakeLink) IsClosing() bool                             { return false }

var tiers = []int{600, 1600, 5100, 9600, 65675}

var msgTypes = []frame.MessageType{0, 1, 2, 3, 8, 16, 17}

type shadow struct {
	id     int
	f      frame.Frame
	img    []byte // expected FrameDataWithMargins(0,0)
	src    netip.Addr
	dst    netip.Addr
	swLen  int
	msgLen int
	auth   int
	link   frame.LinkAccessor
	tag    [8]byte
	// ownTags: every tag this frame's buffer has held since it was created (own
	// leftovers in the buffer are not bytes of a released frame).
	ownTags map[[8]byte]bool
}

func (s *shadow) own(t [8]byte) {
	if s.ownTags == nil {
		s.ownTags = map[[8]byte]bool{}
	}
	s.ownTags[t] = true
}

func (s *shadow) apxIndex() int { return 49 + s.swLen + 2 + s.msgLen + s.auth }

type retInfo struct {
	frame int
	tag   [8]byte
}

type world struct {
	res               *core.Result
	r                 *rand.Rand
	b                 *frame.Builder
	live              []*shadow
	nextID            int
	trace             []string
	retired           map[uint64]retInfo // 8-byte windows (all rotations) of released frames' tags
	retiredLinks      map[frame.LinkAccessor]int
	retiredAddrs      map[netip.Addr]int
	retiredBufs       map[uintptr]bool
	retiredStructs    map[frame.Frame]bool
	recycledWhileLive bool
	failed            bool
	prefix            string
}

func newWorld(res *core.Result, r *rand.Rand, b *frame.Builder, prefix string) *world {
	return &world{res: res, r: r, b: b, prefix: prefix,
		retired: map[uint64]retInfo{}, retiredLinks: map[frame.LinkAccessor]int{}, retiredAddrs: map[netip.Addr]int{},
		retiredBufs: map[uintptr]bool{}, retiredStructs: map[frame.Frame]bool{}}
}

func (w *world) fail(sig, desc string) {
	if w.failed {
		return
	}
	w.failed = true
	tr := w.trace
	if len(tr) > 60 {
		tr = tr[len(tr)-60:]
	}
	w.res.Violate(sig, desc+" (after: "+strings.Join(tr[max(0, len(tr)-6):], " ; ")+")", map[string]any{"trace": tr})
}

func (w *world) tagBytes(tag [8]byte, n int) []byte {
	out := make([]byte, n)
	for i := range out {
		out[i] = tag[i%8]
	}
	return out
}

func (w *world) newTag() [8]byte {
	var t [8]byte
	for {
		binary.BigEndian.PutUint64(t[:], w.r.Uint64())
		ok := true
		for _, b := range t {
			if b == 0 {
				ok = false
			}
		}
		if ok {
			return t
		}
	}
}

func (w *world) randAddr() netip.Addr {
	var a [16]byte
	a[0] = 0xfd
	copy(a[1:], core.RandBytes(w.r, 15))
	return netip.AddrFrom16(a)
}

// wholeBuffer returns the whole accessible pooled buffer of f, found by probing.
func wholeBuffer(f frame.Frame, dataLen int) []byte {
	for off := 100; off >= 0; off-- {
		if _, err := f.FrameDataWithMargins(off, 0); err != nil {
			continue
		}
		for i := len(tiers) - 1; i >= 0; i-- {
			ovh := tiers[i] - off - dataLen
			if ovh < 0 {
				continue
			}
			if buf, err := f.FrameDataWithMargins(off, ovh); err == nil {
				return buf
			}
		}
		buf, _ := f.FrameDataWithMargins(off, 0)
		return buf
	}
	return nil
}

func bufPtr(f frame.Frame) uintptr {
	for off := 100; off >= 0; off-- {
		if buf, err := f.FrameDataWithMargins(off, 0); err == nil && len(buf) > 0 {
			return uintptr(unsafe.Pointer(&buf[0]))
		}
	}
	return 0
}

// searchRetired looks for tags of released frames in buf outside own[lo:hi].
func (w *world) searchRetired(buf []byte, what string, s *shadow) bool {
	if len(w.retired) == 0 {
		return true
	}
	for i := 0; i+8 <= len(buf); i++ {
		if buf[i] == 0 {
			continue
		}
		v := binary.BigEndian.Uint64(buf[i : i+8])
		if ri, ok := w.retired[v]; ok && !s.ownTags[ri.tag] {
			w.fail("released-bytes-exposed:"+what, fmt.Sprintf("%s: frame #%d exposes bytes of released frame #%d at buffer offset %d", what, s.id, ri.frame, i))
			return false
		}
	}
	return true
}

func (w *world) checkFresh(s *shadow, what string) {
	// Whole accessible buffer must not contain bytes of released frames.
	buf := wholeBuffer(s.f, len(s.img))
	if !w.searchRetired(buf, what, s) {
		return
	}
	if l := s.f.RecvLink(); l != nil && l != s.link {
		if id, ok := w.retiredLinks[l]; ok {
			w.fail("released-link-exposed:"+what, fmt.Sprintf("%s: frame #%d reports the receive link of released frame #%d", what, s.id, id))
			return
		}
		w.fail("released-link-exposed:"+what, fmt.Sprintf("%s: frame #%d reports a receive link (%v) it was never given (stale reference of an earlier frame on this struct)", what, s.id, l))
		return
	}
	// Recycling, by pointer identity.
	if p := bufPtr(s.f); p != 0 && w.retiredBufs[p] {
		delete(w.retiredBufs, p)
		w.res.Count("recycled_slices_observed", 1)
		if len(w.live) > 0 {
			w.recycledWhileLive = true
		}
	}
	if w.retiredStructs[s.f] {
		delete(w.retiredStructs, s.f)
		w.res.Count("recycled_structs_observed", 1)
		if len(w.live) > 0 {
			w.recycledWhileLive = true
		}
	}
}

// verifyAll compares every live frame with its shadow.
func (w *world) verifyAll(after string) {
	for _, s := range w.live {
		data, err := s.f.FrameDataWithMargins(0, 0)
		if err != nil {
			w.fail("live-frame-unreadable", fmt.Sprintf("after %s: frame #%d: %v", after, s.id, err))
			return
		}
		if !bytes.Equal(data, s.img) {
			i := 0
			for i < len(data) && i < len(s.img) && data[i] == s.img[i] {
				i++
			}
			w.fail("live-frame-changed", fmt.Sprintf("after %s: bytes of live frame #%d changed (len %d want %d, first difference at %d)", after, s.id, len(data), len(s.img), i))
			return
		}
		if s.f.SrcIP() != s.src || s.f.DstIP() != s.dst {
			w.fail("live-frame-addresses-changed", fmt.Sprintf("after %s: frame #%d reports src/dst %s/%s, want %s/%s", after, s.id, s.f.SrcIP(), s.f.DstIP(), s.src, s.dst))
			return
		}
		if s.f.RecvLink() != s.link {
			w.fail("live-frame-link-changed", fmt.Sprintf("after %s: frame #%d reports link %v, want %v", after, s.id, s.f.RecvLink(), s.link))
			return
		}
		ai := s.apxIndex()
		if !bytes.Equal(s.f.SwitchBlock(), s.img[49:49+s.swLen]) ||
			!bytes.Equal(s.f.MessageData(), s.img[49+s.swLen+2:49+s.swLen+2+s.msgLen]) ||
			!bytes.Equal(s.f.AppendixData(), s.img[ai:]) {
			w.fail("live-frame-fields-changed", fmt.Sprintf("after %s: parsed fields of frame #%d differ from its bytes", after, s.id))
			return
		}
	}
}

// pickSizes chooses (sw, msg, apx) so that the required buffer size lands on or next to a tier boundary.
func (w *world) pickSizes(mt frame.MessageType) (sw, msg, apx int) {
	r := w.r
	off, ovh := w.b.FrameMargins()
	auth := 64
	if mt.IsEncrypted() {
		auth = 16
	}
	sw = []int{0, 0, 1, 7, 255}[r.IntN(5)]
	switch r.IntN(4) {
	case 0:
		apx = 0
	case 1:
		apx = 1 + r.IntN(200)
	case 2:
		apx = r.IntN(3000)
	default:
		apx = 0
	}
	if r.IntN(3) == 0 {
		msg = 1 + r.IntN(3000)
		return
	}
	tier := tiers[r.IntN(4)]
	fixed := off + 51 + sw + auth + apx + ovh
	msg = tier - fixed + (r.IntN(3) - 1)
	if msg < 1 || msg > 10000 {
		msg = 1 + r.IntN(1500)
	}
	return
}

func (w *world) validateInit(s *shadow, mt frame.MessageType, sw, msg, apx []byte, what string) bool {
	data, err := s.f.FrameDataWithMargins(0, 0)
	if err != nil {
		w.fail("new-frame-unreadable", fmt.Sprintf("%s: %v", what, err))
		return false
	}
	auth := 64
	if mt.IsEncrypted() {
		auth = 16
	}
	want := make([]byte, 0, 51+len(sw)+len(msg)+auth+len(apx))
	want = append(want, 1, 32, 0, 0, byte(mt))
	if len(data) < 8 {
		w.fail("new-frame-wrong-content", what+": frame too short")
		return false
	}
	want = append(want, data[5:8]...) // random nonce
	want = append(want, make([]byte, 8)...)
	a := s.src.As16()
	want = append(want, a[:]...)
	a = s.dst.As16()
	want = append(want, a[:]...)
	want = append(want, byte(len(sw)))
	want = append(want, sw...)
	want = append(want, byte(len(msg)>>8), byte(len(msg)))
	want = append(want, msg...)
	want = append(want, make([]byte, auth)...)
	want = append(want, apx...)
	if !bytes.Equal(data, want) {
		w.fail("new-frame-wrong-content", fmt.Sprintf("%s: frame #%d does not contain what it was built from (len %d want %d)", what, s.id, len(data), len(want)))
		return false
	}
	s.img = append([]byte(nil), data...)
	s.swLen, s.msgLen, s.auth = len(sw), len(msg), auth
	return true
}

func (w *world) opNew() {
	mt := msgTypes[w.r.IntN(len(msgTypes))]
	swN, msgN, apxN := w.pickSizes(mt)
	s := &shadow{id: w.nextID, tag: w.newTag(), src: w.randAddr(), dst: w.randAddr()}
	s.own(s.tag)
	w.nextID++
	sw, msg, apx := w.tagBytes(s.tag, swN), w.tagBytes(s.tag, msgN), w.tagBytes(s.tag, apxN)
	w.trace = append(w.trace, fmt.Sprintf("#%d=new(type=%d,sw=%d,msg=%d,apx=%d)", s.id, mt, swN, msgN, apxN))
	f, err := w.b.NewFrameV1(s.src, s.dst, mt, sw, msg, apx)
	if err != nil {
		w.fail("new-frame-failed", fmt.Sprintf("NewFrameV1 with valid sizes failed: %v", err))
		return
	}
	s.f = f
	if !w.validateInit(s, mt, sw, msg, apx, "new") {
		return
	}
	w.checkFresh(s, "new")
	w.live = append(w.live, s)
}

func (w *world) opParse() {
	// Serialise a new valid frame image and parse it on a pooled slice.
	mt := msgTypes[w.r.IntN(len(msgTypes))]
	swN, msgN, apxN := w.pickSizes(mt)
	s := &shadow{id: w.nextID, tag: w.newTag(), src: w.randAddr(), dst: w.randAddr()}
	s.own(s.tag)
	w.nextID++
	auth := 64
	if mt.IsEncrypted() {
		auth = 16
	}
	img := make([]byte, 0, 51+swN+msgN+auth+apxN)
	img = append(img, 1, byte(1+w.r.IntN(255)), 0, 0, byte(mt))
	img = append(img, core.RandBytes(w.r, 11)...)
	a := s.src.As16()
	img = append(img, a[:]...)
	a = s.dst.As16()
	img = append(img, a[:]...)
	img = append(img, byte(swN))
	img = append(img, w.tagBytes(s.tag, swN)...)
	img = append(img, byte(msgN>>8), byte(msgN))
	img = append(img, w.tagBytes(s.tag, msgN)...)
	img = append(img, w.tagBytes(s.tag, auth)...)
	img = append(img, w.tagBytes(s.tag, apxN)...)
	off := []int{2, 12}[w.r.IntN(2)]
	ovh := []int{0, 16}[w.r.IntN(2)]
	w.trace = append(w.trace, fmt.Sprintf("#%d=parse(type=%d,len=%d,off=%d)", s.id, mt, len(img), off))
	ps := w.b.GetPooledSlice(off + len(img) + ovh)
	if ps == nil {
		w.fail("pooled-slice-unavailable", "GetPooledSlice returned nil for a valid size")
		return
	}
	// A recycled slice must come back zeroed: search it before use.
	probe := &shadow{id: s.id}
	if !w.searchRetired(ps, "pooled-slice", probe) {
		return
	}
	if p := uintptr(unsafe.Pointer(&ps[0])); w.retiredBufs[p] {
		delete(w.retiredBufs, p)
		w.res.Count("recycled_slices_observed", 1)
		if len(w.live) > 0 {
			w.recycledWhileLive = true
		}
	}
	copy(ps[off:], img)
	f, err := w.b.ParseFrame(ps[off:off+len(img)], ps, off)
	if err != nil {
		w.fail("parse-valid-frame-failed", fmt.Sprintf("ParseFrame on a valid %d-byte frame failed: %v", len(img), err))
		return
	}
	s.f = f
	s.img = img
	s.swLen, s.msgLen, s.auth = swN, msgN, auth
	w.checkFresh(s, "parse")
	w.live = append(w.live, s)
	if w.r.IntN(2) == 0 {
		l := &fakeLink{id: s.id}
		f.SetRecvLink(l)
		s.link = l
		w.trace = append(w.trace, fmt.Sprintf("#%d.setlink", s.id))
	}
}

// opParseBad parses a malformed frame on a pooled slice (the parser must refuse it),
// then hands the slice back to the pool or keeps using it, like a link reader would.
func (w *world) opParseBad() {
	mt := msgTypes[w.r.IntN(len(msgTypes))]
	swN, msgN, apxN := w.pickSizes(mt)
	auth := 64
	if mt.IsEncrypted() {
		auth = 16
	}
	tag := w.newTag()
	img := make([]byte, 0, 51+swN+msgN+auth+apxN)
	img = append(img, 1, 9, 0, 0, byte(mt))
	img = append(img, core.RandBytes(w.r, 43)...)
	img = append(img, byte(swN))
	img = append(img, w.tagBytes(tag, swN)...)
	img = append(img, byte(msgN>>8), byte(msgN))
	img = append(img, w.tagBytes(tag, msgN+auth+apxN)...)
	// break a length field so that the declared sizes exceed the data
	switch w.r.IntN(3) {
	case 0:
		img = img[:51+swN+msgN/2] // cut inside the message
	case 1:
		bad := len(img) + 1 + w.r.IntN(5000)
		img[49+swN], img[50+swN] = byte(bad>>8), byte(bad)
	default:
		if swN < 200 {
			img[48] = byte(swN + 50) // switch block length too big
			img = img[:min(len(img), 49+swN+30)]
		} else {
			img = img[:60]
		}
	}
	off := []int{2, 12}[w.r.IntN(2)]
	w.trace = append(w.trace, fmt.Sprintf("parse-malformed(type=%d,len=%d)", mt, len(img)))
	ps := w.b.GetPooledSlice(off + len(img) + 16)
	if ps == nil {
		return
	}
	copy(ps[off:], img)
	f, err := w.b.ParseFrame(ps[off:off+len(img)], ps, off)
	if err == nil {
		// accepted after all (sizes happened to be consistent): treat as a normal frame and release it
		f.ReturnToPool()
		return
	}
	w.res.Count("malformed_parses_refused", 1)
	// the bytes of the refused frame must never show up in a later frame
	for rot := 0; rot < 8; rot++ {
		var t [8]byte
		for k := 0; k < 8; k++ {
			t[k] = tag[(k+rot)%8]
		}
		w.retired[binary.BigEndian.Uint64(t[:])] = retInfo{frame: -1, tag: tag}
	}
	w.b.ReturnPooledSlice(ps)
}

func (w *world) pick() *shadow {
	if len(w.live) == 0 {
		return nil
	}
	return w.live[w.r.IntN(len(w.live))]
}

func (w *world) opClone() {
	s := w.pick()
	if s == nil {
		return
	}
	c := &shadow{id: w.nextID, tag: s.tag, src: s.src, dst: s.dst, swLen: s.swLen, msgLen: s.msgLen, auth: s.auth, link: s.link}
	for t := range s.ownTags {
		c.own(t)
	}
	w.nextID++
	w.trace = append(w.trace, fmt.Sprintf("#%d=clone(#%d,len=%d)", c.id, s.id, len(s.img)))
	c.f = s.f.Clone()
	c.img = append([]byte(nil), s.img...)
	if c.f == s.f {
		w.fail("clone-is-original", "Clone returned the original frame")
		return
	}
	data, err := c.f.FrameDataWithMargins(0, 0)
	if err != nil || !bytes.Equal(data, s.img) {
		w.fail("clone-differs", fmt.Sprintf("clone of frame #%d (%d bytes) does not have identical bytes (err %v, len %d)", s.id, len(s.img), err, len(data)))
		return
	}
	if p1, p2 := bufPtr(c.f), bufPtr(s.f); p1 == p2 {
		w.fail("clone-shares-buffer", fmt.Sprintf("clone of frame #%d shares the original's buffer", s.id))
		return
	}
	if c.f.RecvLink() != s.link {
		w.fail("clone-link-differs", fmt.Sprintf("clone of frame #%d has receive link %v, original %v", s.id, c.f.RecvLink(), s.link))
		return
	}
	w.res.Count("clones", 1)
	if len(s.img) > 600 {
		w.res.Count("clones_above_600_bytes", 1)
	}
	w.live = append(w.live, c)
}

func (w *world) opReply() {
	s := w.pick()
	if s == nil {
		return
	}
	mt := s.f.MessageType()
	swN, msgN, apxN := w.pickSizes(mt)
	s.tag = w.newTag()
	s.own(s.tag)
	sw, msg, apx := w.tagBytes(s.tag, swN), w.tagBytes(s.tag, msgN), w.tagBytes(s.tag, apxN)
	var err error
	if w.r.IntN(2) == 0 {
		w.trace = append(w.trace, fmt.Sprintf("#%d.reply(sw=%d,msg=%d,apx=%d)", s.id, swN, msgN, apxN))
		s.src, s.dst = s.dst, s.src
		err = s.f.Reply(sw, msg, apx)
	} else {
		s.src, s.dst = w.randAddr(), w.randAddr()
		w.trace = append(w.trace, fmt.Sprintf("#%d.replyto(sw=%d,msg=%d,apx=%d)", s.id, swN, msgN, apxN))
		err = s.f.ReplyTo(s.src, s.dst, sw, msg, apx)
	}
	if err != nil {
		w.fail("reply-failed", fmt.Sprintf("Reply with valid sizes failed: %v", err))
		return
	}
	s.link = nil // a reply is a new outgoing frame
	if s.f.RecvLink() != nil {
		// Not demanded by the statement for the frame's own link; tolerated.
		s.link = s.f.RecvLink()
	}
	if !w.validateInit(s, mt, sw, msg, apx, "reply") {
		return
	}
	w.checkFresh(s, "reply")
}

func (w *world) opSetAppendix() {
	s := w.pick()
	if s == nil {
		return
	}
	ai := s.apxIndex()
	var n int
	switch w.r.IntN(6) {
	case 0:
		n = 0
	case 1:
		n = w.r.IntN(len(s.img) - ai + 1) // shrink
	case 2:
		n = len(s.img) - ai + 1 + w.r.IntN(300) // grow a little
	case 3:
		n = 1 + w.r.IntN(10000) // anything up to the protocol limit
	case 4:
		n = 10000
	default:
		// grow across the next tier boundary
		n = len(s.img) - ai + 600 + w.r.IntN(1200)
	}
	if n > 10000 {
		n = 10000
	}
	apx := w.tagBytes(s.tag, n)
	w.trace = append(w.trace, fmt.Sprintf("#%d.setappendix(%d->%d,framelen=%d)", s.id, len(s.img)-ai, n, len(s.img)))
	err := s.f.SetAppendixData(apx)
	if err != nil {
		w.fail("appendix-change-refused", fmt.Sprintf("SetAppendixData(%d bytes) on a %d-byte frame failed: %v", n, len(s.img), err))
		return
	}
	oldApx := len(s.img) - ai
	s.img = append(append([]byte(nil), s.img[:ai]...), apx...)
	if n > oldApx {
		w.res.Count("appendix_grown", 1)
	}
	w.res.Count("appendix_set", 1)
}

func (w *world) opEdit() {
	s := w.pick()
	if s == nil {
		return
	}
	switch w.r.IntN(5) {
	case 0:
		v := byte(w.r.IntN(256))
		s.f.SetTTL(v)
		s.img[1] = v
		w.trace = append(w.trace, fmt.Sprintf("#%d.setttl", s.id))
	case 1:
		by := byte(w.r.IntN(4))
		s.f.ReduceTTL(by)
		if by < s.img[1] {
			s.img[1] -= by
		} else {
			s.img[1] = 0
		}
		w.trace = append(w.trace, fmt.Sprintf("#%d.reducettl", s.id))
	case 2:
		fl := frame.FlowControlFlag(1 + w.r.IntN(3))
		s.f.SetFlowFlag(fl)
		s.img[2] |= byte(fl)
		w.trace = append(w.trace, fmt.Sprintf("#%d.flowflag", s.id))
	case 3:
		blk := core.RandBytes(w.r, s.swLen)
		if err := s.f.SetSwitchBlock(blk); err != nil {
			w.fail("switch-block-update-refused", fmt.Sprintf("SetSwitchBlock with equal size failed: %v", err))
			return
		}
		copy(s.img[49:], blk)
		w.trace = append(w.trace, fmt.Sprintf("#%d.setswitch", s.id))
	case 4:
		l := &fakeLink{id: 100000 + w.nextID}
		w.nextID++
		s.f.SetRecvLink(l)
		s.link = l
		w.trace = append(w.trace, fmt.Sprintf("#%d.setlink", s.id))
	}
}

func (w *world) opRelease() {
	if len(w.live) == 0 {
		return
	}
	w.releaseAt(w.r.IntN(len(w.live)))
}

// opReplyBad turns a live frame into a reply the builder must refuse (a message no buffer can hold); the caller
// then gives the frame up, as the handshake code does. Nothing of that may show in later frames, and the frame's
// buffer must go back to the pool exactly once.
func (w *world) opReplyBad() {
	if len(w.live) == 0 {
		return
	}
	i := w.r.IntN(len(w.live))
	s := w.live[i]
	n := 66000 + w.r.IntN(30000)
	w.trace = append(w.trace, fmt.Sprintf("#%d.reply-refused(msg=%d)", s.id, n))
	var err error
	var panicked any
	func() {
		defer func() { panicked = recover() }()
		err = s.f.Reply(nil, make([]byte, n), nil)
	}()
	if panicked != nil {
		w.fail("reply-panicked", fmt.Sprintf("Reply with a %d-byte message panicked: %v", n, panicked))
		return
	}
	if err == nil {
		w.fail("oversized-reply-accepted", fmt.Sprintf("Reply accepted a %d-byte message", n))
		return
	}
	w.res.Count("oversized_replies_refused", 1)
	w.releaseAt(i)
}

func (w *world) releaseAt(i int) {
	s := w.live[i]
	w.trace = append(w.trace, fmt.Sprintf("#%d.release", s.id))
	// Remember what must never reappear: every tag this frame's buffer held,
	// unless a live frame still legitimately holds it.
	for tag := range s.ownTags {
		held := false
		for j, o := range w.live {
			if j != i && o.ownTags[tag] {
				held = true
				break
			}
		}
		if held {
			continue
		}
		for rot := 0; rot < 8; rot++ {
			var t [8]byte
			for k := 0; k < 8; k++ {
				t[k] = tag[(k+rot)%8]
			}
			w.retired[binary.BigEndian.Uint64(t[:])] = retInfo{frame: s.id, tag: tag}
		}
	}
	if s.link != nil {
		stillLive := false
		for j, o := range w.live {
			if j != i && o.link == s.link {
				stillLive = true
			}
		}
		if !stillLive {
			w.retiredLinks[s.link] = s.id
		}
	}
	if p := bufPtr(s.f); p != 0 {
		w.retiredBufs[p] = true
	}
	w.retiredStructs[s.f] = true
	var panicked any
	func() {
		defer func() { panicked = recover() }()
		s.f.ReturnToPool()
	}()
	if panicked != nil {
		w.fail("release-panicked", fmt.Sprintf("ReturnToPool panicked: %v", panicked))
		return
	}
	w.live = append(w.live[:i], w.live[i+1:]...)
}

func (w *world) opMargins() {
	off, ovh := []int{0, 2, 12, 12, 50, 100}[w.r.IntN(6)], []int{0, 16, 16, 50, 100}[w.r.IntN(5)]
	w.b.SetFrameMargins(off, ovh)
	w.trace = append(w.trace, fmt.Sprintf("margins(%d,%d)", off, ovh))
}

// opNewBad asks the builder for a frame it must refuse (empty or oversized message, oversized switch block or
// appendix). Nothing of the refused frame - bytes or addresses - may show up in a later frame.
func (w *world) opNewBad() {
	mt := msgTypes[w.r.IntN(len(msgTypes))]
	tag := w.newTag()
	swN, msgN, apxN := w.r.IntN(40), 1+w.r.IntN(300), w.r.IntN(100)
	switch w.r.IntN(4) {
	case 0:
		msgN = 0
	case 1:
		msgN = 10001 + w.r.IntN(3000)
	case 2:
		swN = 256 + w.r.IntN(50)
	default:
		apxN = 10001 + w.r.IntN(3000)
	}
	w.trace = append(w.trace, fmt.Sprintf("new-refused(type=%d,sw=%d,msg=%d,apx=%d)", mt, swN, msgN, apxN))
	f, err := w.b.NewFrameV1(w.randAddr(), w.randAddr(), mt, w.tagBytes(tag, swN), w.tagBytes(tag, msgN), w.tagBytes(tag, apxN))
	if err == nil {
		// accepted after all: a normal frame, release it
		f.ReturnToPool()
		return
	}
	w.res.Count("invalid_builds_refused", 1)
	for rot := 0; rot < 8; rot++ {
		var t [8]byte
		for k := 0; k < 8; k++ {
			t[k] = tag[(k+rot)%8]
		}
		w.retired[binary.BigEndian.Uint64(t[:])] = retInfo{frame: -1, tag: tag}
	}
}

// runSequence executes one operation sequence; returns whether it was non-trivial.
func (w *world) runSequence(nops int, changeMargins bool) {
	for i := 0; i < nops && !w.failed; i++ {
		var panicked any
		func() {
			defer func() { panicked = recover() }()
			switch k := w.r.IntN(100); {
			case k < 18:
				w.opNew()
			case k < 31:
				w.opParse()
			case k < 33:
				w.opParseBad()
			case k < 35:
				w.opNewBad()
			case k < 37:
				w.opReplyBad()
			case k < 48:
				w.opClone()
			case k < 58:
				w.opReply()
			case k < 72:
				w.opSetAppendix()
			case k < 80:
				w.opEdit()
			case k < 97:
				w.opRelease()
			default:
				if changeMargins {
					w.opMargins()
				}
			}
		}()
		if panicked != nil {
			last := ""
			if len(w.trace) > 0 {
				last = w.trace[len(w.trace)-1]
			}
			op := strings.SplitN(strings.SplitN(last, "(", 2)[0], ".", 2)
			w.fail("panic:"+strings.TrimLeft(op[len(op)-1], "#0123456789="), fmt.Sprintf("operation %s panicked: %v", last, panicked))
			return
		}
		if !w.failed && len(w.trace) > 0 {
			w.verifyAll(w.trace[len(w.trace)-1])
		}
	}
	// Release everything at the end (keeps the pools warm for the next sequence).
	for len(w.live) > 0 && !w.failed {
		w.opRelease()
		w.verifyAll("final release")
	}
}

// pipeline: frames are built by some goroutines and checked and released by others (the link reader builds, a
// handler worker releases), all on one builder, so released buffers are picked up by another goroutine at once.
// A frame's content must be what its builder wrote when the releasing side looks at it.
// callerBuffers: frames parsed straight out of a buffer the caller owns (no pooled slice handed over - what a
// test, a tool or a handshake step does): several frames lie back to back in one receive buffer, whose capacity is
// anything, including exactly the size of a buffer class of the builder. Releasing one of those frames changes
// neither its neighbours nor the caller's buffer, and the caller's buffer never becomes the builder's: frames built
// afterwards keep their content while the caller reuses its buffer.
func callerBuffers(res *core.Result, r *rand.Rand, rounds int) {
	b := frame.NewFrameBuilder()
	b.SetFrameMargins(12, 16)
	tiers := []int{600, 1600, 5100, 9600, 65675}
	src, dst := netip.MustParseAddr("fd5a::1"), netip.MustParseAddr("fd5b::2")
	image := func(msgN int) []byte {
		mt := msgTypes[r.IntN(len(msgTypes))]
		auth := 64
		if mt.IsEncrypted() {
			auth = 16
		}
		img := make([]byte, 0, 51+msgN+auth)
		img = append(img, 1, byte(1+r.IntN(255)), 0, 0, byte(mt))
		img = append(img, core.RandBytes(r, 11)...)
		a := src.As16()
		img = append(img, a[:]...)
		a = dst.As16()
		img = append(img, a[:]...)
		img = append(img, 0, byte(msgN>>8), byte(msgN))
		img = append(img, core.RandBytes(r, msgN+auth)...)
		return img
	}
	for round := 0; round < rounds; round++ {
		tier := tiers[r.IntN(len(tiers))]
		capBuf := tier
		if r.IntN(3) == 0 {
			capBuf = tier - 1 - r.IntN(50)
		}
		buf := make([]byte, capBuf)
		for i := range buf {
			buf[i] = 0xA5
		}
		n := 2 + r.IntN(3)
		each := min((capBuf-8)/n, 1200)
		type held struct {
			f    frame.Frame
			img  []byte
			a, z int
			auth int
		}
		var hs []held
		pos := 0
		for i := 0; i < n; i++ {
			img := image(max(1, each-140-r.IntN(20)))
			copy(buf[pos:], img)
			f, err := b.ParseFrame(buf[pos:pos+len(img)], nil, 0)
			if err != nil {
				res.Violate("caller-buffer:parse-failed", fmt.Sprintf("ParseFrame of a valid %d-byte frame lying in the caller's buffer failed: %v", len(img), err), map[string]any{"case_id": "caller-buffers"})
				return
			}
			auth := 64
			if frame.MessageType(img[4]).IsEncrypted() {
				auth = 16
			}
			hs = append(hs, held{f, img, pos, pos + len(img), auth})
			pos += len(img)
		}
		want := append([]byte(nil), buf...)
		desc := fmt.Sprintf("%d frames parsed (no pooled slice) out of one receive buffer of capacity %d", n, capBuf)
		order := r.Perm(n)
		for k, i := range order {
			hs[i].f.ReturnToPool()
			for _, j := range order[k+1:] {
				// (a frame without pooled slice has no margins to report: its message and the bytes it lies in are read)
				msgWant := hs[j].img[51 : len(hs[j].img)-hs[j].auth]
				if d := hs[j].f.MessageData(); !bytes.Equal(d, msgWant) || !bytes.Equal(buf[hs[j].a:hs[j].z], hs[j].img) || hs[j].f.SrcIP() != src || hs[j].f.DstIP() != dst {
					res.Violate("frame-changed-by-release-of-another:caller-buffer", fmt.Sprintf("%s: after frame %d was released, frame %d no longer carries its message or addresses (message differs at %d of %d)", desc, i, j, firstDiff(d, msgWant), len(msgWant)), map[string]any{"case_id": "caller-buffers"})
					return
				}
			}
			if !bytes.Equal(buf, want) {
				res.Violate("callers-buffer-changed-by-release", fmt.Sprintf("%s: releasing frame %d changed the caller's buffer", desc, i), map[string]any{"case_id": "caller-buffers"})
				return
			}
		}
		// new frames of that size class come alive; the caller reuses its buffer
		var fresh []frame.Frame
		var imgs [][]byte
		for i := 0; i < 6; i++ {
			msg := core.RandBytes(r, max(1, min(tier, 9990)-200-r.IntN(30)))
			f, err := b.NewFrameV1(src, dst, frame.RouterPing, nil, msg, nil)
			if err != nil {
				continue
			}
			d, _ := f.FrameDataWithMargins(0, 0)
			fresh = append(fresh, f)
			imgs = append(imgs, append([]byte(nil), d...))
		}
		for i := range buf {
			buf[i] = 0xEE
		}
		for i, f := range fresh {
			d, err := f.FrameDataWithMargins(0, 0)
			if err != nil || !bytes.Equal(d, imgs[i]) {
				res.Violate("frame-built-in-callers-buffer", fmt.Sprintf("%s, all released; a frame built afterwards changed when the caller reused its own buffer", desc), map[string]any{"case_id": "caller-buffers"})
				return
			}
			f.ReturnToPool()
		}
		res.Count("caller_buffer_rounds", 1)
	}
	res.Case(fmt.Sprintf("caller-buffers|%d", rounds), true)
}

// fanOutCopies: the copies a router makes of one frame for several links (announcements and disconnect notices are
// passed on to every other neighbour) are clones in the sense of the statement: while the hub of a small mesh handles
// a frame, everything it sends with that frame's identity must equal the frame it received in every byte outside
// TTL, flow flags and appendix - whatever happened to the copies it already handed to links (a link's writer seals
// and releases a frame as soon as it gets it) - and no handler may panic on a released buffer.
func fanOutCopies(res *core.Result, r *rand.Rand, leaves int) {
	t := &vmesh.Topology{Name: "hub", N: leaves + 2}
	for i := 1; i <= leaves; i++ {
		t.Edges = append(t.Edges, [2]int{0, i})
	}
	far := leaves + 1
	t.Edges = append(t.Edges, [2]int{1, far}) // one router behind leaf 1
	ids := make([]*m.Address, t.N)
	for i := range ids {
		ids[i] = env.NewIdentity(r, nil)
	}
	ms, err := vmesh.Build(r, t, ids, vmesh.BuildOpts{Labels: vmesh.LabelMode(r.IntN(3)), Introduce: true})
	if err != nil {
		res.Inconcl("fan-out mesh: %v", err)
		return
	}
	desc := fmt.Sprintf("hub with %d neighbours", leaves)
	bad := ""
	copies := 0
	ms.OnForward = func(node int, in, out *vmesh.Packet) {
		if node != 0 || bad != "" {
			return
		}
		copies++
		a, b := in.Data, out.Data
		apx := func(d []byte) int {
			mi := 49 + int(d[48])
			if len(d) < mi+2 {
				return len(d)
			}
			auth := 64
			if frame.MessageType(d[4]).IsEncrypted() {
				auth = 16
			}
			return min(len(d), mi+2+(int(d[mi])<<8|int(d[mi+1]))+auth)
		}
		ea, eb := apx(a), apx(b)
		if ea != eb {
			bad = fmt.Sprintf("a copy sent to node %d has %d bytes before its appendix, the frame received had %d", out.To, eb, ea)
			return
		}
		for i := 0; i < ea; i++ {
			if i == 1 || i == 2 {
				continue
			}
			if a[i] != b[i] {
				bad = fmt.Sprintf("a copy sent to node %d differs from the frame received at byte %d (of %d before the appendix)", out.To, i, ea)
				return
			}
		}
	}
	if err := ms.Converge(r, false); err != nil {
		res.Inconcl("fan-out mesh did not converge: %v", err)
		return
	}
	// the neighbour with a router behind it tells the hub that it lost that router (or goes down itself)
	n1 := ms.Nodes[1]
	for k := 0; k < 2 && bad == "" && len(ms.Panics) == 0; k++ {
		time.Sleep(1500 * time.Microsecond)
		body, _ := cbor.Marshal(&router.DisconnectPingMsg{GoingDown: k == 1, Disconnected: []netip.Addr{ms.Nodes[far].ID.IP}})
		hdr := router.PingHeader{PingID: r.Uint64() | 1, PingType: "disconnect", AddrHash: n1.ID.Hash, KeyType: n1.ID.Type, PublicKey: n1.ID.PublicKey}
		hd, _ := cbor.Marshal(&hdr)
		data := append(append([]byte{1, byte(len(hd))}, hd...), body...)
		f, err := n1.Inst.BuilderV.NewFrameV1(n1.ID.IP, m.RouterAddress, frame.RouterHopPing, nil, data, nil)
		if err != nil {
			res.Inconcl("fan-out: build: %v", err)
			return
		}
		f.SetTTL(0)
		f.SetSequenceTime(time.Now().Round(time.Millisecond))
		if err := f.SignRaw(n1.ID.PrivateKey); err != nil {
			res.Inconcl("fan-out: sign: %v", err)
			return
		}
		f.SetTTL(32)
		if err := n1.Inst.SwitchV.ForwardByPeer(f, ms.Nodes[0].ID.IP); err != nil {
			res.Inconcl("fan-out: send: %v", err)
			return
		}
		ms.Drain(vmesh.FIFO, 10000)
	}
	wit := map[string]any{"case_id": "fan-out-copies", "mesh": desc}
	if len(ms.Panics) > 0 {
		res.Violate("handler-panic:fan-out", fmt.Sprintf("%s: a handler that passes one frame on to several links panicked: %v", desc, ms.Panics[0]), wit)
		return
	}
	if bad != "" {
		res.Violate("forwarded-copy-differs-from-original", desc+": "+bad, wit)
		return
	}
	res.Count("fan_out_meshes", 1)
	res.Count("fan_out_copies_compared", int64(copies))
	res.Case(fmt.Sprintf("fan-out|%d", leaves), true)
}

func firstDiff(a, b []byte) int {
	for i := 0; i < len(a) && i < len(b); i++ {
		if a[i] != b[i] {
			return i
		}
	}
	return min(len(a), len(b))
}

func pipeline(res *core.Result, r *rand.Rand, frames int, keyPrefix string) {
	b := frame.NewFrameBuilder()
	b.SetFrameMargins(12, 16)
	type item struct {
		f    *frame.FrameV1
		id   uint32
		size int
	}
	ch := make(chan item, 8)
	var wg, cons sync.WaitGroup
	var bad atomic.Int64
	var firstBad atomic.Value
	src, dst := netip.MustParseAddr("fd10::1"), netip.MustParseAddr("fd20::2")
	fill := func(buf []byte, id uint32) {
		for i := range buf {
			buf[i] = byte(id) ^ byte(i*7) | 1
		}
	}
	const producers = 3
	for g := 0; g < producers; g++ {
		wg.Add(1)
		seed := r.Uint64()
		go func(g int) {
			defer wg.Done()
			rr := rand.New(rand.NewPCG(seed, uint64(g)))
			for k := 0; k < frames/producers; k++ {
				size := []int{40, 500, 560, 1500, 4000, 9000}[rr.IntN(6)] + rr.IntN(30)
				msg := make([]byte, size)
				id := uint32(g)<<24 | uint32(k)
				fill(msg, id)
				f, err := b.NewFrameV1(src, dst, frame.SessionData, nil, msg, nil)
				if err != nil {
					continue
				}
				ch <- item{f, id, size}
			}
		}(g)
	}
	for g := 0; g < 3; g++ {
		cons.Add(1)
		go func() {
			defer cons.Done()
			want := make([]byte, 0, 10000)
			for it := range ch {
				want = want[:it.size]
				fill(want, it.id)
				if got := it.f.MessageData(); !bytes.Equal(got, want) {
					if bad.Add(1) == 1 {
						firstBad.Store(fmt.Sprintf("frame %08x (%d-byte message): content differs from what its builder wrote (first bytes % x, want % x)", it.id, it.size, got[:min(8, len(got))], want[:8]))
					}
				}
				it.f.ReturnToPool()
			}
		}()
	}
	wg.Wait()
	close(ch)
	cons.Wait()
	if bad.Load() > 0 {
		res.Violate("live-frame-changed:pipeline", fmt.Sprintf("%d frames handed from a building goroutine to a releasing goroutine on a shared builder arrived changed: %v", bad.Load(), firstBad.Load()), map[string]any{"case_id": "pipeline"})
		return
	}
	res.Count("pipeline_frames_checked", int64(frames))
	res.Case(fmt.Sprintf("%spipeline|%x", keyPrefix, r.Uint64()), true)
}

// pipelineTier: the same hand-over, but every frame lives in one buffer class, more goroutines build than
// release (a released buffer is wanted at once) and the content is looked at twice: right after the build and
// right before the release. The window in which a released buffer can still be written to by the releasing side
// is hit only when the very buffer is taken again at once - that needs all traffic in one class.
func pipelineTier(res *core.Result, r *rand.Rand, frames, msgSize, apxSize int, keyPrefix string) {
	b := frame.NewFrameBuilder()
	b.SetFrameMargins(12, 16)
	src, dst := netip.MustParseAddr("fd10::1"), netip.MustParseAddr("fd20::2")
	msgs, apxs := make([][]byte, 64), make([][]byte, 64)
	for i := range msgs {
		msgs[i] = bytes.Repeat([]byte{byte(i)*3 + 1}, msgSize)
		if apxSize > 0 {
			apxs[i] = bytes.Repeat([]byte{^(byte(i)*3 + 1)}, apxSize)
		}
	}
	type item struct {
		f   *frame.FrameV1
		pat int
	}
	ch := make(chan item, 4)
	var wg, cons sync.WaitGroup
	var bad atomic.Int64
	var firstBad atomic.Value
	ok := func(f *frame.FrameV1, pat int, where string) bool {
		if bytes.Equal(f.MessageData(), msgs[pat]) && bytes.Equal(f.AppendixData(), apxs[pat]) && f.SrcIP() == src && f.DstIP() == dst {
			return true
		}
		if bad.Add(1) == 1 {
			firstBad.Store(fmt.Sprintf("a frame with a %d-byte message and a %d-byte appendix differs from what its builder wrote (%s)", msgSize, apxSize, where))
		}
		return false
	}
	const producers = 4
	start := r.IntN(64)
	for g := 0; g < producers; g++ {
		wg.Add(1)
		go func(g int) {
			defer wg.Done()
			for k := g; k < frames && bad.Load() == 0; k += producers {
				pat := (start + k) % 64
				var apx []byte
				if apxSize > 0 {
					apx = apxs[pat]
				}
				f, err := b.NewFrameV1(src, dst, frame.RouterPing, nil, msgs[pat], apx)
				if err != nil {
					continue
				}
				ok(f, pat, "right after it was built")
				ch <- item{f, pat}
			}
		}(g)
	}
	for g := 0; g < 2; g++ {
		cons.Add(1)
		go func() {
			defer cons.Done()
			for it := range ch {
				ok(it.f, it.pat, "between build and release")
				it.f.ReturnToPool()
			}
		}()
	}
	wg.Wait()
	close(ch)
	cons.Wait()
	if bad.Load() > 0 {
		res.Violate("live-frame-changed:pipeline", fmt.Sprintf("%d frames on a builder shared by building and releasing goroutines changed while live: %v", bad.Load(), firstBad.Load()), map[string]any{"case_id": "pipeline-tier"})
		return
	}
	res.Count("pipeline_frames_checked", int64(frames))
	res.Case(fmt.Sprintf("%spipeline-tier|%d+%d|%x", keyPrefix, msgSize, apxSize, r.Uint64()), true)
}

// pipelineTiers runs pipelineTier once per buffer class.
func pipelineTiers(res *core.Result, key string, frames int, keyPrefix string) {
	for _, sz := range [][2]int{{300, 0}, {1200, 0}, {2000, 2000}, {4000, 4000}, {30000, 0}} {
		pipelineTier(res, core.RNG(fmt.Sprintf("%s/%d", key, sz[0])), frames, sz[0], sz[1], keyPrefix)
	}
}

func parallel(n int, fn func(w int)) { core.Parallel(n, fn) }

func run(c *core.Ctx) {
	res := c.Res
	if c.RaceBuild {
		for i := 0; i < c.Q(6, 60); i++ {
			pipeline(res, core.RNG(fmt.Sprintf("c17/race/pipeline/%d", i)), 3000, "race:")
			pipelineTiers(res, fmt.Sprintf("c17/race/tier/%d", i), 2000, "race:")
		}
		// 4 goroutines share one builder; each keeps its own frames and shadow world.
		rounds := c.Q(40, 600)
		for round := 0; round < rounds; round++ {
			b := frame.NewFrameBuilder()
			b.SetFrameMargins(12, 16)
			parallel(4, func(g int) {
				r := core.RNG(fmt.Sprintf("c17/race/%d/%d", round, g))
				w := newWorld(res, r, b, "race:")
				w.runSequence(40, false)
				if !w.failed {
					res.Case("race:"+strings.Join(w.trace, ";"), w.recycledWhileLive)
				}
			})
		}
		return
	}
	for i := 0; i < c.Q(8, 100); i++ {
		pipeline(res, core.RNG(fmt.Sprintf("c17/pipeline/%d", i)), 30000, "")
		pipelineTiers(res, fmt.Sprintf("c17/tier/%d", i), 40000, "")
	}
	for i := 0; i < c.Q(6, 60); i++ {
		fanOutCopies(res, core.RNG(fmt.Sprintf("c17/fanout/%d", i)), 3+i%4)
	}
	for i := 0; i < c.Q(4, 40); i++ {
		callerBuffers(res, core.RNG(fmt.Sprintf("c17/callerbuf/%d", i)), c.Q(150, 1500))
	}
	nseq := c.Q(3000, 200000)
	const W = 16
	parallel(W, func(wi int) {
		r := core.RNG(fmt.Sprintf("c17/seq/%d", wi))
		b := frame.NewFrameBuilder() // shared by all sequences of this worker
		b.SetFrameMargins(12, 16)
		var carry *world
		for i := wi; i < nseq; i += W {
			w := newWorld(res, r, b, "")
			if carry != nil {
				// keep the "must never reappear" knowledge across sequences on the same builder
				w.retired, w.retiredLinks, w.retiredBufs, w.retiredStructs = carry.retired, carry.retiredLinks, carry.retiredBufs, carry.retiredStructs
				w.nextID = carry.nextID
				if len(w.retired) > 400000 {
					w.retired = map[uint64]retInfo{}
					w.retiredBufs = map[uintptr]bool{}
					w.retiredStructs = map[frame.Frame]bool{}
					w.retiredLinks = map[frame.LinkAccessor]int{}
				}
			}
			w.runSequence(40, true)
			if w.failed {
				carry = nil
				b = frame.NewFrameBuilder()
				b.SetFrameMargins(12, 16)
				continue
			}
			carry = w
			if i < 3 {
				res.Sample(w.trace[:min(14, len(w.trace))])
			}
			res.Case(strings.Join(w.trace, ";"), w.recycledWhileLive)
		}
	})
	res.Assume("recycling depends on sync.Pool; it is confirmed by pointer identity and counted")
	res.Assume("a frame's own earlier content may remain in its buffer after Reply (not a released frame's bytes)")
	res.Require(res.Counter("recycled_slices_observed")+res.Counter("recycled_structs_observed") >= 200, "fewer than 200 recycled buffers/structs observed")
	res.Require(res.Counter("clones_above_600_bytes") >= 50, "fewer than 50 clones above 600 bytes")
	res.Require(res.Counter("appendix_grown") >= 50, "fewer than 50 appendix growths")
}
