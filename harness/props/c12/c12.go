// Package c12: switch-label source routes traverse forward and reverse exactly.
package c12

import (
	"bytes"
	"fmt"
	"math/rand/v2"
	"strings"
	"sync"

	"github.com/mycoria/mycoria/m"

	"verifharness/core"
)

func init() {
	core.Register(&core.Prop{
		ID:    "C12",
		Level: "exploration",
		Rule: "switch paths: exhaustive over label size-class representatives {1,127,128,16383,16384,65535} for 2..4 hops and {1,128,16384} for 5..6 hops, " +
			"seeded random label vectors for 2..101 hops incl. totals around and beyond the 255-byte limit; each path is built with the real BuildBlocks and " +
			"traversed forward and back with the real NextRotateSwitchBlock/TransformToReturnBlock inside guard bytes; non-trivial = mixed label sizes or >=128 label bytes; distinct by label vector",
		Run:              run,
		CrashIsViolation: true,
	})
}

func enc(l m.SwitchLabel) int {
	switch {
	case l < 1<<7:
		return 1
	case l < 1<<14:
		return 2
	default:
		return 3
	}
}

// refSize is the reference occupancy bound, written from the statement:
// bytes of forward labels not yet consumed + the terminating zero label +
// bytes of return labels already written, maximised over all steps.
func refSize(fwd, ret []m.SwitchLabel) int {
	n := len(fwd) // hops; fwd[n-1]==0, ret[0]==0
	sumF := 0
	for i := 0; i < n-1; i++ {
		sumF += enc(fwd[i])
	}
	best := sumF // initial block: all forward labels
	remF := sumF
	written := 0
	for i := 0; i <= n-2; i++ { // after hop i rotated
		remF -= enc(fwd[i])
		if i >= 1 {
			written += enc(ret[i])
		}
		if v := remF + 1 + written; v > best {
			best = v
		}
	}
	written += enc(ret[n-1])
	if written > best { // final: all return labels
		best = written
	}
	return best
}

func pathKey(fwd, ret []m.SwitchLabel) string {
	var b strings.Builder
	for i := range fwd {
		fmt.Fprintf(&b, "%d/%d,", fwd[i], ret[i])
	}
	return b.String()
}

func nontrivial(fwd, ret []m.SwitchLabel) bool {
	sizes := map[int]bool{}
	total := 0
	for i := 0; i < len(fwd)-1; i++ {
		sizes[enc(fwd[i])] = true
		total += enc(fwd[i])
	}
	for i := 1; i < len(ret); i++ {
		sizes[enc(ret[i])] = true
	}
	return len(sizes) > 1 || total >= 128
}

const guard = 16

// traverse runs the real rotation over a block of the given size embedded in
// guard bytes; returns "" on success or a description of the failure.
func traverse(fwd, ret []m.SwitchLabel, fwdBlock, retBlock []byte, size int) (fail string) {
	defer func() {
		if r := recover(); r != nil {
			fail = fmt.Sprintf("panic: %v", r)
		}
	}()
	n := len(fwd)
	buf := make([]byte, guard+size+guard, guard+size+guard+32)
	for i := range buf {
		buf[i] = 0xA5
	}
	block := buf[guard : guard+size] // spare capacity behind, like a frame's switch block
	clear(block)
	if len(fwdBlock) > size {
		// Truncated start (only when probing minimality): labels must fit.
		for _, b := range fwdBlock[size:] {
			if b != 0 {
				return "forward labels do not fit"
			}
		}
		copy(block, fwdBlock[:size])
	} else {
		copy(block, fwdBlock)
	}
	guardsOK := func() bool {
		for i := 0; i < guard; i++ {
			if buf[i] != 0xA5 || buf[guard+size+i] != 0xA5 {
				return false
			}
		}
		return true
	}
	for i := 0; i < n; i++ {
		next, err := m.NextRotateSwitchBlock(block, ret[i])
		if err != nil {
			return fmt.Sprintf("forward hop %d: %v", i, err)
		}
		if !guardsOK() {
			return fmt.Sprintf("forward hop %d: byte outside the block modified", i)
		}
		if next != fwd[i] {
			return fmt.Sprintf("forward hop %d: got label %d want %d", i, next, fwd[i])
		}
	}
	m.TransformToReturnBlock(block)
	if !guardsOK() {
		return "transform to return block: byte outside the block modified"
	}
	wantRet := retBlock
	if len(wantRet) > size {
		wantRet = wantRet[:size]
	}
	if !bytes.Equal(block, pad(wantRet, size)) {
		return fmt.Sprintf("block after last hop reverses to %x, path's return block is %x", block, retBlock)
	}
	for i := n - 1; i >= 0; i-- {
		next, err := m.NextRotateSwitchBlock(block, fwd[i])
		if err != nil {
			return fmt.Sprintf("return hop %d: %v", i, err)
		}
		if !guardsOK() {
			return fmt.Sprintf("return hop %d: byte outside the block modified", i)
		}
		if next != ret[i] {
			return fmt.Sprintf("return hop %d: got label %d want %d", i, next, ret[i])
		}
	}
	m.TransformToReturnBlock(block)
	if !guardsOK() {
		return "transform back: byte outside the block modified"
	}
	if !bytes.Equal(block, pad(fwdBlock, size)) {
		return fmt.Sprintf("reverse traversal reverses to %x, original forward block is %x", block, fwdBlock)
	}
	return ""
}

func pad(b []byte, size int) []byte {
	if len(b) >= size {
		return b[:size]
	}
	out := make([]byte, size)
	copy(out, b)
	return out
}

func checkPath(res *core.Result, fwd, ret []m.SwitchLabel, probeMinimal bool) {
	n := len(fwd)
	hops := make([]m.SwitchHop, n)
	for i := range hops {
		hops[i] = m.SwitchHop{ForwardLabel: fwd[i], ReturnLabel: ret[i]}
	}
	sp := &m.SwitchPath{Hops: hops}
	want := refSize(fwd, ret)
	wit := map[string]any{"forward_labels": fwd, "return_labels": ret, "reference_size": want}

	var buildErr error
	var panicked any
	func() {
		defer func() { panicked = recover() }()
		buildErr = sp.BuildBlocks()
	}()
	if panicked != nil {
		cls := "fits"
		if want > 255 {
			cls = "oversize"
		}
		res.Violate("buildblocks-panic:"+cls, fmt.Sprintf("BuildBlocks panicked (%v) on a %d-hop path needing %d label bytes", panicked, n, want), wit)
		return
	}
	if want > 255 {
		if buildErr == nil {
			res.Violate("oversize-accepted", fmt.Sprintf("path needing %d > 255 label bytes was not refused (block size %d)", want, len(sp.ForwardBlock)), wit)
			return
		}
		res.Case(pathKey(fwd, ret), true)
		res.Count("oversize_paths_refused", 1)
		return
	}
	if buildErr != nil {
		res.Violate("valid-path-refused", fmt.Sprintf("valid path (%d hops, %d label bytes) refused: %v", n, want, buildErr), wit)
		return
	}
	got, err := sp.CalculateBlockSize()
	if err != nil || got != want {
		res.Violate("blocksize-mismatch", fmt.Sprintf("CalculateBlockSize=%d (err %v), reference (max occupancy over all steps)=%d", got, err, want), wit)
		return
	}
	if len(sp.ForwardBlock) != got || len(sp.ReturnBlock) != got {
		res.Violate("blocks-wrong-length", fmt.Sprintf("blocks have lengths %d/%d, computed size %d", len(sp.ForwardBlock), len(sp.ReturnBlock), got), wit)
		return
	}
	if fail := traverse(fwd, ret, sp.ForwardBlock, sp.ReturnBlock, got); fail != "" {
		res.Violate("traversal-failed", fmt.Sprintf("%d-hop path, block size %d: %s", n, got, fail), wit)
		return
	}
	res.Count("paths_traversed_both_ways", 1)
	if probeMinimal && got > 1 {
		// Minimality, observed: one byte less must not carry the path.
		if fail := traverse(fwd, ret, sp.ForwardBlock, sp.ReturnBlock, got-1); fail == "" {
			res.Violate("blocksize-not-minimal", fmt.Sprintf("%d-hop path also traverses correctly in %d bytes, computed size %d", n, got-1, got), wit)
			return
		}
		res.Count("minimality_probes_failed_as_expected", 1)
	}
	res.Case(pathKey(fwd, ret), nontrivial(fwd, ret))
}

// checkRebuild: blocks are built on a path struct that already carries blocks (a route refresh: the routing
// table copies entries by value and rebuilds paths in place). The rebuilt path must traverse exactly, and the
// blocks of the copy handed out earlier must still carry the earlier path.
func checkRebuild(res *core.Result, fwd1, ret1, fwd2, ret2 []m.SwitchLabel) {
	mk := func(fwd, ret []m.SwitchLabel) []m.SwitchHop {
		hops := make([]m.SwitchHop, len(fwd))
		for i := range hops {
			hops[i] = m.SwitchHop{ForwardLabel: fwd[i], ReturnLabel: ret[i]}
		}
		return hops
	}
	if refSize(fwd1, ret1) > 255 || refSize(fwd2, ret2) > 255 {
		return
	}
	wit := map[string]any{"first_forward": fwd1, "first_return": ret1, "second_forward": fwd2, "second_return": ret2, "case_id": "rebuild"}
	sp := &m.SwitchPath{Hops: mk(fwd1, ret1)}
	var err1, err2 error
	if pv := func() (pv any) {
		defer func() { pv = recover() }()
		err1 = sp.BuildBlocks()
		return nil
	}(); pv != nil || err1 != nil {
		return // judged by checkPath
	}
	held := *sp // what a table entry copied by value holds
	saveF, saveR := bytes.Clone(sp.ForwardBlock), bytes.Clone(sp.ReturnBlock)
	sp.Hops = mk(fwd2, ret2)
	if pv := func() (pv any) {
		defer func() { pv = recover() }()
		err2 = sp.BuildBlocks()
		return nil
	}(); pv != nil {
		res.Violate("buildblocks-panic:rebuild", fmt.Sprintf("BuildBlocks panicked (%v) when rebuilding a path that already carried blocks", pv), wit)
		return
	}
	if err2 != nil {
		res.Violate("valid-path-refused:rebuild", fmt.Sprintf("rebuilding a valid path on a struct that already carried blocks was refused: %v", err2), wit)
		return
	}
	want := refSize(fwd2, ret2)
	if len(sp.ForwardBlock) != want || len(sp.ReturnBlock) != want {
		res.Violate("blocks-wrong-length:rebuild", fmt.Sprintf("rebuilt blocks have lengths %d/%d, reference size %d", len(sp.ForwardBlock), len(sp.ReturnBlock), want), wit)
		return
	}
	if fail := traverse(fwd2, ret2, sp.ForwardBlock, sp.ReturnBlock, want); fail != "" {
		res.Violate("traversal-failed:rebuild", fmt.Sprintf("path rebuilt on a struct that carried the blocks of an earlier %d-hop path (now %d hops, block size %d): %s (forward block %x)", len(fwd1), len(fwd2), want, fail, sp.ForwardBlock), wit)
		return
	}
	if !bytes.Equal(held.ForwardBlock, saveF) || !bytes.Equal(held.ReturnBlock, saveR) {
		res.Violate("earlier-blocks-changed-by-rebuild", fmt.Sprintf("rebuilding the path changed the blocks of the copy handed out before (forward %x -> %x)", saveF, held.ForwardBlock), wit)
		return
	}
	res.Count("paths_rebuilt_in_place", 1)
	res.Case("rebuild|"+pathKey(fwd1, ret1)+">"+pathKey(fwd2, ret2), true)
}

func parallel(n int, fn func(w int)) {
	var wg sync.WaitGroup
	for w := 0; w < n; w++ {
		wg.Add(1)
		go func(w int) { defer wg.Done(); fn(w) }(w)
	}
	wg.Wait()
}

var reps6 = []m.SwitchLabel{1, 127, 128, 16383, 16384, 65535}
var reps3 = []m.SwitchLabel{1, 128, 16384}

// exhaustive enumerates all label vectors for n hops over reps.
func exhaustive(res *core.Result, n int, reps []m.SwitchLabel, shard, shards int) {
	k := 2 * (n - 1)
	idx := make([]int, k)
	count := 0
	for {
		if count%shards == shard {
			fwd := make([]m.SwitchLabel, n)
			ret := make([]m.SwitchLabel, n)
			for i := 0; i < n-1; i++ {
				fwd[i] = reps[idx[i]]
				ret[i+1] = reps[idx[n-1+i]]
			}
			checkPath(res, fwd, ret, true)
		}
		count++
		// increment
		p := 0
		for p < k {
			idx[p]++
			if idx[p] < len(reps) {
				break
			}
			idx[p] = 0
			p++
		}
		if p == k {
			return
		}
	}
}

func randLabel(r *rand.Rand, classWeights [3]int) m.SwitchLabel {
	t := r.IntN(classWeights[0] + classWeights[1] + classWeights[2])
	switch {
	case t < classWeights[0]:
		return m.SwitchLabel(1 + r.IntN(127))
	case t < classWeights[0]+classWeights[1]:
		return m.SwitchLabel(128 + r.IntN(16383-128+1))
	default:
		return m.SwitchLabel(16384 + r.IntN(65535-16384+1))
	}
}

func randomPath(r *rand.Rand) (fwd, ret []m.SwitchLabel) {
	var n int
	switch r.IntN(10) {
	case 0, 1, 2, 3, 4:
		n = 2 + r.IntN(39) // 2..40
	case 5, 6:
		n = 41 + r.IntN(61) // 41..101
	case 7:
		n = 2 + r.IntN(4)
	default:
		n = 80 + r.IntN(22) // long: near the limit with big labels
	}
	weights := [][3]int{{1, 0, 0}, {0, 1, 0}, {0, 0, 1}, {1, 1, 1}, {8, 1, 1}, {1, 1, 8}, {1, 8, 1}}[r.IntN(7)]
	fwd = make([]m.SwitchLabel, n)
	ret = make([]m.SwitchLabel, n)
	for i := 0; i < n-1; i++ {
		fwd[i] = randLabel(r, weights)
		ret[i+1] = randLabel(r, weights)
	}
	return
}

// nearLimit builds paths whose required size lands in 250..260.
func nearLimit(r *rand.Rand) (fwd, ret []m.SwitchLabel) {
	target := 250 + r.IntN(11)
	for {
		fwd = []m.SwitchLabel{}
		ret = []m.SwitchLabel{0}
		weights := [][3]int{{1, 1, 1}, {1, 0, 0}, {0, 1, 0}, {0, 0, 1}, {1, 3, 0}}[r.IntN(5)]
		sum := 0
		for sum < target-1 && len(fwd) < 300 {
			l := randLabel(r, weights)
			fwd = append(fwd, l)
			ret = append(ret, randLabel(r, weights))
			sum += enc(l)
		}
		fwd = append(fwd, 0)
		if len(fwd) != len(ret) {
			ret = ret[:len(fwd)]
		}
		if s := refSize(fwd, ret); s >= 245 && s <= 265 {
			return
		}
	}
}

func run(c *core.Ctx) {
	res := c.Res
	const W = 16
	// Exhaustive part.
	for n := 2; n <= 4; n++ {
		parallel(W, func(w int) { exhaustive(res, n, reps6, w, W) })
	}
	maxN3 := c.Q(5, 6)
	for n := 5; n <= maxN3; n++ {
		parallel(W, func(w int) { exhaustive(res, n, reps3, w, W) })
	}
	res.Count("exhaustive_paths", res.Evaluations)
	if c.Tier == core.Thorough {
		res.Exhaustive = false
	}

	// Random part.
	nRandom := c.Q(60000, 3000000)
	parallel(W, func(w int) {
		r := core.RNG(fmt.Sprintf("c12/random/%d", w))
		for i := w; i < nRandom; i += W {
			var fwd, ret []m.SwitchLabel
			if i%5 == 0 {
				fwd, ret = nearLimit(r)
			} else {
				fwd, ret = randomPath(r)
			}
			if i < 3*W && i%W == 0 {
				res.Sample(map[string]any{"hops": len(fwd), "forward_labels": fwd, "return_labels": ret, "reference_size": refSize(fwd, ret)})
			}
			checkPath(res, fwd, ret, i%4 == 0)
			if i%3 == 0 {
				// refresh with a path of the same or a shorter shape (fewer hops and/or shorter labels)
				fwd2, ret2 := randomPath(r)
				if len(fwd2) > len(fwd) {
					fwd2, ret2 = fwd2[len(fwd2)-len(fwd):], ret2[len(ret2)-len(fwd):]
					fwd2, ret2 = append([]m.SwitchLabel(nil), fwd2...), append([]m.SwitchLabel(nil), ret2...)
					ret2[0] = 0
				}
				checkRebuild(res, fwd, ret, fwd2, ret2)
				checkRebuild(res, fwd2, ret2, fwd, ret)
			}
		}
	})
	res.Sample(map[string]any{"hops": 2, "forward_labels": []int{16384, 0}, "return_labels": []int{0, 1}, "note": "two-hop path with a three-byte label (not covered by the repo tests)"})
	res.Assume("a valid path has hop[0].ReturnLabel == 0 and hop[last].ForwardLabel == 0 and non-zero labels elsewhere (what announcements produce)")
	res.Require(res.Counter("oversize_paths_refused") >= 100, "fewer than 100 oversize paths exercised")
	res.Require(res.Counter("paths_traversed_both_ways") >= 10000, "fewer than 10000 traversals")
	res.Require(res.Counter("paths_rebuilt_in_place") >= 1000, "fewer than 1000 in-place rebuilds")
}
