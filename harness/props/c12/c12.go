// Package c12: switch-label source routes traverse forward and reverse exactly.
package c12

import (
	"bytes"
	"fmt"
	"github.com/mycoria/mycoria/frame"
	"math/rand/v2"
	"net/netip"
	"strings"
	"time"
	"verifharness/env"
	"verifharness/vmesh"

	"github.com/mycoria/mycoria/m"

	"verifharness/core"
)

func init() {
	core.Register(&core.Prop{
		ID:    "C12",
		Level: "exploration",
		Rule: "switch paths: exhaustive over label size-class representatives {1,127,128,16383,16384,65535} for 2..4 hops and {1,128,16384} for 5..6 hops, " +
			"seeded random label vectors for 2..101 hops incl. totals around and beyond the 255-byte limit; each path is built with the real BuildBlocks and " +
			"traversed forward and back with the real NextRotateSwitchBlock/TransformToReturnBlock inside guard bytes; non-trivial = mixed label sizes or >=128 label bytes; distinct by label vector",
		Run:              run,
		CrashIsViolation: true,
	})
}

func enc(l m.SwitchLabel) int {
	switch {
	case l < 1<<7:
		return 1
	case l < 1<<14:
		return 2
	default:
		return 3
	}
}

// refSize is the reference occupancy bound, written from the statement:
// bytes of forward labels not yet consumed + the terminating zero label +
// bytes of return labels already written, maximised over all steps.
func refSize(fwd, ret []m.SwitchLabel) int {
	n := len(fwd) // hops; fwd[n-1]==0, ret[0]==0
	sumF := 0
	for i := 0; i < n-1; i++ {
		sumF += enc(fwd[i])
	}
	best := sumF // initial block: all forward labels
	remF := sumF
	written := 0
	for i := 0; i <= n-2; i++ { // after hop i rotated
		remF -= enc(fwd[i])
		if i >= 1 {
			written += enc(ret[i])
		}
		if v := remF + 1 + written; v > best {
			best = v
		}
	}
	written += enc(ret[n-1])
	if written > best { // final: all return labels
		best = written
	}
	return best
}

func pathKey(fwd, ret []m.SwitchLabel) string {
	var b strings.Builder
	for i := range fwd {
		fmt.Fprintf(&b, "%d/%d,", fwd[i], ret[i])
	}
	return b.String()
}

func nontrivial(fwd, ret []m.SwitchLabel) bool {
	sizes := map[int]bool{}
	total := 0
	for i := 0; i < len(fwd)-1; i++ {
		sizes[enc(fwd[i])] = true
		total += enc(fwd[i])
	}
	for i := 1; i < len(ret); i++ {
		sizes[enc(ret[i])] = true
	}
	return len(sizes) > 1 || total >= 128
}

const guard = 16

// traverse runs the real rotation over a block of the given size embedded in
// guard bytes; returns "" on success or a description of the failure.
func traverse(fwd, ret []m.SwitchLabel, fwdBlock, retBlock []byte, size int) (fail string) {
	defer func() {
		if r := recover(); r != nil {
			fail = fmt.Sprintf("panic: %v", r)
		}
	}()
	n := len(fwd)
	buf := make([]byte, guard+size+guard, guard+size+guard+32)
	for i := range buf {
		buf[i] = 0xA5
	}
	block := buf[guard : guard+size] // spare capacity behind, like a frame's switch block
	clear(block)
	if len(fwdBlock) > size {
		// Truncated start (only when probing minimality): labels must fit.
		for _, b := range fwdBlock[size:] {
			if b != 0 {
				return "forward labels do not fit"
			}
		}
		copy(block, fwdBlock[:size])
	} else {
		copy(block, fwdBlock)
	}
	guardsOK := func() bool {
		for i := 0; i < guard; i++ {
			if buf[i] != 0xA5 || buf[guard+size+i] != 0xA5 {
				return false
			}
		}
		return true
	}
	for i := 0; i < n; i++ {
		next, err := m.NextRotateSwitchBlock(block, ret[i])
		if err != nil {
			return fmt.Sprintf("forward hop %d: %v", i, err)
		}
		if !guardsOK() {
			return fmt.Sprintf("forward hop %d: byte outside the block modified", i)
		}
		if next != fwd[i] {
			return fmt.Sprintf("forward hop %d: got label %d want %d", i, next, fwd[i])
		}
	}
	m.TransformToReturnBlock(block)
	if !guardsOK() {
		return "transform to return block: byte outside the block modified"
	}
	wantRet := retBlock
	if len(wantRet) > size {
		wantRet = wantRet[:size]
	}
	if !bytes.Equal(block, pad(wantRet, size)) {
		return fmt.Sprintf("block after last hop reverses to %x, path's return block is %x", block, retBlock)
	}
	for i := n - 1; i >= 0; i-- {
		next, err := m.NextRotateSwitchBlock(block, fwd[i])
		if err != nil {
			return fmt.Sprintf("return hop %d: %v", i, err)
		}
		if !guardsOK() {
			return fmt.Sprintf("return hop %d: byte outside the block modified", i)
		}
		if next != ret[i] {
			return fmt.Sprintf("return hop %d: got label %d want %d", i, next, ret[i])
		}
	}
	m.TransformToReturnBlock(block)
	if !guardsOK() {
		return "transform back: byte outside the block modified"
	}
	if !bytes.Equal(block, pad(fwdBlock, size)) {
		return fmt.Sprintf("reverse traversal reverses to %x, original forward block is %x", block, fwdBlock)
	}
	return ""
}

func pad(b []byte, size int) []byte {
	if len(b) >= size {
		return b[:size]
	}
	out := make([]byte, size)
	copy(out, b)
	return out
}

func checkPath(res *core.Result, fwd, ret []m.SwitchLabel, probeMinimal bool) {
	n := len(fwd)
	hops := make([]m.SwitchHop, n)
	for i := range hops {
		hops[i] = m.SwitchHop{ForwardLabel: fwd[i], ReturnLabel: ret[i]}
	}
	sp := &m.SwitchPath{Hops: hops}
	want := refSize(fwd, ret)
	wit := map[string]any{"forward_labels": fwd, "return_labels": ret, "reference_size": want}

	var buildErr error
	var panicked any
	func() {
		defer func() { panicked = recover() }()
		buildErr = sp.BuildBlocks()
	}()
	if panicked != nil {
		cls := "fits"
		if want > 255 {
			cls = "oversize"
		}
		res.Violate("buildblocks-panic:"+cls, fmt.Sprintf("BuildBlocks panicked (%v) on a %d-hop path needing %d label bytes", panicked, n, want), wit)
		return
	}
	if want > 255 {
		if buildErr == nil {
			res.Violate("oversize-accepted", fmt.Sprintf("path needing %d > 255 label bytes was not refused (block size %d)", want, len(sp.ForwardBlock)), wit)
			return
		}
		res.Case(pathKey(fwd, ret), true)
		res.Count("oversize_paths_refused", 1)
		return
	}
	if buildErr != nil {
		res.Violate("valid-path-refused", fmt.Sprintf("valid path (%d hops, %d label bytes) refused: %v", n, want, buildErr), wit)
		return
	}
	got, err := sp.CalculateBlockSize()
	if err != nil || got != want {
		res.Violate("blocksize-mismatch", fmt.Sprintf("CalculateBlockSize=%d (err %v), reference (max occupancy over all steps)=%d", got, err, want), wit)
		return
	}
	if len(sp.ForwardBlock) != got || len(sp.ReturnBlock) != got {
		res.Violate("blocks-wrong-length", fmt.Sprintf("blocks have lengths %d/%d, computed size %d", len(sp.ForwardBlock), len(sp.ReturnBlock), got), wit)
		return
	}
	if fail := traverse(fwd, ret, sp.ForwardBlock, sp.ReturnBlock, got); fail != "" {
		res.Violate("traversal-failed", fmt.Sprintf("%d-hop path, block size %d: %s", n, got, fail), wit)
		return
	}
	res.Count("paths_traversed_both_ways", 1)
	if probeMinimal && got > 1 {
		// Minimality, observed: one byte less must not carry the path.
		if fail := traverse(fwd, ret, sp.ForwardBlock, sp.ReturnBlock, got-1); fail == "" {
			res.Violate("blocksize-not-minimal", fmt.Sprintf("%d-hop path also traverses correctly in %d bytes, computed size %d", n, got-1, got), wit)
			return
		}
		res.Count("minimality_probes_failed_as_expected", 1)
	}
	res.Case(pathKey(fwd, ret), nontrivial(fwd, ret))
}

// checkRebuild: blocks are built on a path struct that already carries blocks (a route refresh: the routing
// table copies entries by value and rebuilds paths in place). The rebuilt path must traverse exactly, and the
// blocks of the copy handed out earlier must still carry the earlier path.
func checkRebuild(res *core.Result, fwd1, ret1, fwd2, ret2 []m.SwitchLabel) {
	mk := func(fwd, ret []m.SwitchLabel) []m.SwitchHop {
		hops := make([]m.SwitchHop, len(fwd))
		for i := range hops {
			hops[i] = m.SwitchHop{ForwardLabel: fwd[i], ReturnLabel: ret[i]}
		}
		return hops
	}
	if refSize(fwd1, ret1) > 255 || refSize(fwd2, ret2) > 255 {
		return
	}
	wit := map[string]any{"first_forward": fwd1, "first_return": ret1, "second_forward": fwd2, "second_return": ret2, "case_id": "rebuild"}
	sp := &m.SwitchPath{Hops: mk(fwd1, ret1)}
	var err1, err2 error
	if pv := func() (pv any) {
		defer func() { pv = recover() }()
		err1 = sp.BuildBlocks()
		return nil
	}(); pv != nil || err1 != nil {
		return // judged by checkPath
	}
	held := *sp // what a table entry copied by value holds
	saveF, saveR := bytes.Clone(sp.ForwardBlock), bytes.Clone(sp.ReturnBlock)
	sp.Hops = mk(fwd2, ret2)
	if pv := func() (pv any) {
		defer func() { pv = recover() }()
		err2 = sp.BuildBlocks()
		return nil
	}(); pv != nil {
		res.Violate("buildblocks-panic:rebuild", fmt.Sprintf("BuildBlocks panicked (%v) when rebuilding a path that already carried blocks", pv), wit)
		return
	}
	if err2 != nil {
		res.Violate("valid-path-refused:rebuild", fmt.Sprintf("rebuilding a valid path on a struct that already carried blocks was refused: %v", err2), wit)
		return
	}
	want := refSize(fwd2, ret2)
	if len(sp.ForwardBlock) != want || len(sp.ReturnBlock) != want {
		res.Violate("blocks-wrong-length:rebuild", fmt.Sprintf("rebuilt blocks have lengths %d/%d, reference size %d", len(sp.ForwardBlock), len(sp.ReturnBlock), want), wit)
		return
	}
	if fail := traverse(fwd2, ret2, sp.ForwardBlock, sp.ReturnBlock, want); fail != "" {
		res.Violate("traversal-failed:rebuild", fmt.Sprintf("path rebuilt on a struct that carried the blocks of an earlier %d-hop path (now %d hops, block size %d): %s (forward block %x)", len(fwd1), len(fwd2), want, fail, sp.ForwardBlock), wit)
		return
	}
	if !bytes.Equal(held.ForwardBlock, saveF) || !bytes.Equal(held.ReturnBlock, saveR) {
		res.Violate("earlier-blocks-changed-by-rebuild", fmt.Sprintf("rebuilding the path changed the blocks of the copy handed out before (forward %x -> %x)", saveF, held.ForwardBlock), wit)
		return
	}
	res.Count("paths_rebuilt_in_place", 1)
	res.Case("rebuild|"+pathKey(fwd1, ret1)+">"+pathKey(fwd2, ret2), true)
}

// checkTableUpdate: a route is stored in a routing table, taken out again, its hop labels are changed (a relay
// reconnected) and it is stored again: the blocks the table then holds must carry the new path.
func checkTableUpdate(res *core.Result, r *rand.Rand, fwd1, ret1, fwd2, ret2 []m.SwitchLabel) {
	if len(fwd1) != len(fwd2) || refSize(fwd1, ret1) > 255 || refSize(fwd2, ret2) > 255 {
		return
	}
	self := netip.MustParseAddr("fd10::1")
	dst := netip.MustParseAddr("fd20::9")
	mk := func(fwd, ret []m.SwitchLabel) []m.SwitchHop {
		hops := make([]m.SwitchHop, len(fwd))
		for i := range hops {
			a := [16]byte{0xfd, 0x30, 15: byte(i + 1)}
			hops[i] = m.SwitchHop{Router: netip.AddrFrom16(a), ForwardLabel: fwd[i], ReturnLabel: ret[i], Delay: 5}
		}
		hops[0].Router = self
		hops[len(hops)-1].Router = dst
		return hops
	}
	tbl := m.NewRoutingTable(m.RoutingTableConfig{RoutablePrefixes: m.GetRoutablePrefixesFor(self, netip.MustParsePrefix("fd00::/8"))})
	hops1 := mk(fwd1, ret1)
	entry := m.RoutingTableEntry{DstIP: dst, NextHop: hops1[1].Router, Path: m.SwitchPath{Hops: hops1}, Source: m.RouteSourceGossip, Expires: time.Now().Add(time.Hour)}
	if len(hops1) < 3 {
		return
	}
	if added, err := tbl.AddRoute(entry); err != nil || !added {
		return
	}
	got, _ := tbl.LookupNearest(dst)
	if got == nil {
		return
	}
	upd := *got // what a caller holding the entry updates
	upd.Path.Hops = mk(fwd2, ret2)
	wit := map[string]any{"first_forward": fwd1, "second_forward": fwd2, "second_return": ret2, "case_id": "table-update"}
	if added, err := tbl.AddRoute(upd); err != nil || !added {
		res.Violate("valid-path-refused:table-update", fmt.Sprintf("storing an updated route (new hop labels) was refused: added=%v err=%v", added, err), wit)
		return
	}
	got2, _ := tbl.LookupNearest(dst)
	if got2 == nil {
		res.Violate("traversal-failed:table-update", "the updated route is not in the table", wit)
		return
	}
	want := refSize(fwd2, ret2)
	if len(got2.Path.ForwardBlock) != want || len(got2.Path.ReturnBlock) != want {
		res.Violate("blocks-wrong-length:table-update", fmt.Sprintf("after a route update the table holds blocks of %d/%d bytes, the new labels need %d (forward block %x)", len(got2.Path.ForwardBlock), len(got2.Path.ReturnBlock), want, got2.Path.ForwardBlock), wit)
		return
	}
	if fail := traverse(fwd2, ret2, got2.Path.ForwardBlock, got2.Path.ReturnBlock, want); fail != "" {
		res.Violate("traversal-failed:table-update", fmt.Sprintf("after a route update the blocks held by the table do not carry the new path: %s (forward block %x)", fail, got2.Path.ForwardBlock), wit)
		return
	}
	res.Count("table_route_updates", 1)
	_ = r
}

// checkFrameCarrier: the forward block of a valid path travels in a frame: building the frame, parsing it and
// rotating the block in place hop by hop inside the frame's bytes must work for every block size up to 255 and
// must leave the message behind the block untouched.
func checkFrameCarrier(res *core.Result, b *frame.Builder, fwd, ret []m.SwitchLabel) {
	if refSize(fwd, ret) > 255 {
		return
	}
	hops := make([]m.SwitchHop, len(fwd))
	for i := range hops {
		hops[i] = m.SwitchHop{ForwardLabel: fwd[i], ReturnLabel: ret[i]}
	}
	sp := &m.SwitchPath{Hops: hops}
	if err := sp.BuildBlocks(); err != nil {
		return
	}
	size := len(sp.ForwardBlock)
	wit := map[string]any{"forward_labels": fwd, "return_labels": ret, "block_size": size, "case_id": fmt.Sprintf("frame-carrier|%d", size)}
	msg := []byte("c12-message-behind-the-switch-block")
	src, dst := netip.MustParseAddr("fd10::1"), netip.MustParseAddr("fd20::9")
	f, err := b.NewFrameV1(src, dst, frame.SessionData, sp.ForwardBlock, msg, nil)
	if err != nil {
		res.Violate("frame-refuses-valid-block", fmt.Sprintf("a frame cannot carry the %d-byte switch block of a valid %d-hop path: %v", size, len(fwd), err), wit)
		return
	}
	d, _ := f.FrameDataWithMargins(0, 0)
	raw := append([]byte(nil), d...)
	f.ReturnToPool()
	g, err := b.ParseFrame(raw, nil, 0)
	if err != nil {
		res.Violate("frame-refuses-valid-block", fmt.Sprintf("a frame with a %d-byte switch block does not parse: %v", size, err), wit)
		return
	}
	defer g.ReturnToPool()
	block := g.SwitchBlock()
	for i := 0; i < len(fwd); i++ {
		next, err := m.NextRotateSwitchBlock(block, ret[i])
		if err != nil || next != fwd[i] {
			res.Violate("traversal-failed:in-frame", fmt.Sprintf("rotating the %d-byte block inside a frame: hop %d gave label %d (err %v), want %d", size, i, next, err, fwd[i]), wit)
			return
		}
	}
	if !bytes.Equal(g.MessageData(), msg) {
		res.Violate("traversal-failed:in-frame", fmt.Sprintf("rotating the %d-byte block inside a frame changed the message behind it", size), wit)
		return
	}
	res.Count("blocks_carried_in_frames", 1)
	res.Count(fmt.Sprintf("blocks_carried_in_frames:size%d", min(size/32*32, 224)), 1)
	if size == 255 {
		res.Count("blocks_carried_in_frames:exactly255", 1)
	}
}

// checkFrameLifecycle: one frame object carries a request over the path, is given a bigger appendix on the way (a
// relay attaching data), is turned into a reply of another size at the destination (in place, as the handshake
// code does with Reply) and carries that reply back over the reversed block. Every hop asks the frame for its
// switch block and rotates it, as the switch does. After every step the bytes that would go on the wire must
// carry exactly the block a plain byte slice holds after the same rotations, and the message behind it.
func checkFrameLifecycle(res *core.Result, b *frame.Builder, r *rand.Rand, fwd, ret []m.SwitchLabel) {
	if refSize(fwd, ret) > 255 {
		return
	}
	hops := make([]m.SwitchHop, len(fwd))
	for i := range hops {
		hops[i] = m.SwitchHop{ForwardLabel: fwd[i], ReturnLabel: ret[i]}
	}
	sp := &m.SwitchPath{Hops: hops}
	if err := sp.BuildBlocks(); err != nil {
		return
	}
	size := len(sp.ForwardBlock)
	apxSize := []int{0, 30, 700, 3000, 9000}[r.IntN(5)]
	replySize := []int{16, 400, 700, 2000, 6000}[r.IntN(5)]
	apxAt := r.IntN(len(fwd))
	wit := map[string]any{"forward_labels": fwd, "return_labels": ret, "block_size": size, "appendix_grown_to": apxSize, "at_hop": apxAt, "reply_size": replySize, "case_id": fmt.Sprintf("frame-lifecycle|%d|%d|%d", size, apxSize, replySize)}
	msg := core.RandBytes(r, 40)
	src, dst := netip.MustParseAddr("fd10::1"), netip.MustParseAddr("fd20::9")
	f, err := b.NewFrameV1(src, dst, frame.SessionData, sp.ForwardBlock, msg, nil)
	if err != nil {
		return // judged by checkFrameCarrier
	}
	defer f.ReturnToPool()
	ref := append([]byte(nil), sp.ForwardBlock...)
	onWire := func(step string, wantMsg []byte) bool {
		d, err := f.FrameDataWithMargins(0, 0)
		if err != nil {
			res.Violate("frame-lifecycle:no-frame-data", fmt.Sprintf("%s: %v", step, err), wit)
			return false
		}
		sw := int(d[48])
		if sw != len(ref) || !bytes.Equal(d[49:49+sw], ref) {
			res.Violate("frame-lifecycle:wire-block-differs", fmt.Sprintf("%s: the frame's bytes carry switch block %x, the same rotations on a plain slice give %x (block size %d, appendix grown to %d at hop %d, reply of %d bytes)", step, d[49:49+min(sw, len(d)-49)], ref, size, apxSize, apxAt, replySize), wit)
			return false
		}
		if !bytes.Equal(f.MessageData(), wantMsg) {
			res.Violate("frame-lifecycle:message-changed", fmt.Sprintf("%s: the message behind the switch block changed", step), wit)
			return false
		}
		return true
	}
	for i := 0; i < len(fwd); i++ {
		if i == apxAt && apxSize > 0 {
			if err := f.SetAppendixData(core.RandBytes(r, apxSize)); err != nil {
				res.Count("frame_lifecycle_appendix_refused", 1)
			} else if !onWire(fmt.Sprintf("after growing the appendix at hop %d", i), msg) {
				return
			}
		}
		next, err := m.NextRotateSwitchBlock(f.SwitchBlock(), ret[i])
		want, _ := m.NextRotateSwitchBlock(ref, ret[i])
		if err != nil || next != want || next != fwd[i] {
			res.Violate("frame-lifecycle:wrong-label", fmt.Sprintf("forward hop %d: the frame's block gave label %d (err %v), want %d", i, next, err, fwd[i]), wit)
			return
		}
		if !onWire(fmt.Sprintf("after forward hop %d", i), msg) {
			return
		}
	}
	// the destination answers in place over the reversed block
	// (either over a copy of the block or - the shorter way to write it - reversing the block where it is and
	// handing the frame's own block to Reply)
	rb := append([]byte(nil), f.SwitchBlock()...)
	m.TransformToReturnBlock(rb)
	want := append([]byte(nil), rb...)
	if replySize <= len(msg) && r.IntN(2) == 0 {
		// (only when the reply fits the buffer the frame lives in: where Reply has to move the frame to a bigger
		// buffer the old one is released, and a reference into it is the caller's mistake, not judged here)
		m.TransformToReturnBlock(f.SwitchBlock())
		rb = f.SwitchBlock()
		res.Count("frame_lifecycle_replies_over_the_frames_own_block", 1)
	}
	reply := core.RandBytes(r, replySize)
	if err := f.Reply(rb, reply, nil); err != nil {
		res.Violate("frame-lifecycle:reply-refused", fmt.Sprintf("turning the frame into a %d-byte reply over its reversed %d-byte block failed: %v", replySize, size, err), wit)
		return
	}
	ref = want
	if !onWire("after turning the frame into a reply", reply) {
		return
	}
	for i := len(fwd) - 1; i >= 0; i-- {
		next, err := m.NextRotateSwitchBlock(f.SwitchBlock(), fwd[i])
		want, _ := m.NextRotateSwitchBlock(ref, fwd[i])
		if err != nil || next != want || next != ret[i] {
			res.Violate("frame-lifecycle:wrong-label", fmt.Sprintf("return hop %d: the frame's block gave label %d (err %v), want %d", i, next, err, ret[i]), wit)
			return
		}
		if !onWire(fmt.Sprintf("after return hop %d", i), reply) {
			return
		}
	}
	res.Count("frame_lifecycles_checked", 1)
	res.Case(fmt.Sprintf("frame-lifecycle|%d|%d|%d|%d", len(fwd), size/32, apxSize, replySize), true)
}

// meshTraversal: the forward block of a real route (learned from real announcements) is carried by a frame
// through the real switches of a virtual mesh; at the destination the block in the frame must reverse to exactly
// the route's return block, and a frame sent back over that reversed block must arrive at the origin.
func meshTraversal(res *core.Result, r *rand.Rand, t *vmesh.Topology, labels vmesh.LabelMode) {
	ids := make([]*m.Address, t.N)
	for i := range ids {
		ids[i] = env.NewIdentity(r, nil)
	}
	ms, err := vmesh.Build(r, t, ids, vmesh.BuildOpts{Labels: labels, Introduce: true})
	if err != nil {
		res.Inconcl("build: %v", err)
		return
	}
	if err := ms.Converge(r, false); err != nil {
		res.Inconcl("mesh did not converge (C09's business): %v", err)
		return
	}
	desc := fmt.Sprintf("%s labels=%d", t.Canon(), labels)
	// Label space under pressure: at every router a further neighbour asks for a link under a switch label that
	// one of the router's links already carries (two setups that derived the same label). Whether the registry
	// refuses it or not, the labels the routes were built from must keep leading where they led.
	if t.N >= 3 {
		extra := env.NewIdentity(r, nil)
		for _, nd := range ms.Nodes {
			for nb, l := range nd.Links {
				decoy := ms.AddStub(extra)
				if err := ms.ConnectOneWay(nd.Idx, decoy.Idx, l.SwitchLabel()); err == nil {
					res.Count("second_link_with_a_label_in_use_accepted", 1)
				} else {
					res.Count("second_link_with_a_label_in_use_refused", 1)
				}
				_ = nb
				break
			}
		}
		desc += " +links-asking-for-labels-in-use"
	}
	round := 0
again:
	send := func(from *vmesh.Node, dst netip.Addr, block []byte) (arrivedAt []int, arrived [][]byte, ok bool) {
		blk := append([]byte(nil), block...)
		first, err := m.NextRotateSwitchBlock(blk, 0)
		if err != nil || first == 0 {
			return nil, nil, false
		}
		f, err := from.Inst.BuilderV.NewFrameV1(from.ID.IP, dst, frame.SessionData, blk, core.RandBytes(r, 60), nil)
		if err != nil {
			return nil, nil, false
		}
		fd, _ := f.FrameDataWithMargins(0, 0)
		key := vmesh.Key(fd)
		ms.OnEscalate = func(node int, d []byte) {
			if vmesh.Key(d) == key {
				arrived = append(arrived, d)
				arrivedAt = append(arrivedAt, node)
			}
		}
		_ = from.Inst.SwitchV.ForwardByLabel(f, first)
		ms.Drain(vmesh.FIFO, 500)
		ms.OnEscalate = nil
		return arrivedAt, arrived, true
	}
	for a := 0; a < t.N; a++ {
		for b := 0; b < t.N; b++ {
			if a == b {
				continue
			}
			A, B := ms.Nodes[a], ms.Nodes[b]
			e, _ := A.Inst.RouterV.Table().LookupNearest(B.ID.IP)
			if e == nil || len(e.Path.Hops) < 2 || len(e.Path.ForwardBlock) == 0 {
				continue
			}
			wit := map[string]any{"mesh": desc, "from": a, "to": b, "hops": len(e.Path.Hops), "forward_block": fmt.Sprintf("%x", e.Path.ForwardBlock), "return_block": fmt.Sprintf("%x", e.Path.ReturnBlock), "case_id": fmt.Sprintf("mesh|%s|%d>%d", desc, a, b)}
			at, got, ok := send(A, B.ID.IP, e.Path.ForwardBlock)
			if !ok {
				continue
			}
			if len(at) != 1 || at[0] != b {
				res.Violate("traversal-failed:mesh", fmt.Sprintf("%s: a frame carrying the forward block of the %d-hop route %d->%d was handed up at %v", desc, len(e.Path.Hops), a, b, at), wit)
				return
			}
			sw := int(got[0][48])
			blockAtDst := append([]byte(nil), got[0][49:49+sw]...)
			m.TransformToReturnBlock(blockAtDst)
			if !bytes.Equal(blockAtDst, pad(e.Path.ReturnBlock, sw)) {
				res.Violate("traversal-failed:mesh-return-block", fmt.Sprintf("%s: after the real switches carried the forward block of the %d-hop route %d->%d, the block in the frame reverses to %x, the route's return block is %x", desc, len(e.Path.Hops), a, b, blockAtDst, e.Path.ReturnBlock), wit)
				return
			}
			// and back over the reversed block
			at2, _, ok2 := send(B, A.ID.IP, blockAtDst)
			if ok2 && (len(at2) != 1 || at2[0] != a) {
				res.Violate("traversal-failed:mesh-return-trip", fmt.Sprintf("%s: a frame sent back over the reversed block of route %d->%d was handed up at %v, not at the origin", desc, a, b, at2), wit)
				return
			}
			res.Count("mesh_routes_traversed_and_reversed", 1)
			res.Case(fmt.Sprintf("mesh|%s|%d|%d", desc, len(e.Path.Hops), len(e.Path.ForwardBlock)), true)
		}
	}
	// Every link goes down and comes back under the same labels (a reconnect: address-derived labels are stable),
	// everybody announces again, and the same traversals must work over the new link objects.
	if round == 0 && len(t.Edges) > 0 && len(ms.Panics) == 0 {
		round = 1
		type lab struct{ ij, ji m.SwitchLabel }
		labs := map[[2]int]lab{}
		for _, e := range t.Edges {
			labs[e] = lab{ms.Nodes[e[0]].Links[e[1]].SwitchLabel(), ms.Nodes[e[1]].Links[e[0]].SwitchLabel()}
		}
		for _, e := range t.Edges {
			ms.Disconnect(e[0], e[1])
			if err := ms.Connect(e[0], e[1], labs[e].ij, labs[e].ji); err != nil {
				res.Inconcl("reconnect %v: %v", e, err)
				return
			}
		}
		time.Sleep(2 * time.Millisecond)
		if err := ms.Converge(r, false); err != nil {
			res.Inconcl("mesh did not converge after reconnects (C09's business): %v", err)
			return
		}
		desc += " after-every-link-reconnected-with-the-same-labels"
		res.Count("meshes_traversed_again_after_reconnects", 1)
		goto again
	}
}

// meshTraversalLive: the same traversal, but through the real worker pools of the switches (Switch.Start, frames
// fed through the switch's input channel) instead of the synchronous hook, so that the worker loop itself is part
// of what is observed.
func meshTraversalLive(res *core.Result, r *rand.Rand, t *vmesh.Topology, labels vmesh.LabelMode) {
	ids := make([]*m.Address, t.N)
	for i := range ids {
		ids[i] = env.NewIdentity(r, nil)
	}
	ms, err := vmesh.Build(r, t, ids, vmesh.BuildOpts{Labels: labels, Introduce: true})
	if err != nil {
		res.Inconcl("build: %v", err)
		return
	}
	if err := ms.Converge(r, false); err != nil {
		res.Inconcl("mesh did not converge (C09's business): %v", err)
		return
	}
	if err := ms.StartSwitches(); err != nil {
		res.Inconcl("start switches: %v", err)
		return
	}
	defer ms.StopSwitches()
	desc := fmt.Sprintf("%s labels=%d (live switch workers)", t.Canon(), labels)
	// carry sends a frame with the given block from node `from` and follows it through the live switches
	carry := func(from *vmesh.Node, dst netip.Addr, block []byte) (at int, data []byte, crossings int, lost bool, ok bool) {
		blk := append([]byte(nil), block...)
		first, err := m.NextRotateSwitchBlock(blk, 0)
		if err != nil || first == 0 {
			return 0, nil, 0, false, false
		}
		f, err := from.Inst.BuilderV.NewFrameV1(from.ID.IP, dst, frame.SessionData, blk, core.RandBytes(r, 60), nil)
		if err != nil {
			return 0, nil, 0, false, false
		}
		fd, _ := f.FrameDataWithMargins(0, 0)
		key := vmesh.Key(fd)
		if err := from.Inst.SwitchV.ForwardByLabel(f, first); err != nil {
			return 0, nil, 0, false, false
		}
		// the frame shows up on the first link at once, or a moment later if the switch hands it to a worker of
		// its own (bounded wait, as for every later hop in DeliverLive)
		var p *vmesh.Packet
		for deadline := time.Now().Add(10 * time.Second); p == nil && time.Now().Before(deadline); {
			if p = ms.TakeByKey(key); p == nil {
				time.Sleep(20 * time.Microsecond)
			}
		}
		for p != nil && crossings < 64 {
			crossings++
			o := ms.DeliverLive(p)
			switch {
			case o.Escalated != nil:
				return p.To, o.Escalated, crossings, false, true
			case o.Forwarded != nil:
				p = o.Forwarded
			default:
				return p.To, nil, crossings, true, true
			}
		}
		return 0, nil, crossings, true, true
	}
	for a := 0; a < t.N; a++ {
		for b := 0; b < t.N; b++ {
			if a == b {
				continue
			}
			A, B := ms.Nodes[a], ms.Nodes[b]
			e, _ := A.Inst.RouterV.Table().LookupNearest(B.ID.IP)
			if e == nil || len(e.Path.Hops) < 2 || len(e.Path.ForwardBlock) == 0 {
				continue
			}
			wit := map[string]any{"mesh": desc, "from": a, "to": b, "hops": len(e.Path.Hops), "forward_block": fmt.Sprintf("%x", e.Path.ForwardBlock), "return_block": fmt.Sprintf("%x", e.Path.ReturnBlock), "case_id": fmt.Sprintf("mesh-live|%s|%d>%d", desc, a, b)}
			at, got, _, lost, ok := carry(A, B.ID.IP, e.Path.ForwardBlock)
			if !ok {
				continue
			}
			if lost {
				res.Inconcl("%s: a frame over route %d->%d did not reappear within the watchdog time at node %d", desc, a, b, at)
				return
			}
			if at != b {
				res.Violate("traversal-failed:mesh", fmt.Sprintf("%s: a frame carrying the forward block of the %d-hop route %d->%d was handed up at node %d", desc, len(e.Path.Hops), a, b, at), wit)
				return
			}
			sw := int(got[48])
			blockAtDst := append([]byte(nil), got[49:49+sw]...)
			m.TransformToReturnBlock(blockAtDst)
			if !bytes.Equal(blockAtDst, pad(e.Path.ReturnBlock, sw)) {
				res.Violate("traversal-failed:mesh-return-block", fmt.Sprintf("%s: after the running switches carried the forward block of the %d-hop route %d->%d, the block in the frame reverses to %x, the route's return block is %x", desc, len(e.Path.Hops), a, b, blockAtDst, e.Path.ReturnBlock), wit)
				return
			}
			at2, got2, _, lost2, ok2 := carry(B, A.ID.IP, blockAtDst)
			if ok2 && !lost2 {
				if at2 != a {
					res.Violate("traversal-failed:mesh-return-trip", fmt.Sprintf("%s: a frame sent back over the reversed block of route %d->%d was handed up at node %d, not at the origin", desc, a, b, at2), wit)
					return
				}
				sw2 := int(got2[48])
				back := append([]byte(nil), got2[49:49+sw2]...)
				m.TransformToReturnBlock(back)
				if !bytes.Equal(back, pad(e.Path.ForwardBlock, sw2)) {
					res.Violate("traversal-failed:mesh-return-trip-block", fmt.Sprintf("%s: the block of the frame that came back over route %d->%d reverses to %x, the route's forward block is %x", desc, a, b, back, e.Path.ForwardBlock), wit)
					return
				}
			}
			res.Count("mesh_routes_traversed_by_live_switches", 1)
			res.Case(fmt.Sprintf("mesh-live|%s|%d|%d", desc, len(e.Path.Hops), len(e.Path.ForwardBlock)), true)
		}
	}
}

func parallel(n int, fn func(w int)) { core.Parallel(n, fn) }

var reps6 = []m.SwitchLabel{1, 127, 128, 16383, 16384, 65535}
var reps3 = []m.SwitchLabel{1, 128, 16384}

// exhaustive enumerates all label vectors for n hops over reps.
func exhaustive(res *core.Result, n int, reps []m.SwitchLabel, shard, shards int) {
	k := 2 * (n - 1)
	idx := make([]int, k)
	count := 0
	for {
		if count%shards == shard {
			fwd := make([]m.SwitchLabel, n)
			ret := make([]m.SwitchLabel, n)
			for i := 0; i < n-1; i++ {
				fwd[i] = reps[idx[i]]
				ret[i+1] = reps[idx[n-1+i]]
			}
			checkPath(res, fwd, ret, true)
		}
		count++
		// increment
		p := 0
		for p < k {
			idx[p]++
			if idx[p] < len(reps) {
				break
			}
			idx[p] = 0
			p++
		}
		if p == k {
			return
		}
	}
}

func randLabel(r *rand.Rand, classWeights [3]int) m.SwitchLabel {
	t := r.IntN(classWeights[0] + classWeights[1] + classWeights[2])
	switch {
	case t < classWeights[0]:
		return m.SwitchLabel(1 + r.IntN(127))
	case t < classWeights[0]+classWeights[1]:
		return m.SwitchLabel(128 + r.IntN(16383-128+1))
	default:
		return m.SwitchLabel(16384 + r.IntN(65535-16384+1))
	}
}

func randomPath(r *rand.Rand) (fwd, ret []m.SwitchLabel) {
	var n int
	switch r.IntN(10) {
	case 0, 1, 2, 3, 4:
		n = 2 + r.IntN(39) // 2..40
	case 5, 6:
		n = 41 + r.IntN(61) // 41..101
	case 7:
		n = 2 + r.IntN(4)
	default:
		n = 80 + r.IntN(22) // long: near the limit with big labels
	}
	weights := [][3]int{{1, 0, 0}, {0, 1, 0}, {0, 0, 1}, {1, 1, 1}, {8, 1, 1}, {1, 1, 8}, {1, 8, 1}}[r.IntN(7)]
	fwd = make([]m.SwitchLabel, n)
	ret = make([]m.SwitchLabel, n)
	for i := 0; i < n-1; i++ {
		fwd[i] = randLabel(r, weights)
		ret[i+1] = randLabel(r, weights)
	}
	return
}

// nearLimit builds paths whose required size lands in 250..260.
func nearLimit(r *rand.Rand) (fwd, ret []m.SwitchLabel) {
	target := 250 + r.IntN(11)
	for {
		fwd = []m.SwitchLabel{}
		ret = []m.SwitchLabel{0}
		weights := [][3]int{{1, 1, 1}, {1, 0, 0}, {0, 1, 0}, {0, 0, 1}, {1, 3, 0}}[r.IntN(5)]
		sum := 0
		for sum < target-1 && len(fwd) < 300 {
			l := randLabel(r, weights)
			fwd = append(fwd, l)
			ret = append(ret, randLabel(r, weights))
			sum += enc(l)
		}
		fwd = append(fwd, 0)
		if len(fwd) != len(ret) {
			ret = ret[:len(fwd)]
		}
		if s := refSize(fwd, ret); s >= 245 && s <= 265 {
			return
		}
	}
}

func run(c *core.Ctx) {
	res := c.Res
	const W = 16
	// Exhaustive part.
	for n := 2; n <= 4; n++ {
		parallel(W, func(w int) { exhaustive(res, n, reps6, w, W) })
	}
	maxN3 := c.Q(5, 6)
	for n := 5; n <= maxN3; n++ {
		parallel(W, func(w int) { exhaustive(res, n, reps3, w, W) })
	}
	res.Count("exhaustive_paths", res.Evaluations)
	if c.Tier == core.Thorough {
		res.Exhaustive = false
	}

	// Random part.
	nRandom := c.Q(60000, 3000000)
	parallel(W, func(w int) {
		r := core.RNG(fmt.Sprintf("c12/random/%d", w))
		fb := frame.NewFrameBuilder()
		fb.SetFrameMargins(12, 16)
		if w == 0 {
			// paths whose block is exactly 253, 254 and 255 bytes (85 three-byte labels = 255)
			for _, spec := range [][2]int{{85, 0}, {84, 1}, {84, 2}, {84, 3}, {83, 4}, {80, 15}} {
				var fwd, ret []m.SwitchLabel
				for k := 0; k < spec[0]; k++ {
					fwd = append(fwd, m.SwitchLabel(16384+r.IntN(40000)))
				}
				for k := 0; k < spec[1]; k++ {
					fwd = append(fwd, m.SwitchLabel(1+r.IntN(120)))
				}
				fwd = append(fwd, 0)
				ret = make([]m.SwitchLabel, len(fwd))
				for k := 1; k < len(ret); k++ {
					ret[k] = m.SwitchLabel(1 + r.IntN(120))
				}
				checkPath(res, fwd, ret, false)
				checkFrameCarrier(res, fb, fwd, ret)
			}
		}
		for i := w; i < nRandom; i += W {
			var fwd, ret []m.SwitchLabel
			if i%5 == 0 {
				fwd, ret = nearLimit(r)
			} else {
				fwd, ret = randomPath(r)
			}
			if i < 3*W && i%W == 0 {
				res.Sample(map[string]any{"hops": len(fwd), "forward_labels": fwd, "return_labels": ret, "reference_size": refSize(fwd, ret)})
			}
			checkPath(res, fwd, ret, i%4 == 0)
			if i%3 == 0 {
				// refresh with a path of the same or a shorter shape (fewer hops and/or shorter labels)
				fwd2, ret2 := randomPath(r)
				if len(fwd2) > len(fwd) {
					fwd2, ret2 = fwd2[len(fwd2)-len(fwd):], ret2[len(ret2)-len(fwd):]
					fwd2, ret2 = append([]m.SwitchLabel(nil), fwd2...), append([]m.SwitchLabel(nil), ret2...)
					ret2[0] = 0
				}
				checkRebuild(res, fwd, ret, fwd2, ret2)
				checkRebuild(res, fwd2, ret2, fwd, ret)
				if len(fwd2) == len(fwd) {
					checkTableUpdate(res, r, fwd, ret, fwd2, ret2)
				} else {
					// same hop count, other labels
					fwd3, ret3 := append([]m.SwitchLabel(nil), fwd...), append([]m.SwitchLabel(nil), ret...)
					for k := range fwd3 {
						if fwd3[k] != 0 {
							fwd3[k] = randLabel(r, [3]int{1, 1, 1})
						}
						if ret3[k] != 0 {
							ret3[k] = randLabel(r, [3]int{1, 1, 1})
						}
					}
					checkTableUpdate(res, r, fwd, ret, fwd3, ret3)
				}
			}
			if i%7 == 0 {
				checkFrameCarrier(res, fb, fwd, ret)
			}
			if i%11 == 0 {
				checkFrameLifecycle(res, fb, r, fwd, ret)
			}
		}
	})
	meshes := []*vmesh.Topology{vmesh.Line(2), vmesh.Line(3), vmesh.Line(5), vmesh.Ring(4), vmesh.Star(5), vmesh.Grid(3, 3)}
	parallel(len(meshes)*3, func(w int) {
		meshTraversal(res, core.RNG(fmt.Sprintf("c12/mesh/%d", w)), meshes[w%len(meshes)], vmesh.LabelMode(w/len(meshes)))
	})
	live := []*vmesh.Topology{vmesh.Line(3), vmesh.Line(5), vmesh.Ring(4), vmesh.Grid(2, 3)}
	parallel(len(live), func(w int) {
		meshTraversalLive(res, core.RNG(fmt.Sprintf("c12/meshlive/%d", w)), live[w], vmesh.LabelMode(w%3))
	})
	res.Require(res.Counter("mesh_routes_traversed_by_live_switches") >= 20 || res.ViolationCount() > 0, "fewer than 20 routes traversed through running switch workers")
	res.Sample(map[string]any{"hops": 2, "forward_labels": []int{16384, 0}, "return_labels": []int{0, 1}, "note": "two-hop path with a three-byte label (not covered by the repo tests)"})
	res.Assume("a valid path has hop[0].ReturnLabel == 0 and hop[last].ForwardLabel == 0 and non-zero labels elsewhere (what announcements produce)")
	res.Require(res.Counter("oversize_paths_refused") >= 100, "fewer than 100 oversize paths exercised")
	res.Require(res.Counter("paths_traversed_both_ways") >= 10000, "fewer than 10000 traversals")
	res.Require(res.Counter("paths_rebuilt_in_place") >= 1000, "fewer than 1000 in-place rebuilds")
	res.Require(res.Counter("mesh_routes_traversed_and_reversed") >= 100, "fewer than 100 routes traversed through real switches")
	res.Require(res.Counter("table_route_updates") >= 500, "fewer than 500 route updates through a table")
	res.Require(res.Counter("blocks_carried_in_frames:exactly255") >= 1, "no 255-byte block was carried in a frame")
}
