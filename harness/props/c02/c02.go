// Package c02: sealed frames — exact round trip; any change to a protected
// byte is rejected; TTL / flow flags / appendix are hop-mutable.
package c02

import (
	"bytes"
	"fmt"
	"math/rand/v2"
	"strings"

	"github.com/mycoria/mycoria/frame"
	"github.com/mycoria/mycoria/state"

	"verifharness/core"
	"verifharness/env"
)

func init() {
	core.Register(&core.Prop{
		ID:    "C02",
		Level: "fault_enumeration",
		Rule: "parameter tuples (message type x payload size x switch block x appendix x builder margins, sizes on and around every pooled tier) sealed by the real code; " +
			"per frame every header/switch/length/auth bit and payload bits (all bits for frames <= 2 KB in thorough; one random bit per byte / sampled beyond) is flipped on a copy, " +
			"re-parsed and unsealed at a receiver; plus TTL/flow/appendix edits (must accept) and the wrong-session matrix; non-trivial = (type, size class, switch class, appendix class, position class) combination; distinct by that tuple",
		Run:              run,
		CrashIsViolation: true,
	})
}

var msgTypes = []frame.MessageType{
	frame.RouterHopPingDeprecated, frame.RouterPing, frame.RouterHopPing,
	frame.RouterCtrl, frame.SessionCtrl,
	frame.NetworkTraffic, frame.SessionData,
}

func sizeClass(n int) string {
	switch {
	case n <= 16:
		return "tiny"
	case n <= 480:
		return "t600"
	case n <= 1480:
		return "t1600"
	case n <= 4900:
		return "t5100"
	case n <= 9400:
		return "t9600"
	default:
		return "t65k"
	}
}

func cls(n int) string {
	switch {
	case n == 0:
		return "0"
	case n <= 2:
		return "1-2"
	case n <= 127:
		return "small"
	case n <= 255:
		return "big"
	case n <= 1000:
		return "1k"
	default:
		return "10k"
	}
}

type layout struct {
	swLen, msgLen, authLen, apxLen int
}

func (l layout) msgIndex() int { return 49 + l.swLen }
func (l layout) authIndex() int {
	return l.msgIndex() + 2 + l.msgLen
}
func (l layout) apxIndex() int { return l.authIndex() + l.authLen }
func (l layout) total() int    { return l.apxIndex() + l.apxLen }

func (l layout) posClass(i int) string {
	switch {
	case i == 0:
		return "version"
	case i == 1:
		return "ttl"
	case i == 2:
		return "flow"
	case i == 3:
		return "rate"
	case i == 4:
		return "type"
	case i < 8:
		return "nonce"
	case i < 12:
		return "seq"
	case i < 16:
		return "ack|time"
	case i < 32:
		return "src"
	case i < 48:
		return "dst"
	case i == 48:
		return "switch-len"
	case i < l.msgIndex():
		return "switch"
	case i < l.msgIndex()+2:
		return "msg-len"
	case i < l.authIndex():
		return "payload"
	case i < l.apxIndex():
		return "auth"
	default:
		return "appendix"
	}
}

func (l layout) hopMutable(i int) bool { return i == 1 || i == 2 || i >= l.apxIndex() }

type tuple struct {
	mt               frame.MessageType
	payload, sw, apx int
	off, ovh         int
}

func (t tuple) String() string {
	return fmt.Sprintf("type=%d payload=%d switch=%d appendix=%d margins=(%d,%d)", t.mt, t.payload, t.sw, t.apx, t.off, t.ovh)
}

// experiment state for one worker
type worker struct {
	res  *core.Result
	r    *rand.Rand
	p    *env.Pair // A -> B
	bc   *env.Pair // B -> C: gives B a session for C
	da   *env.Pair // D -> A: gives D a session for A
	tier core.Tier
	hop  *frame.Builder // a forwarding router's builder (link margins)
}

// unsealCopy parses a copy of data on B's builder and unseals with sess.
// Returns accepted, payload (copy) and error.
func (w *worker) unsealCopy(b *frame.Builder, data []byte, sess *state.Session) (bool, []byte, frame.Frame, error) {
	buf := append([]byte(nil), data...)
	f, err := b.ParseFrame(buf, nil, 0)
	if err != nil {
		return false, nil, nil, err
	}
	if err := f.Unseal(sess); err != nil {
		f.ReturnToPool()
		return false, nil, nil, err
	}
	return true, append([]byte(nil), f.MessageData()...), f, nil
}

func (w *worker) runTuple(t tuple, exhaustiveBits bool) {
	res := w.res
	r := w.r
	p := w.p
	p.A.BuilderV.SetFrameMargins(t.off, t.ovh)
	payload := core.RandBytes(r, t.payload)
	sw := core.RandBytes(r, t.sw)
	apx := core.RandBytes(r, t.apx)

	seal := func() ([]byte, layout, error) {
		f, err := p.A.BuilderV.NewFrameV1(p.A.IdentityV.IP, p.B.IdentityV.IP, t.mt, sw, payload, apx)
		if err != nil {
			return nil, layout{}, err
		}
		defer f.ReturnToPool()
		if err := f.Seal(p.AB); err != nil {
			return nil, layout{}, err
		}
		data, err := f.FrameDataWithMargins(0, 0)
		if err != nil {
			return nil, layout{}, err
		}
		l := layout{swLen: t.sw, msgLen: t.payload, authLen: 64, apxLen: t.apx}
		if t.mt.IsEncrypted() {
			l.authLen = 16
		}
		return append([]byte(nil), data...), l, nil
	}
	sealed, l, err := seal()
	wit := func(extra map[string]any) map[string]any {
		m := map[string]any{"tuple": t.String(), "case_id": t.String()}
		for k, v := range extra {
			m[k] = v
		}
		return m
	}
	if err != nil {
		res.Violate("seal-failed", fmt.Sprintf("%s: building/sealing a valid frame failed: %v", t, err), wit(nil))
		return
	}
	if len(sealed) != l.total() {
		res.Violate("layout-mismatch", fmt.Sprintf("%s: sealed frame has %d bytes, layout says %d", t, len(sealed), l.total()), wit(nil))
		return
	}
	enc := t.mt.IsEncrypted()
	tkey := fmt.Sprintf("%d/%s/%s/%s", t.mt, sizeClass(t.payload), cls(t.sw), cls(t.apx))

	// Clear text: payload must not appear in an encrypted frame.
	if enc && t.payload >= 16 {
		if bytes.Contains(sealed, payload) || bytes.Contains(sealed, payload[:16]) {
			res.Violate("payload-in-clear", fmt.Sprintf("%s: encrypted frame carries its payload in clear", t), wit(nil))
			return
		}
		res.Count("cleartext_searches", 1)
	}
	if !enc && !bytes.Contains(sealed, payload) {
		res.Violate("signed-payload-altered", fmt.Sprintf("%s: signed frame does not carry its payload", t), wit(nil))
		return
	}

	expectAccept := func(data []byte, what string) bool {
		p.FreshReceiver()
		ok, got, f, err := w.unsealCopy(p.B.BuilderV, data, p.BA)
		if !ok {
			res.Violate("hop-mutable-change-rejected:"+what, fmt.Sprintf("%s: %s made an authentic frame fail: %v", t, what, err), wit(map[string]any{"mutation": what}))
			return false
		}
		defer f.ReturnToPool()
		if !bytes.Equal(got, payload) {
			res.Violate("roundtrip-payload-differs:"+what, fmt.Sprintf("%s: after %s the unsealed payload differs from the original", t, what), wit(map[string]any{"mutation": what}))
			return false
		}
		if what == "pristine" {
			if !bytes.Equal(f.SwitchBlock(), sw) || f.SrcIP() != p.A.IdentityV.IP || f.DstIP() != p.B.IdentityV.IP || f.MessageType() != t.mt ||
				!bytes.Equal(f.AppendixData(), apx) {
				res.Violate("roundtrip-fields-differ", fmt.Sprintf("%s: parsed fields (switch block, addresses, type, appendix) differ after the round trip", t), wit(nil))
				return false
			}
		}
		return true
	}

	// Round trip, unmodified.
	if !expectAccept(sealed, "pristine") {
		return
	}
	res.Case(tkey+"/pristine", true)

	// Must-reject mutations on copies; the receiver state is only renewed after an acceptance.
	p.FreshReceiver()
	flip := func(i int, bit uint) bool {
		mut := append([]byte(nil), sealed...)
		mut[i] ^= 1 << bit
		ok, got, f, _ := w.unsealCopy(p.B.BuilderV, mut, p.BA)
		pc := l.posClass(i)
		if f != nil {
			f.ReturnToPool()
		}
		if l.hopMutable(i) {
			if !ok {
				res.Violate("hop-mutable-change-rejected:"+pc, fmt.Sprintf("%s: flipping bit %d of byte %d (%s) made the frame fail", t, bit, i, pc),
					wit(map[string]any{"byte": i, "bit": bit, "position": pc}))
				return false
			}
			if !bytes.Equal(got, payload) {
				res.Violate("roundtrip-payload-differs:"+pc, fmt.Sprintf("%s: payload differs after flipping %s", t, pc), wit(map[string]any{"byte": i, "bit": bit}))
				return false
			}
			p.FreshReceiver()
		} else if ok {
			res.Violate("protected-change-accepted:"+pc, fmt.Sprintf("%s: frame still unsealed after flipping bit %d of byte %d (%s)", t, bit, i, pc),
				wit(map[string]any{"byte": i, "bit": bit, "position": pc}))
			p.FreshReceiver()
			return false
		}
		res.Case(tkey+"/"+pc, true)
		return true
	}
	payloadStart, payloadEnd := l.msgIndex()+2, l.authIndex()
	sampledPayload := map[int]bool{}
	if t.payload > 4096 {
		n := 2000
		if w.tier == core.Thorough {
			n = 10000
		}
		for k := 0; k < n; k++ {
			sampledPayload[payloadStart+r.IntN(t.payload)] = true
		}
		sampledPayload[payloadStart] = true
		sampledPayload[payloadEnd-1] = true
	}
	apxLimit := l.apxIndex() + 64 // appendix: first 64 bytes and the last byte (must accept, costs a receiver reset each)
	for i := 0; i < l.total(); i++ {
		inPayload := i >= payloadStart && i < payloadEnd
		inApx := i >= l.apxIndex()
		switch {
		case inApx && i >= apxLimit && i != l.total()-1:
			continue
		case inPayload && t.payload > 4096 && !sampledPayload[i]:
			continue
		}
		if (inPayload && !exhaustiveBits) || inApx {
			if !flip(i, uint(r.IntN(8))) {
				return
			}
			continue
		}
		if (i == 1 || i == 2) && !exhaustiveBits {
			if !flip(i, uint(r.IntN(8))) {
				return
			}
			continue
		}
		for bit := uint(0); bit < 8; bit++ {
			if !flip(i, bit) {
				return
			}
		}
	}

	// Rejections must not have consumed anything: the pristine frame still unseals
	// at the receiver that saw all the rejected variants (only for position < first acceptance).
	// (Receiver was renewed after acceptances, so replay one more round of pure rejections first.)
	p.FreshReceiver()
	for k := 0; k < 20; k++ {
		i := 3 + r.IntN(45)
		mut := append([]byte(nil), sealed...)
		mut[i] ^= 1 << uint(r.IntN(8))
		if ok, _, f, _ := w.unsealCopy(p.B.BuilderV, mut, p.BA); ok {
			f.ReturnToPool()
		}
	}
	if ok, got, f, err := w.unsealCopy(p.B.BuilderV, sealed, p.BA); !ok || !bytes.Equal(got, payload) {
		res.Violate("rejections-consumed-state", fmt.Sprintf("%s: after only rejected variants the pristine frame no longer unseals: %v", t, err), wit(nil))
		return
	} else {
		f.ReturnToPool()
	}

	// Must-accept structural edits: TTL/flow to any value, appendix truncated / extended / replaced.
	for k := 0; k < 6; k++ {
		mut := append([]byte(nil), sealed...)
		mut[1] = byte(r.IntN(256))
		mut[2] = byte(r.IntN(256))
		if !expectAccept(mut, "ttl+flow") {
			return
		}
	}
	res.Case(tkey+"/ttl+flow-any", true)
	cut := sealed[:l.apxIndex()]
	if !expectAccept(append([]byte(nil), cut...), "appendix-removed") {
		return
	}
	if !expectAccept(append(append([]byte(nil), cut...), core.RandBytes(r, 1+r.IntN(300))...), "appendix-replaced") {
		return
	}
	// (an appendix may grow up to the protocol's own limit of 10000 bytes; beyond it a receiver may refuse the
	// frame as malformed - nothing is demanded either way there)
	if grow := 1 + r.IntN(200); t.apx+grow <= 10000 {
		if !expectAccept(append(append([]byte(nil), sealed...), core.RandBytes(r, grow)...), "appendix-extended") {
			return
		}
	} else if room := 10000 - t.apx; room > 0 {
		if !expectAccept(append(append([]byte(nil), sealed...), core.RandBytes(r, room)...), "appendix-extended") {
			return
		}
	}
	if t.apx > 1 {
		if !expectAccept(append([]byte(nil), sealed[:l.apxIndex()+r.IntN(t.apx)]...), "appendix-truncated") {
			return
		}
	}
	res.Case(tkey+"/appendix-edits", true)
	// The appendix changed through the API, as a forwarding router does it (parsed off a link with the link
	// margins, then SetAppendixData to sizes that stay in place or move the frame to a bigger buffer), and by
	// the sender itself on its sealed frame (builder margins of this tuple).
	for _, n := range []int{0, 1 + r.IntN(100), 450 + r.IntN(400), 1400 + r.IntN(500), 4900 + r.IntN(600), 9000 + r.IntN(1000)} {
		newApx := core.RandBytes(r, n)
		hop := w.hop
		ps := hop.GetPooledSlice(12 + len(sealed) + 16)
		if ps != nil {
			copy(ps[12:], sealed)
			if hf, err := hop.ParseFrame(ps[12:12+len(sealed)], ps, 12); err == nil {
				if err := hf.SetAppendixData(newApx); err == nil {
					d, _ := hf.FrameDataWithMargins(0, 0)
					mut := append([]byte(nil), d...)
					hf.ReturnToPool()
					if !expectAccept(mut, "appendix-set-by-forwarder") {
						return
					}
					res.Count("appendix_set_by_forwarder_accepted", 1)
				} else {
					hf.ReturnToPool()
				}
			} else {
				hop.ReturnPooledSlice(ps)
			}
		}
		if f, err := p.A.BuilderV.NewFrameV1(p.A.IdentityV.IP, p.B.IdentityV.IP, t.mt, sw, payload, apx); err == nil {
			if err := f.Seal(p.AB); err == nil {
				if err := f.SetAppendixData(newApx); err == nil {
					d, _ := f.FrameDataWithMargins(0, 0)
					mut := append([]byte(nil), d...)
					f.ReturnToPool()
					p.FreshReceiver()
					if ok, got, rf, err := w.unsealCopy(p.B.BuilderV, mut, p.BA); !ok || !bytes.Equal(got, payload) {
						res.Violate("hop-mutable-change-rejected:appendix-set-by-sender", fmt.Sprintf("%s: after SetAppendixData(%d bytes) on the sealed frame it no longer unseals to the payload: %v", t, n, err), wit(map[string]any{"new_appendix": n}))
						return
					} else {
						rf.ReturnToPool()
					}
					continue
				}
			}
			f.ReturnToPool()
		}
	}

	// Truncation inside the protected part must be rejected.
	for k := 0; k < 8; k++ {
		n := r.IntN(l.apxIndex())
		if ok, _, f, _ := w.unsealCopy(p.B.BuilderV, sealed[:n], p.BA); ok {
			f.ReturnToPool()
			res.Violate("truncated-frame-accepted", fmt.Sprintf("%s: frame truncated to %d of %d protected bytes still unsealed", t, n, l.apxIndex()), wit(map[string]any{"truncated_to": n}))
			return
		}
	}
	res.Case(tkey+"/truncation", true)

	// Wrong-session matrix.
	// (1) B unseals A's frame with its session for C (different sender).
	if ok, _, f, _ := w.unsealCopy(w.bc.A.BuilderV, sealed, w.bc.AB); ok {
		f.ReturnToPool()
		res.Violate("wrong-sender-session-accepted", fmt.Sprintf("%s: frame from A unsealed under the receiver's session for another router", t), wit(nil))
		return
	}
	// (2) encrypted classes: D (has keys with A) unseals a frame addressed A->B with its session for A.
	if enc {
		if ok, _, f, _ := w.unsealCopy(w.da.A.BuilderV, sealed, w.da.AB); ok {
			f.ReturnToPool()
			res.Violate("wrong-receiver-session-accepted", fmt.Sprintf("%s: encrypted frame A->B unsealed at a third router under its session for A", t), wit(nil))
			return
		}
	}
	res.Case(tkey+"/wrong-session", true)
	res.Count("frames_fully_explored", 1)
	if exhaustiveBits {
		res.Count("frames_with_every_bit_flipped", 1)
	}
}

func parallel(n int, fn func(w int)) { core.Parallel(n, fn) }

func genTuples(r *rand.Rand, n int) []tuple {
	payloads := []int{1, 2, 15, 16, 17, 44, 45, 100, 600 - 113, 600 - 65, 600, 1600 - 113, 1600, 1601, 5100 - 65, 5100, 9600 - 113, 9600, 9999, 10000}
	sws := []int{0, 1, 2, 127, 254, 255}
	apxs := []int{0, 1, 64, 65, 1000, 10000}
	margins := [][2]int{{0, 0}, {12, 16}, {100, 100}, {-1, -1}}
	var out []tuple
	// First: every message type with a spread of everything (deterministic coverage).
	i := 0
	for len(out) < n {
		t := tuple{mt: msgTypes[i%len(msgTypes)]}
		if i < len(msgTypes)*len(payloads) {
			t.payload = payloads[(i/len(msgTypes))%len(payloads)]
		} else if r.IntN(3) == 0 {
			t.payload = 1 + r.IntN(10000)
		} else {
			t.payload = payloads[r.IntN(len(payloads))]
		}
		t.sw = sws[(i/3)%len(sws)]
		if r.IntN(4) == 0 {
			t.sw = r.IntN(256)
		}
		t.apx = apxs[(i/2)%len(apxs)]
		if r.IntN(4) == 0 {
			t.apx = r.IntN(2000)
		}
		mg := margins[i%len(margins)]
		if mg[0] < 0 {
			mg = [2]int{r.IntN(101), r.IntN(101)}
		}
		t.off, t.ovh = mg[0], mg[1]
		out = append(out, t)
		i++
	}
	return out
}

// rolloverIsolation: sessions stay separate after a key rollover. Two independent key exchanges (A->B, C->D) both
// cross the 32-bit wrap of the regular counter; frames sealed afterwards must unseal at their receiver and under no
// session of the other exchange.
func rolloverIsolation(res *core.Result, r *rand.Rand, wraps1, wraps2 int) {
	type side struct {
		p     *env.Pair
		after [][]byte
	}
	// wraps: how many times the sender's regular counter wraps (each wrap derives the next key from the
	// previous one on both sides); the frames kept are those sealed after the last wrap
	mk := func(wraps int) (*side, bool) {
		s := &side{p: env.NewPair(r, "c02 rollover")}
		h := &state.EncryptionSessionTestHelper{EncryptionSession: s.p.AB.Encryption()}
		for wrap := 0; wrap < wraps; wrap++ {
			s.after = nil
			h.ReglSetOut(0xFFFFFFFF - uint32(4+r.IntN(3)))
			for i := 0; i < 14; i++ {
				// priority and regular frames before the wrap, regular frames across it, all classes after it
				mt := []frame.MessageType{frame.SessionData, frame.NetworkTraffic, frame.RouterCtrl, frame.SessionCtrl}[i%4]
				if i < 3 {
					mt = []frame.MessageType{frame.RouterCtrl, frame.SessionCtrl, frame.RouterCtrl}[i]
				} else if i < 10 {
					mt = frame.SessionData // regular class: crosses the wrap
				}
				f, err := s.p.A.BuilderV.NewFrameV1(s.p.A.IdentityV.IP, s.p.B.IdentityV.IP, mt, nil, []byte("c02 rollover payload"), nil)
				if err != nil {
					return nil, false
				}
				if err := f.Seal(s.p.AB); err != nil {
					f.ReturnToPool()
					res.Violate("seal-failed:across-rollover", fmt.Sprintf("sealing frame %d across the regular counter wrap failed: %v", i, err), nil)
					return nil, false
				}
				d, _ := f.FrameDataWithMargins(0, 0)
				data := append([]byte(nil), d...)
				f.ReturnToPool()
				g, err := s.p.B.BuilderV.ParseFrame(append([]byte(nil), data...), nil, 0)
				if err != nil {
					return nil, false
				}
				uerr := g.Unseal(s.p.BA)
				g.ReturnToPool()
				if uerr != nil {
					res.Violate("roundtrip-fails:across-rollover", fmt.Sprintf("frame %d sealed across the regular counter wrap does not unseal at its receiver: %v", i, uerr), nil)
					return nil, false
				}
				if i >= 10 {
					s.after = append(s.after, data)
				}
			}
		}
		return s, true
	}
	s1, ok1 := mk(wraps1)
	s2, ok2 := mk(wraps2)
	if !ok1 || !ok2 {
		return
	}
	for _, x := range []struct {
		from, other *side
	}{{s1, s2}, {s2, s1}} {
		for _, data := range x.from.after {
			for name, sess := range map[string]*state.Session{"the receiver of the other exchange": x.other.p.BA, "the sender of the other exchange": x.other.p.AB} {
				g, err := x.other.p.B.BuilderV.ParseFrame(append([]byte(nil), data...), nil, 0)
				if err != nil {
					continue
				}
				uerr := g.Unseal(sess)
				g.ReturnToPool()
				if uerr == nil {
					res.Violate("foreign-session-accepted:after-rollover", fmt.Sprintf("a frame (type %d) sealed after the sender's key rollover unsealed under the session of %s (an unrelated key exchange that also rolled over)", data[4], name), map[string]any{"case_id": "rollover-isolation"})
					return
				}
			}
		}
	}
	res.Count("rollover_isolation_pairs", 1)
	res.Count(fmt.Sprintf("rollover_isolation_wraps_%d_%d", wraps1, wraps2), 1)
	res.Case(fmt.Sprintf("rollover-isolation|%d|%d|%d", wraps1, wraps2, r.IntN(1<<30)), true)
}

// rekeyRoundTrip: two routers that have exchanged traffic run the end-to-end key setup again the way the hello
// ping does it - the initiator completes the exchange in a fresh, detached encryption session and swaps it in,
// the responder re-keys the session object it has been using. Every frame sealed under the new keys must make the
// exact round trip, in both directions and both classes, from the first one on.
func rekeyRoundTrip(res *core.Result, r *rand.Rand, history int) {
	p := env.NewPair(r, "c02 rekey")
	trip := func(from, to *env.Instance, sf, st *state.Session, mt frame.MessageType, what string) bool {
		payload := core.RandBytes(r, 24+r.IntN(100))
		f, err := from.BuilderV.NewFrameV1(from.IdentityV.IP, to.IdentityV.IP, mt, nil, payload, nil)
		if err != nil {
			return true
		}
		if err := f.Seal(sf); err != nil {
			f.ReturnToPool()
			res.Violate("seal-failed:after-rekey", fmt.Sprintf("%s: sealing failed: %v", what, err), map[string]any{"case_id": "rekey"})
			return false
		}
		d, _ := f.FrameDataWithMargins(0, 0)
		data := append([]byte(nil), d...)
		f.ReturnToPool()
		g, err := to.BuilderV.ParseFrame(data, nil, 0)
		if err != nil {
			return true
		}
		defer g.ReturnToPool()
		if err := g.Unseal(st); err != nil {
			res.Violate("roundtrip-fails:after-rekey", fmt.Sprintf("%s (type %d): a frame sealed by its sender does not unseal at its receiver: %v", what, mt, err), map[string]any{"case_id": "rekey", "history": history})
			return false
		}
		if !bytes.Equal(g.MessageData(), payload) {
			res.Violate("roundtrip-differs:after-rekey", what+": payload differs after the round trip", map[string]any{"case_id": "rekey"})
			return false
		}
		return true
	}
	both := func(n int, what string) bool {
		for i := 0; i < n; i++ {
			mt := []frame.MessageType{frame.SessionData, frame.RouterCtrl, frame.NetworkTraffic}[i%3]
			if !trip(p.A, p.B, p.AB, p.BA, mt, fmt.Sprintf("%s, A->B frame %d", what, i)) || !trip(p.B, p.A, p.BA, p.AB, mt, fmt.Sprintf("%s, B->A frame %d", what, i)) {
				return false
			}
		}
		return true
	}
	if !both(history, "before any re-key") {
		return
	}
	for round := 0; round < 3; round++ {
		// initiator and responder swap roles every round
		init, resp := p.AB, p.BA
		if round%2 == 1 {
			init, resp = p.BA, p.AB
		}
		fresh := state.NewEncryptionSession()
		kx, kxt, err := fresh.InitKeyClientStart()
		if err != nil {
			res.Inconcl("rekey: %v", err)
			return
		}
		kx2, kxt2, err := resp.Encryption().InitKeyServer(kx, kxt)
		if err != nil {
			res.Inconcl("rekey server: %v", err)
			return
		}
		if err := fresh.InitKeyClientComplete(kx2, kxt2); err != nil {
			res.Inconcl("rekey complete: %v", err)
			return
		}
		init.SetEncryptionSession(fresh)
		if !both(20+r.IntN(60), fmt.Sprintf("after key setup %d (%d frames each way before it)", round+2, history)) {
			return
		}
	}
	res.Count("rekey_round_trip_runs", 1)
	res.Case(fmt.Sprintf("rekey|%d", history), true)
}

// liveFrames: sealed frames stay alive as frame objects for a while - in the send queue of a link, in a handler
// that builds its answer - while other workers use the same builder, including its refusing paths (a reply with an
// empty or oversized payload, an oversized switch block or appendix is refused; the handler releases its frame as
// always). Whatever the builder does meanwhile, a sealed frame that nobody touched must still carry the bytes it was
// sealed with and unseal at the receiver to exactly the original payload.
func liveFrames(res *core.Result, r *rand.Rand, rounds int) {
	p := env.NewPair(r, "c02 live")
	b := p.A.BuilderV
	type live struct {
		f       frame.Frame
		bytes   []byte
		payload []byte
		mt      frame.MessageType
	}
	sizes := []int{20, 200, 500, 560, 1400, 1550, 4000, 5000, 9000, 9500, 9990}
	build := func(size int) *live {
		mt := []frame.MessageType{frame.SessionData, frame.RouterCtrl, frame.NetworkTraffic, frame.RouterPing}[r.IntN(4)]
		payload := core.RandBytes(r, size)
		f, err := b.NewFrameV1(p.A.IdentityV.IP, p.B.IdentityV.IP, mt, nil, payload, nil)
		if err != nil {
			return nil
		}
		if err := f.Seal(p.AB); err != nil {
			f.ReturnToPool()
			return nil
		}
		d, _ := f.FrameDataWithMargins(0, 0)
		return &live{f, append([]byte(nil), d...), payload, mt}
	}
	for round := 0; round < rounds; round++ {
		size := sizes[r.IntN(len(sizes))]
		var held []*live
		for i := 0; i < 2+r.IntN(3); i++ {
			if l := build(size - r.IntN(10)); l != nil {
				held = append(held, l)
			}
		}
		// other work on the same builder, refusing paths included
		var trace []string
		for k := 0; k < 3+r.IntN(4); k++ {
			v, err := b.NewFrameV1(p.B.IdentityV.IP, p.A.IdentityV.IP, frame.RouterPing, nil, core.RandBytes(r, size-r.IntN(10)), nil)
			if err != nil {
				continue
			}
			switch r.IntN(6) {
			case 0:
				err = v.Reply(nil, nil, nil)
				trace = append(trace, fmt.Sprintf("reply with empty payload: %v", err != nil))
			case 1:
				err = v.Reply(nil, core.RandBytes(r, 10001+r.IntN(3000)), nil)
				trace = append(trace, fmt.Sprintf("reply with oversized payload: %v", err != nil))
			case 2:
				err = v.ReplyTo(p.A.IdentityV.IP, p.B.IdentityV.IP, core.RandBytes(r, 256+r.IntN(50)), core.RandBytes(r, 30), nil)
				trace = append(trace, fmt.Sprintf("reply with oversized switch block: %v", err != nil))
			case 3:
				err = v.Reply(nil, core.RandBytes(r, 30), core.RandBytes(r, 10001+r.IntN(100)))
				trace = append(trace, fmt.Sprintf("reply with oversized appendix: %v", err != nil))
			case 4:
				cl := v.Clone()
				cl.ReturnToPool()
				trace = append(trace, "clone and release")
			case 5:
				_, err = b.NewFrameV1(p.B.IdentityV.IP, p.A.IdentityV.IP, frame.RouterPing, nil, nil, nil)
				trace = append(trace, fmt.Sprintf("new frame with empty payload: %v", err != nil))
			}
			v.ReturnToPool()
		}
		// more frames of the same size class come alive
		for i := 0; i < 2+r.IntN(3); i++ {
			if l := build(size - r.IntN(10)); l != nil {
				held = append(held, l)
			}
		}
		for i, l := range held {
			d, err := l.f.FrameDataWithMargins(0, 0)
			if err != nil || !bytes.Equal(d, l.bytes) {
				res.Violate("sealed-live-frame-changed", fmt.Sprintf("frame %d of %d (type %d, %d payload bytes), sealed and not touched since, no longer carries the bytes it was sealed with after other work on its builder [%s]", i, len(held), l.mt, len(l.payload), strings.Join(trace, "; ")), map[string]any{"case_id": "live-frames"})
				return
			}
			g, err := p.B.BuilderV.ParseFrame(append([]byte(nil), d...), nil, 0)
			if err != nil {
				res.Violate("sealed-live-frame-unparsable", fmt.Sprintf("a sealed live frame does not parse at the receiver: %v", err), map[string]any{"case_id": "live-frames"})
				return
			}
			err = g.Unseal(p.BA)
			if err != nil || !bytes.Equal(g.MessageData(), l.payload) {
				g.ReturnToPool()
				res.Violate("roundtrip-fails:live-frame", fmt.Sprintf("a sealed frame kept alive during other work on its builder does not unseal to its payload: %v [%s]", err, strings.Join(trace, "; ")), map[string]any{"case_id": "live-frames"})
				return
			}
			g.ReturnToPool()
		}
		for _, l := range held {
			l.f.ReturnToPool()
		}
		res.Count("live_frame_rounds", 1)
		res.Count("live_frames_checked", int64(len(held)))
	}
	res.Case(fmt.Sprintf("live-frames|%d", rounds), true)
}

func run(c *core.Ctx) {
	res := c.Res
	for i := 0; i < c.Q(4, 16); i++ {
		liveFrames(res, core.RNG(fmt.Sprintf("c02/live/%d", i)), c.Q(150, 1500))
	}
	for i := 0; i < c.Q(9, 63); i++ {
		rolloverIsolation(res, core.RNG(fmt.Sprintf("c02/rollover/%d", i)), 1+i%3, 1+(i/3)%3)
	}
	for i, h := range []int{0, 3, 63, 64, 65, 70, 200, 400} {
		if i < c.Q(8, 8) {
			rekeyRoundTrip(res, core.RNG(fmt.Sprintf("c02/rekey/%d", i)), h)
		}
	}
	const W = 16
	n := c.Q(210, 1260)
	tuples := genTuples(core.RNG("c02/tuples"), n)
	for i := 0; i < 4 && i < len(tuples); i++ {
		res.Sample(tuples[i*7%len(tuples)].String())
	}
	parallel(W, func(wi int) {
		r := core.RNG(fmt.Sprintf("c02/worker/%d", wi))
		w := &worker{res: res, r: r, tier: c.Tier, hop: frame.NewFrameBuilder()}
		w.hop.SetFrameMargins(12, 16)
		idA, idB, idC, idD := env.NewIdentity(r, nil), env.NewIdentity(r, nil), env.NewIdentity(r, nil), env.NewIdentity(r, nil)
		w.p = env.NewPairWith(idA, idB, "c02")
		w.bc = env.NewPairWith(idB, idC, "c02") // B's view: session for C (with keys)
		w.da = env.NewPairWith(idD, idA, "c02") // D's view: session for A (with keys)
		for i := wi; i < len(tuples); i += W {
			t := tuples[i]
			total := 49 + t.sw + 2 + t.payload + 64 + t.apx
			exhaustive := total <= c.Q(700, 4096)
			if c.OnlyCase != "" && c.OnlyCase != "__replay_all__" && c.OnlyCase != t.String() {
				continue
			}
			w.runTuple(t, exhaustive)
		}
	})
	res.Assume("Ed25519 and ChaCha20-Poly1305 are unforgeable: the monitor shows which bytes the code covers, not that forging is hard")
	res.Assume("a parse error on a mutated frame counts as rejection (nothing is delivered)")
	res.Assume("appendix bytes beyond the first 64 and the last one are not flipped individually (each must-accept experiment needs a fresh receiver)")
	res.Require(res.Counter("frames_fully_explored") >= int64(n*9/10), "fewer frames fully explored than planned")
	res.Require(res.Counter("live_frames_checked") >= 1000, "fewer than 1000 sealed frames checked after staying alive during other work on their builder")
}
