// Package c05: link layer — post-handshake frames are encrypted,
// authenticated, once-only.
package c05

import (
	"sync/atomic"
	"bytes"
	"fmt"
	"math/rand/v2"
	"sync"
	"time"
	"verifharness/props/c04"

	"github.com/mycoria/mycoria/config"
	"github.com/mycoria/mycoria/frame"
	"github.com/mycoria/mycoria/m"
	"github.com/mycoria/mycoria/peering"
	"github.com/mycoria/mycoria/state"

	"verifharness/core"
	"verifharness/env"
	"verifharness/wire"
)

func init() {
	core.Register(&core.Prop{
		ID:    "C05",
		Level: "fault_enumeration",
		Rule: "an established real link (real reader/writer workers) over an interposed connection; unique-id frames of all message types and sizes from the minimum up to the 64 KiB link maximum (every pooled tier) are sent while the wire applies one fault plan: " +
			"bit flip at every byte of a chosen link frame (length prefix, version, rate, sequence, ack, ciphertext, MAC), truncation, drop, duplicate at distance 1/2/63/64/65/200, swap, hold-and-release, injected random bytes and well-framed garbage of every length 4..40, replay of an earlier link frame; both directions; " +
			"oracle: delivered frames are a sub-multiset (multiplicity <= 1) of the sent ones, byte-identical; non-desynchronising faults lose at most the touched frames; after a desynchronising fault either the link closes or every frame sent after a resync point arrives; no payload canary on the wire; " +
			"non-trivial = the faulty bytes were consumed by the reader; distinct by (field class, fault kind, distance class, size tier, direction)",
		Run:              run,
		CrashIsViolation: true,
	})
}

type linkPair struct {
	w      *wire.Wire
	a, b   *wire.Router
	la, lb peering.Link
	base   [2]int // wire message count per direction after the handshake
}

func establish(idA, idB *m.Address) (*linkPair, error) {
	rc := config.Router{Universe: "test", UniverseSecret: "s"}
	lp := &linkPair{w: wire.New(), a: wire.NewRouter(idA, rc), b: wire.NewRouter(idB, rc)}
	ra, rb, ok := wire.Handshake(lp.w, lp.a, lp.b, 20*time.Second)
	if !ok || ra.Err != nil || rb.Err != nil {
		return nil, fmt.Errorf("handshake: %v / %v (ok=%v)", ra.Err, rb.Err, ok)
	}
	lp.la, lp.lb = ra.Link, rb.Link
	lp.base = [2]int{lp.w.SentCount(wire.AtoB), lp.w.SentCount(wire.BtoA)}
	return lp, nil
}

func (lp *linkPair) close() {
	lp.la.Close(nil)
	lp.lb.Close(nil)
	lp.w.A.Close()
	lp.w.B.Close()
}

type sentFrame struct {
	id     int
	bytes  []byte
	canary []byte
	tier   string
}

func tierOf(n int) string {
	switch {
	case n <= 572:
		return "t600"
	case n <= 1572:
		return "t1600"
	case n <= 5072:
		return "t5100"
	case n <= 9572:
		return "t9600"
	default:
		return "t65k"
	}
}

// makeFrame builds a unique frame of roughly the requested total size.
func makeFrame(r *rand.Rand, from, to *wire.Router, id int, size int, prio bool) (frame.Frame, *sentFrame, error) {
	// one priority class per run: the link writer serves the priority queue first, so only
	// frames of one class keep their order on the wire (the harness maps wire messages to frames by order)
	mt := []frame.MessageType{8, 17}[r.IntN(2)]
	if prio {
		mt = []frame.MessageType{0, 1, 2, 3, 16}[r.IntN(5)]
	}
	auth := 64
	if mt.IsEncrypted() {
		auth = 16
	}
	b := from.Inst.BuilderV
	var f frame.Frame
	if size <= 51+auth+20000 {
		msg := size - 51 - auth
		apx := 0
		if msg > 10000 {
			apx = msg - 10000
			msg = 10000
		}
		if msg < 17 {
			msg = 17
		}
		payload := core.RandBytes(r, msg)
		ff, err := b.NewFrameV1(from.Inst.IdentityV.IP, to.Inst.IdentityV.IP, mt, nil, payload, core.RandBytes(r, apx))
		if err != nil {
			return nil, nil, err
		}
		// any TTL and any flow-control byte (the upper bits are legal on the wire, whatever this router sets itself)
		ff.SetTTL(uint8(r.IntN(256)))
		ff.SetFlowControl(uint8(r.IntN(256)))
		f = ff
	} else {
		// beyond what NewFrameV1 builds: a parsed frame with a long message field
		msg := size - 51 - auth
		img := make([]byte, 0, size)
		img = append(img, 1, byte(r.IntN(256)), byte(r.IntN(256)), 0, byte(mt))
		img = append(img, core.RandBytes(r, 11)...)
		a := from.Inst.IdentityV.IP.As16()
		img = append(img, a[:]...)
		a = to.Inst.IdentityV.IP.As16()
		img = append(img, a[:]...)
		img = append(img, 0, byte(msg>>8), byte(msg))
		img = append(img, core.RandBytes(r, msg+auth)...)
		ps := b.GetPooledSlice(peering.FrameOffset + len(img) + peering.FrameOverhead)
		if ps == nil {
			// this tree's builder has no buffer of that size: use the biggest frame it produces itself
			oversizeRefused.Add(1)
			return makeFrame(r, from, to, id, 51+auth+20000, prio)
		}
		copy(ps[peering.FrameOffset:], img)
		ff, err := b.ParseFrame(ps[peering.FrameOffset:peering.FrameOffset+len(img)], ps, peering.FrameOffset)
		if err != nil {
			// this tree's parser refuses frames with a message beyond what the builder makes (the receiver would
			// refuse them just the same): use the biggest frame the builder itself produces instead
			b.ReturnPooledSlice(ps)
			oversizeRefused.Add(1)
			return makeFrame(r, from, to, id, 51+auth+20000, prio)
		}
		f = ff
	}
	d, _ := f.FrameDataWithMargins(0, 0)
	sf := &sentFrame{id: id, bytes: append([]byte(nil), d...), tier: tierOf(len(d))}
	md := f.MessageData()
	if len(md) >= 16 {
		sf.canary = append([]byte(nil), md[len(md)-16:]...)
	}
	return f, sf, nil
}

// oversizeRefused counts frames with an over-long message field that the tree's own parser refused to build.
var oversizeRefused atomic.Int64

var sizePool = []int{68, 69, 100, 300, 571, 572, 573, 600, 1000, 1571, 1572, 1573, 3000, 5071, 5072, 5073, 8000, 9571, 9572, 9573, 15000, 20050, 30000, 50000, 65000, 65507}

type plan struct {
	kind     string
	wrap     bool // the sender's regular link counter wraps during the run
	at       int  // index (relative to the first frame of the run) of the link frame the fault is applied to
	bytePos  int
	bit      uint
	distance int
	inject   []byte
	field    string
	desync   bool // may desynchronise the stream
}

func (p plan) String() string {
	w := ""
	if p.wrap {
		w = " across-key-rollover"
	}
	return fmt.Sprintf("%s at=%d byte=%d bit=%d dist=%d inject=%d field=%s%s", p.kind, p.at, p.bytePos, p.bit, p.distance, len(p.inject), p.field, w)
}

// closeUnderTraffic: a link is closed (locally, with a close that takes a moment - the log callback Close runs is
// the existing point where time can pass) while its writer still has frames queued and while the wire delivers an
// unauthenticated frame to its reader. Until the connection is really closed the link layer must keep doing its
// job: nothing in clear on the wire, nothing unauthenticated handed up.
func closeUnderTraffic(res *core.Result, r *rand.Rand, idA, idB *m.Address, rounds int) {
	for round := 0; round < rounds; round++ {
		lp, err := establish(idA, idB)
		if err != nil {
			res.Count("close_under_traffic_setup_failed", 1)
			time.Sleep(4 * time.Millisecond)
			continue
		}
		var sent []*sentFrame
		for k := 0; k < 300; k++ {
			f, sf, err := makeFrame(r, lp.a, lp.b, k, []int{100, 300, 1000, 3000}[r.IntN(4)], false)
			if err != nil {
				break
			}
			sent = append(sent, sf)
			_ = lp.la.Send(f)
		}
		// an unauthenticated, well-formed frame for A's reader (what anybody on the path can write)
		plain, psf, perr := makeFrame(r, lp.b, lp.a, 9999, 200, false)
		var raw []byte
		if perr == nil {
			d, _ := plain.FrameDataWithMargins(0, 0)
			raw = make([]byte, 2+len(d))
			raw[0], raw[1] = byte(len(raw)>>8), byte(len(raw))
			copy(raw[2:], d)
			plain.ReturnToPool()
		}
		slow := time.Duration(r.IntN(3000)) * time.Microsecond
		lp.la.Close(func() {
			if raw != nil {
				lp.w.Inject(wire.BtoA, raw)
			}
			time.Sleep(slow)
		})
		time.Sleep(2 * time.Millisecond)
		wit := map[string]any{"case_id": "close-under-traffic", "close_took": slow.String()}
		for _, mm := range lp.w.AllPassed() {
			if mm.Dir != wire.AtoB || mm.Idx < lp.base[0] {
				continue
			}
			for _, sf := range sent {
				if sf.canary != nil && bytes.Contains(mm.Data, sf.canary) {
					res.Violate("payload-in-clear-on-wire:while-closing", fmt.Sprintf("while a link with queued frames was being closed (the close took %s), the payload of frame %d crossed the wire in clear", slow, sf.id), wit)
					lp.close()
					return
				}
			}
		}
		for drained := false; !drained && psf != nil; {
			select {
			case f := <-lp.a.Upstream:
				d, _ := f.FrameDataWithMargins(0, 0)
				if bytes.Equal(d, psf.bytes) {
					res.Violate("unauthenticated-frame-delivered:while-closing", fmt.Sprintf("a frame written to the wire without the link-layer seal was handed to the frame handler while the link was being closed (the close took %s)", slow), wit)
					lp.close()
					return
				}
				f.ReturnToPool()
			default:
				drained = true
			}
		}
		lp.close()
		res.Count("closes_under_traffic", 1)
		time.Sleep(4 * time.Millisecond)
	}
	res.Case("close-under-traffic", true)
}

func linkField(msgLen, i int) string {
	switch {
	case i < 2:
		return "length-prefix"
	case i == 2:
		return "version"
	case i == 3:
		return "recv-rate"
	case i < 8:
		return "sequence"
	case i < 12:
		return "ack"
	case i >= msgLen-16:
		return "mac"
	default:
		return "ciphertext"
	}
}

// runPlan sends n frames in direction dir over lp with the fault plan applied and judges the outcome.
// It returns false if the link must not be reused.
func runPlan(res *core.Result, r *rand.Rand, lp *linkPair, dir wire.Dir, p plan, n int, sizes []int) (reusable bool) {
	from, to, link := lp.a, lp.b, lp.la
	if dir == wire.BtoA {
		from, to, link = lp.b, lp.a, lp.lb
	}
	base := lp.w.SentCount(dir)
	touched := map[int]bool{}
	var mu sync.Mutex
	var held [][]byte
	var heldIdx []int
	var history [][]byte
	faultDone := false
	lp.w.Plan = func(d wire.Dir, idx int, msg []byte) [][]byte {
		if d != dir {
			return [][]byte{msg}
		}
		mu.Lock()
		defer mu.Unlock()
		rel := idx - base
		history = append(history, msg)
		out := [][]byte{msg}
		switch p.kind {
		case "bitflip":
			if rel == p.at && p.bytePos < len(msg) {
				mm := append([]byte(nil), msg...)
				mm[p.bytePos] ^= 1 << p.bit
				out = [][]byte{mm}
				touched[rel] = true
				faultDone = true
			}
		case "truncate":
			if rel == p.at {
				cut := p.bytePos % len(msg)
				out = [][]byte{append([]byte(nil), msg[:cut]...)}
				touched[rel] = true
				faultDone = true
			}
		case "drop":
			if rel == p.at {
				out = nil
				touched[rel] = true
				faultDone = true
			}
		case "duplicate", "replay":
			// deliver frame p.at again p.distance frames later
			if rel == p.at+p.distance && p.at < len(history) {
				out = [][]byte{msg, history[p.at]}
				faultDone = true
			}
		case "gap-replay":
			// frames at+1 .. at+distance-1 are lost, frame at is delivered again after frame at+distance
			switch {
			case rel > p.at && rel < p.at+p.distance:
				out = nil
				touched[rel] = true
			case rel == p.at+p.distance && p.at < len(history):
				out = [][]byte{msg, history[p.at]}
				faultDone = true
			}
		case "swap":
			if rel == p.at {
				held = append(held, msg)
				heldIdx = append(heldIdx, rel)
				out = nil
			} else if rel == p.at+1 && len(held) > 0 {
				out = [][]byte{msg, held[0]}
				held = nil
				faultDone = true
			}
		case "hold":
			if rel == p.at {
				held = append(held, msg)
				heldIdx = append(heldIdx, rel)
				out = nil
			} else if rel == p.at+p.distance && len(held) > 0 {
				out = [][]byte{msg, held[0]}
				if p.distance > 64 {
					touched[p.at] = true // older than the replay window: may legitimately be refused
				}
				held = nil
				faultDone = true
			}
		case "inject":
			if rel == p.at {
				out = [][]byte{p.inject, msg}
				faultDone = true
			}
		}
		return out
	}
	defer func() { lp.w.Plan = nil }()
	if p.kind == "segmented" {
		// the byte stream reaches the receiver in pieces of at most p.distance bytes (no byte altered)
		lp.w.SetReadChunk(dir, p.distance)
		defer lp.w.SetReadChunk(dir, 0)
		faultDone = true
	}

	var sent []*sentFrame
	bySig := map[string]*sentFrame{}
	prioRun := r.IntN(3) == 0 && !p.wrap
	send := func(k int, size int) bool {
		f, sf, err := makeFrame(r, from, to, k, size, prioRun)
		if err != nil {
			res.Inconcl("make frame: %v", err)
			return false
		}
		sent = append(sent, sf)
		bySig[string(sf.bytes)] = sf
		if f.MessageType().IsPriority() {
			_ = link.SendPriority(f)
		} else {
			_ = link.Send(f)
		}
		return true
	}
	waitSent := func(target int) bool {
		deadline := time.Now().Add(30 * time.Second)
		for lp.w.SentCount(dir) < base+target {
			if link.IsClosing() || time.Now().After(deadline) {
				return false
			}
			time.Sleep(100 * time.Microsecond)
		}
		return true
	}
	for k := 0; k < n; k++ {
		if p.wrap && k == 8 {
			// the first frames of this (fresh) link carry small sequence numbers; now the sender's link-layer regular
			// counter jumps to just before the 32-bit wrap, so the key rolls over during this run
			waitSent(8)
			if enc := peering.VerifLinkEncryption(link); enc != nil {
				h := &state.EncryptionSessionTestHelper{EncryptionSession: enc}
				h.ReglSetOut(0xFFFFFFFF - uint32(8+r.IntN(6)))
			}
			if p.kind == "reflect" {
				// the other direction of this link crosses its own wrap, too (a link that has carried 2^32 frames each
				// way): both directions then run on rolled-over keys
				rlink := lp.lb
				if dir == wire.BtoA {
					rlink = lp.la
				}
				if enc := peering.VerifLinkEncryption(rlink); enc != nil {
					h := &state.EncryptionSessionTestHelper{EncryptionSession: enc}
					h.ReglSetOut(0xFFFFFFFF - uint32(4+r.IntN(6)))
				}
				want := 24
				for j := 0; j < want; j++ {
					f, _, err := makeFrame(r, to, from, 500000+j, 200+r.IntN(800), false)
					if err != nil {
						res.Inconcl("make frame: %v", err)
						return false
					}
					_ = rlink.Send(f)
				}
				got := 0
				deadline := time.Now().Add(20 * time.Second)
				for got < want && time.Now().Before(deadline) && !rlink.IsClosing() {
					select {
					case f := <-from.Upstream:
						f.ReturnToPool()
						got++
					case <-time.After(10 * time.Millisecond):
					}
				}
				if got < want {
					res.Violate("frames-lost-across-key-rollover", fmt.Sprintf("%s %s: only %d of %d intact frames sent in the other direction across its key rollover arrived", p, dir, got, want), map[string]any{"plan": p.String(), "case_id": p.String() + "|" + dir.String()})
					return false
				}
				res.Count("reflect_runs_with_both_directions_rolled_over", 1)
			}
		}
		if !send(k, sizes[r.IntN(len(sizes))]) {
			return false
		}
		if k%30 == 29 {
			waitSent(k + 1) // keep the send queues from overflowing (a full queue drops silently)
		}
	}
	allOut := waitSent(n)
	// Bounded progress after a desynchronising fault: keep sending intact frames until more
	// bytes than 100 mis-framed reads can swallow went over the wire, or the link closed.
	tail := 0
	if p.desync && allOut {
		budget := 100*65535 + 200000
		for budget > 0 && len(to.Inst.PeeringV.GetLinks()) > 0 && !link.IsClosing() {
			for i := 0; i < 20; i++ {
				if !send(n+tail, 65000) {
					return false
				}
				tail++
				// what really went out (a tree that cannot build 65 KB frames sends smaller ones: more of them)
				budget -= len(sent[len(sent)-1].bytes)
			}
			if !waitSent(n + tail) {
				break
			}
			if len(to.Inst.PeeringV.GetLinks()) == 0 {
				break
			}
		}
	}
	if !(link.IsClosing() || len(to.Inst.PeeringV.GetLinks()) == 0) {
		wire.WaitIdle(lp.w, dir, 30*time.Second)
	}
	rev := wire.AtoB
	if dir == wire.AtoB {
		rev = wire.BtoA
	}
	if p.kind == "reflect" && allOut {
		// hand the sender its own link frames back (first, the chosen one, the last one)
		mu.Lock()
		var back [][]byte
		for _, i := range []int{0, p.at, len(history) - 1} {
			if i >= 0 && i < len(history) {
				back = append(back, history[i])
			}
		}
		mu.Unlock()
		for _, m := range back {
			lp.w.Inject(rev, m)
		}
		faultDone = len(back) > 0
		wire.WaitIdle(lp.w, rev, 30*time.Second)
	}
	time.Sleep(2 * time.Millisecond)
	wit := map[string]any{"plan": p.String(), "direction": dir.String(), "frames": n + tail, "case_id": p.String() + "|" + dir.String()}
	if pa := to.PanicAlerts(); len(pa) > 0 {
		res.Violate("link-reader-panic:"+p.kind, fmt.Sprintf("%s %s: a link worker of the receiver panicked: %s", p, dir, pa[0]), wit)
		return false
	}
	if pa := from.PanicAlerts(); len(pa) > 0 {
		res.Violate("link-writer-panic:"+p.kind, fmt.Sprintf("%s %s: a link worker of the sender panicked: %s", p, dir, pa[0]), wit)
		return false
	}
	if p.kind == "reflect" {
		// nothing was sent towards the sender in this run: whatever its frame handler gets is a reflected frame
		select {
		case f := <-from.Upstream:
			d, _ := f.FrameDataWithMargins(0, 0)
			res.Violate("reflected-frame-delivered", fmt.Sprintf("%s %s: a link frame handed back to its own sender was accepted there and a %d-byte frame reached the sender's frame handler", p, dir, len(d)), wit)
			return false
		default:
		}
	}
	// collect deliveries
	delivered := map[int]int{}
	var order []int
	for {
		var f frame.Frame
		select {
		case f = <-to.Upstream:
		default:
		}
		if f == nil {
			break
		}
		d, _ := f.FrameDataWithMargins(0, 0)
		sf := bySig[string(d)]
		if sf == nil {
			res.Violate("altered-or-foreign-frame-delivered:"+p.kind, fmt.Sprintf("%s %s: the receiver's frame handler got a %d-byte frame that is not byte-identical to any frame handed to the link", p, dir, len(d)), wit)
			return false
		}
		delivered[sf.id]++
		order = append(order, sf.id)
		f.ReturnToPool()
	}
	for id, c := range delivered {
		if c > 1 {
			res.Violate("frame-delivered-twice:"+p.kind, fmt.Sprintf("%s %s: frame %d was delivered %d times", p, dir, id, c), wit)
			return false
		}
	}
	closed := link.IsClosing() || len(to.Inst.PeeringV.GetLinks()) == 0
	if !p.desync {
		if closed {
			// "... intact later frames keep arriving or the link is closed": closing the link is always within the
			// statement, also for a fault the present code happens to ride out (and on a loaded machine an earlier
			// plan's closure can land here). Counted, not judged; the pair is not used again.
			res.Count("links_closed_after_non_desynchronising_fault:"+p.kind, 1)
			if faultDone {
				res.Count("faults_applied:"+p.kind, 1)
			}
			res.Case(fmt.Sprintf("%s|%s|closed", p.field, p.kind), true)
			return false
		}
		var lost []*sentFrame
		for _, sf := range sent {
			if delivered[sf.id] == 0 && !touched[sf.id] {
				lost = append(lost, sf)
			}
		}
		if len(lost) > 0 {
			// "byte-identical or not at all ... intact later frames keep arriving or the link is closed": a frame that
			// got lost (a tree may shed load at a full queue) is within the statement as long as the link goes on
			// delivering. Bounded-progress form: ten more frames, sent one at a time (each waits until the wire is
			// idle again, so nothing can pile up anywhere), must all arrive - or the link must be closed.
			arrived := 0
			for j := 0; j < 10; j++ {
				if !send(n+tail+j, 300+r.IntN(700)) || !waitSent(n+tail+j+1) {
					break
				}
				wire.WaitIdle(lp.w, dir, 30*time.Second)
				want := sent[len(sent)-1]
				select {
				case f := <-to.Upstream:
					d, _ := f.FrameDataWithMargins(0, 0)
					if bytes.Equal(d, want.bytes) {
						arrived++
					}
					f.ReturnToPool()
				case <-time.After(1500 * time.Millisecond):
				}
			}
			if arrived < 10 && !(link.IsClosing() || len(to.Inst.PeeringV.GetLinks()) == 0) {
				sf := lost[0]
				res.Violate("intact-frame-lost:"+p.kind, fmt.Sprintf("%s %s: intact frame %d (%d bytes) was not delivered although the fault touched only frames %v, and of 10 further frames sent one at a time only %d arrived while the link stayed open", p, dir, sf.id, len(sf.bytes), keys(touched), arrived), wit)
				return false
			}
			res.Count("intact_frames_lost_while_the_link_kept_delivering", int64(len(lost)))
			res.Case(fmt.Sprintf("%s|%s|lost-but-live", p.field, p.kind), true)
			return false // the pair is not used again
		}
	} else if !closed {
		// there must be a resync point: every frame from some index on delivered
		rsync := len(sent)
		for i := len(sent) - 1; i >= 0; i-- {
			if delivered[sent[i].id] == 0 {
				break
			}
			rsync = i
		}
		if rsync >= len(sent)-3 {
			res.Violate("link-neither-recovered-nor-closed:"+p.kind, fmt.Sprintf("%s %s: after the fault and %d further intact frames (more than 100 x 65535 bytes) the link is open but the last frames were not delivered", p, dir, tail), wit)
			return false
		}
		res.Count("desync_recovered", 1)
	} else {
		res.Count("desync_link_closed", 1)
	}
	// clear text search over everything that crossed the wire after the handshake
	for _, mm := range lp.w.AllPassed() {
		for _, sf := range sent[:min(len(sent), n)] {
			if sf.canary != nil && bytes.Contains(mm.Data, sf.canary) {
				res.Violate("payload-in-clear-on-wire", fmt.Sprintf("%s %s: 16 payload bytes of frame %d appear in clear on the wire", p, dir, sf.id), wit)
				return false
			}
		}
		if len(lp.w.AllPassed()) > 400 {
			break // (bounded: the search is quadratic)
		}
	}
	if faultDone {
		res.Count("faults_applied:"+p.kind, 1)
	}
	res.Count("frames_delivered_identical", int64(len(order)))
	dc := "0"
	switch {
	case p.distance == 0:
	case p.distance <= 2:
		dc = "1-2"
	case p.distance <= 64:
		dc = "<=64"
	default:
		dc = ">64"
	}
	res.Case(fmt.Sprintf("%s|%s|%s|%s|%d", p.kind, p.field, dc, dir, len(p.inject)), faultDone)
	return !p.desync && !closed
}

func keys(mp map[int]bool) []int {
	var out []int
	for k := range mp {
		out = append(out, k)
	}
	return out
}

func parallel(n int, fn func(w int)) { core.Parallel(n, fn) }

func genPlans(r *rand.Rand, quick bool) []plan {
	var ps []plan
	// a clean run with every size (round trip of every tier)
	ps = append(ps, plan{kind: "none", field: "none"})
	// bit flips: the frame hit is ~1000 bytes; positions sampled in the header fully, body sparsely
	for pos := 0; pos < 12; pos++ {
		for _, b := range []uint{0, 1, 2, 3, 4, 5, 6, 7} {
			ps = append(ps, plan{kind: "bitflip", at: 5 + r.IntN(20), bytePos: pos, bit: b, field: linkField(1000, pos), desync: pos < 2})
		}
	}
	nBody := 500
	if !quick {
		nBody = 6000
	}
	for k := 0; k < nBody; k++ {
		pos := 12 + r.IntN(980)
		if k%3 == 0 {
			pos = 1000 // clipped to the MAC below
		}
		ps = append(ps, plan{kind: "bitflip", at: 5 + r.IntN(20), bytePos: pos, bit: uint(r.IntN(8)), field: "ciphertext|mac"})
	}
	for _, d := range []int{1, 2, 63, 64, 65, 200} {
		ps = append(ps, plan{kind: "duplicate", at: 3, distance: d, field: "whole-frame"})
		ps = append(ps, plan{kind: "hold", at: 3, distance: d, field: "whole-frame"})
	}
	ps = append(ps, plan{kind: "replay", at: 0, distance: 250, field: "whole-frame"})
	// re-segmentation of the stream (1, 2, 3, 7, 1000 bytes per read)
	for _, n := range []int{1, 2, 3, 7, 1000} {
		ps = append(ps, plan{kind: "segmented", distance: n, field: "stream"})
	}
	// replays and duplicates across a key rollover of the link session
	// (an old frame replayed while the receiver is in the rollover zone makes it roll its key early; genuine frames
	// are then lost until the sender wraps, too - a bounded loss: these plans are judged like desynchronising ones)
	ps = append(ps, plan{kind: "replay", at: 0, distance: 12, field: "whole-frame", wrap: true, desync: true}, plan{kind: "replay", at: 3, distance: 9, field: "whole-frame", wrap: true, desync: true},
		plan{kind: "replay", at: 5, distance: 20, field: "whole-frame", wrap: true, desync: true},
		plan{kind: "replay", at: 2, distance: 40, field: "whole-frame", wrap: true}, plan{kind: "duplicate", at: 1, distance: 30, field: "whole-frame", wrap: true},
		plan{kind: "none", field: "none", wrap: true})
	ps = append(ps, plan{kind: "reflect", at: 5, field: "whole-frame"}, plan{kind: "reflect", at: 11, field: "whole-frame"})
	// reflection after both directions of the link rolled their keys over
	ps = append(ps, plan{kind: "reflect", at: 25, field: "whole-frame", wrap: true}, plan{kind: "reflect", at: 40, field: "whole-frame", wrap: true})
	for _, d := range []int{2, 3, 62, 63, 64, 65, 66, 128} {
		ps = append(ps, plan{kind: "gap-replay", at: 4, distance: d, field: "whole-frame"})
	}
	ps = append(ps, plan{kind: "swap", at: 7, field: "whole-frame"}, plan{kind: "swap", at: 0, field: "whole-frame"})
	ps = append(ps, plan{kind: "drop", at: 9, field: "whole-frame"}, plan{kind: "drop", at: 0, field: "whole-frame"})
	for _, cut := range []int{0, 1, 2, 5, 12, 13, 100} {
		ps = append(ps, plan{kind: "truncate", at: 6, bytePos: cut, field: "whole-frame", desync: true})
	}
	// injections: well-framed garbage of every short length, random bytes
	for n := 4; n <= 40; n++ {
		g := core.RandBytes(r, n)
		g[0], g[1] = 0, byte(n)
		ps = append(ps, plan{kind: "inject", at: 4, inject: g, field: "well-framed-garbage"})
	}
	for _, n := range []int{1, 2, 3, 7, 100, 5000} {
		ps = append(ps, plan{kind: "inject", at: 4, inject: core.RandBytes(r, n), field: "random-bytes", desync: true})
	}
	for _, n := range []int{0, 1, 2, 3} { // a length prefix that claims 0..3 bytes
		ps = append(ps, plan{kind: "inject", at: 4, inject: []byte{0, byte(n)}, field: "tiny-length-prefix"})
	}
	return ps
}

func run(c *core.Ctx) {
	res := c.Res
	// links that come up while another connection of the same peer is being set up (shared key-exchange state):
	// whatever such a link sends must be sealed like on any other link
	c04.DoubleDial(res, core.RNG("c05/doubledial"))
	{
		rr := core.RNG("c05/closetraffic")
		closeUnderTraffic(res, rr, env.NewIdentity(rr, nil), env.NewIdentity(rr, nil), c.Q(40, 400))
	}
	res.Require(res.Counter("double_dial_second_connection_refused")+res.Counter("double_dial_second_link_sealed") >= 1 || res.ViolationCount() > 0, "double-dial scenario never reached its decisive step")
	rid := core.RNG("c05/ids")
	idA, idB := env.NewIdentity(rid, nil), env.NewIdentity(rid, nil)
	plans := genPlans(core.RNG("c05/plans"), c.Tier == core.Quick)
	res.Sample(plans[1].String())
	res.Sample(plans[len(plans)/2].String())
	res.Sample(plans[len(plans)-1].String())
	const W = 8
	nFrames := c.Q(300, 300)
	parallel(W, func(w int) {
		r := core.RNG(fmt.Sprintf("c05/%d", w))
		var lp *linkPair
		defer func() {
			if lp != nil {
				lp.close()
			}
		}()
		for i := w; i < len(plans); i += W {
			p := plans[i]
			for _, dir := range []wire.Dir{wire.AtoB, wire.BtoA} {
				if dir == wire.BtoA && i%3 != 0 && c.Tier == core.Quick {
					continue
				}
				if p.wrap && lp != nil {
					lp.close() // wrap plans start on a fresh link (small sequence numbers first)
					lp = nil
					time.Sleep(4 * time.Millisecond)
				}
				if lp == nil {
					var err error
					lp, err = establish(idA, idB)
					if err != nil {
						res.Inconcl("establish: %v", err)
						return
					}
				}
				sizes := sizePool
				n := nFrames
				if p.kind == "bitflip" {
					// the frame that is hit must be long enough for the position
					sizes = []int{1100}
					n = 40
				} else if p.kind != "none" {
					sizes = []int{68, 300, 1572, 5073, 20050}
					n = 260
				}
				if p.kind == "bitflip" && p.bytePos >= 1000 {
					p.bytePos = 1100 + 12 + 16 - 1 - r.IntN(16)
					p.field = "mac"
				} else if p.kind == "bitflip" && p.bytePos >= 12 {
					p.field = "ciphertext"
				}
				if !runPlan(res, r, lp, dir, p, n, sizes) {
					lp.close()
					lp = nil
				}
			}
		}
	})
	res.Assume("ChaCha20-Poly1305 strength is assumed; the monitor shows that every byte of a link frame is covered and that rejected/duplicated frames never reach the frame handler")
	res.Assume("liveness is restated as bounded progress: after a desynchronising fault the sender transmits more intact bytes than 100 mis-framed reads can swallow; then the link is closed or a suffix of the frames arrives")
	res.Assume("frames older than the 64-frame window (hold-and-release by more than 64) may be refused")
	res.Count("oversize_frames_refused_by_this_trees_parser", oversizeRefused.Load())
	res.Require(res.Counter("frames_delivered_identical") >= 5000, "fewer than 5000 frames delivered")
	res.Require(res.Counter("reflect_runs_with_both_directions_rolled_over") >= 2 || res.ViolationCount() > 0, "fewer than 2 reflections after both directions rolled their keys over")
	res.Require(res.Counter("faults_applied:bitflip") >= 50, "fewer than 50 bit flips applied")
}
