// Package props links all property checkers into the binary.
package props

import (
	_ "verifharness/props/c02"
	_ "verifharness/props/c03"
	_ "verifharness/props/c12"
	_ "verifharness/props/c17"
)
