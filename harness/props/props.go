// Package props links all property checkers into the binary.
package props

import (
	_ "verifharness/props/c01"
	_ "verifharness/props/c02"
	_ "verifharness/props/c03"
	_ "verifharness/props/c04"
	_ "verifharness/props/c05"
	_ "verifharness/props/c06"
	_ "verifharness/props/c07"
	_ "verifharness/props/c08"
	_ "verifharness/props/c09"
	_ "verifharness/props/c10"
	_ "verifharness/props/c11"
	_ "verifharness/props/c12"
	_ "verifharness/props/c13"
	_ "verifharness/props/c14"
	_ "verifharness/props/c15"
	_ "verifharness/props/c16"
	_ "verifharness/props/c17"
	_ "verifharness/props/c18"
	_ "verifharness/props/c19"
	_ "verifharness/props/c20"
)
