// Package props links all property checkers into the binary.
package props

import (
	_ "verifharness/props/c03"
)
