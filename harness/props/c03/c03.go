// Package c03: replay protection — every authenticated frame is accepted at
// most once; in-window acceptance; signed frames strictly increasing.
package c03

import (
	"fmt"
	"math/rand/v2"
	"sort"
	"strconv"
	"strings"
	"sync"
	"sync/atomic"
	"time"

	"github.com/anishathalye/porcupine"

	"github.com/mycoria/mycoria/frame"
	"github.com/mycoria/mycoria/m"
	"github.com/mycoria/mycoria/peering"
	"github.com/mycoria/mycoria/state"

	"verifharness/core"
	"verifharness/env"
)

func init() {
	core.Register(&core.Prop{
		ID:    "C03",
		Level: "exploration",
		Rule: "delivery histories over the sequence numbers a real sender produced: exhaustive over small alphabets " +
			"({1..6} and the window-straddling {1,2,3,66,67,68,130,131}) up to a bounded length plus seeded long random histories, " +
			"at three layers (SequenceHandler, sealed end-to-end frames regular/priority/signed, link frames) and concurrent deliveries " +
			"checked for linearizability; non-trivial = history contains a duplicate AND an out-of-order delivery; distinct by (layer, history)",
		Run:         run,
		HasRacePart: true,
		RaceAnchors: []string{`state\.\(\*SequenceHandler\)`, `state\.\(\*EncryptionSession\)`, `state\.\(\*TimeSequenceHandler\)`},
	})
}

// ref is the reference written from the statement.
type ref struct {
	acc    map[uint32]bool
	h      uint32
	strict bool // signed class: strictly increasing only
}

func newRef(strict bool) *ref { return &ref{acc: map[uint32]bool{}, strict: strict} }

// verdict: +1 must accept, -1 must reject, 0 either.
func (r *ref) verdict(x uint32) int {
	if r.strict {
		if x > r.h {
			return +1
		}
		return -1
	}
	switch {
	case r.acc[x]:
		return -1
	case x > r.h || r.h-x <= 64:
		return +1
	default:
		return 0
	}
}

func (r *ref) accept(x uint32) {
	r.acc[x] = true
	if x > r.h {
		r.h = x
	}
}

func nontrivial(h []uint32) bool {
	seen := map[uint32]bool{}
	dup, ooo := false, false
	var max uint32
	for _, x := range h {
		if seen[x] {
			dup = true
		}
		seen[x] = true
		if x < max {
			ooo = true
		}
		if x > max {
			max = x
		}
	}
	return dup && ooo
}

func hstr(h []uint32) string {
	var b strings.Builder
	for i, x := range h {
		if i > 0 {
			b.WriteByte(',')
		}
		b.WriteString(strconv.FormatUint(uint64(x), 10))
	}
	return b.String()
}

// deliverer delivers number x to a receiver that is fresh per history and
// reports whether it was accepted.
type deliverer interface {
	reset()
	deliver(x uint32) (accepted bool, err error)
	name() string
	strict() bool
}

// checkHistory runs one history against the reference. Returns false on violation.
func checkHistory(res *core.Result, d deliverer, h []uint32, keyPrefix string, count bool) bool {
	d.reset()
	r := newRef(d.strict())
	for i, x := range h {
		acc, err := d.deliver(x)
		v := r.verdict(x)
		switch {
		case v < 0 && acc:
			what := "duplicate-accepted"
			if d.strict() {
				what = "not-newer-accepted"
			}
			res.Violate(d.name()+":"+what,
				fmt.Sprintf("%s: after deliveries %s: number %d (step %d) was accepted although the reference must reject it", d.name(), hstr(h[:i]), x, i),
				map[string]any{"layer": d.name(), "history": append([]uint32(nil), h[:i+1]...), "case_id": d.name() + ":" + hstr(h[:i+1])})
			return false
		case v > 0 && !acc:
			res.Violate(d.name()+":fresh-in-window-rejected",
				fmt.Sprintf("%s: after deliveries %s: number %d (not a duplicate, newest accepted %d) was rejected: %v", d.name(), hstr(h[:i]), x, r.h, err),
				map[string]any{"layer": d.name(), "history": append([]uint32(nil), h[:i+1]...), "case_id": d.name() + ":" + hstr(h[:i+1])})
			return false
		}
		if acc {
			r.accept(x)
		}
	}
	if count {
		res.Case(keyPrefix+d.name()+":"+hstr(h), nontrivial(h))
	}
	return true
}

// damager: a deliverer that can also deliver a damaged copy (one bit of the MAC/signature flipped) of frame x.
type damager interface {
	deliverDamaged(x uint32, r *rand.Rand) (accepted bool)
}

// checkHistoryDamaged is checkHistory with damaged copies of arbitrary frames (also far ahead of the window)
// delivered in between: they must be refused and must not change the verdict on any genuine frame.
func checkHistoryDamaged(res *core.Result, d deliverer, h []uint32, universe int, r *rand.Rand) bool {
	dm, ok := d.(damager)
	if !ok {
		return true
	}
	d.reset()
	ref := newRef(d.strict())
	for i, x := range h {
		if r.IntN(3) == 0 {
			y := x
			if r.IntN(2) == 0 {
				y = uint32(1 + r.IntN(universe))
			}
			if dm.deliverDamaged(y, r) {
				res.Violate(d.name()+":damaged-copy-accepted", fmt.Sprintf("%s: a copy of frame %d with a flipped authentication bit was accepted", d.name(), y), map[string]any{"layer": d.name(), "case_id": d.name() + ":damaged"})
				return false
			}
		}
		acc, err := d.deliver(x)
		v := ref.verdict(x)
		switch {
		case v < 0 && acc:
			res.Violate(d.name()+":duplicate-accepted:with-damaged-copies", fmt.Sprintf("%s: with damaged copies delivered in between, number %d (step %d) was accepted although the reference must reject it", d.name(), x, i),
				map[string]any{"layer": d.name(), "history": append([]uint32(nil), h[:i+1]...), "case_id": d.name() + ":damaged"})
			return false
		case v > 0 && !acc:
			res.Violate(d.name()+":fresh-in-window-rejected:after-damaged-copy", fmt.Sprintf("%s: genuine number %d (not a duplicate, newest accepted %d) was rejected after damaged copies of other/the same frames had been refused: %v", d.name(), x, ref.h, err),
				map[string]any{"layer": d.name(), "history": append([]uint32(nil), h[:i+1]...), "case_id": d.name() + ":damaged"})
			return false
		}
		if acc {
			ref.accept(x)
		}
	}
	res.Case("damaged:"+d.name()+":"+hstr(h[:min(len(h), 30)]), true)
	res.Count("histories_with_damaged_copies", 1)
	return true
}

func flipAuthBit(data []byte, authLen int, r *rand.Rand) []byte {
	out := append([]byte(nil), data...)
	out[len(out)-1-r.IntN(authLen)] ^= 1 << uint(r.IntN(8))
	return out
}

func (d *frameDeliverer) deliverDamaged(x uint32, r *rand.Rand) bool {
	if d.frames[x] == nil {
		return false
	}
	f, err := parse(d.p.b.BuilderV, flipAuthBit(d.frames[x], 16, r))
	if err != nil {
		return false
	}
	defer f.ReturnToPool()
	return f.Unseal(d.p.ba) == nil
}

func (d *linkDeliverer) deliverDamaged(x uint32, r *rand.Rand) bool {
	if d.frames[x] == nil {
		return false
	}
	lf := peering.LinkFrame(flipAuthBit(d.frames[x], 16, r))
	return lf.Unseal(d.recv) == nil
}

// enumerate calls fn for every sequence over alphabet of length 1..maxLen
// whose first element index is congruent to shard (mod shards).
func enumerate(alphabet []uint32, maxLen int, shard, shards int, fn func(h []uint32) bool) {
	h := make([]uint32, 0, maxLen)
	var rec func() bool
	rec = func() bool {
		if len(h) > 1 || (len(h) == 1 && shard == 0) {
			if !fn(h) {
				return false
			}
		}
		if len(h) == maxLen {
			return true
		}
		for i, a := range alphabet {
			if len(h) == 1 && i%shards != shard {
				// shard on the second element (the first level is too coarse)
				continue
			}
			h = append(h, a)
			ok := rec()
			h = h[:len(h)-1]
			if !ok {
				return false
			}
		}
		return true
	}
	rec()
}

// ---- layer (i): SequenceHandler directly.

type seqDeliverer struct{ sh *state.SequenceHandler }

func (d *seqDeliverer) reset()       { d.sh = new(state.SequenceHandler) } // as NewEncryptionSession creates it
func (d *seqDeliverer) name() string { return "seqhandler" }
func (d *seqDeliverer) strict() bool { return false }
func (d *seqDeliverer) deliver(x uint32) (bool, error) {
	err := d.sh.Check(x)
	return err == nil, err
}

// ---- layer (ii): real sealed end-to-end frames.

type pair struct {
	a, b       *env.Instance
	ab, ba     *state.Session
	origA      *state.EncryptionSession // holds the kx keys
	origB      *state.EncryptionSession
	purposeSeq int
}

func newPair(r *rand.Rand) *pair {
	p := &pair{}
	p.a = env.NewBareInstance(env.NewIdentity(r, nil), nil)
	p.b = env.NewBareInstance(env.NewIdentity(r, nil), nil)
	var err error
	p.ab, p.ba, err = env.Introduce(p.a, p.b)
	if err != nil {
		panic(err)
	}
	if err := env.KeyExchange(p.ab, p.ba); err != nil {
		panic(err)
	}
	p.origA = p.ab.Encryption()
	p.origB = p.ba.Encryption()
	return p
}

func parse(b *frame.Builder, data []byte) (frame.Frame, error) {
	buf := append([]byte(nil), data...)
	return b.ParseFrame(buf, nil, 0)
}

// frameDeliverer delivers end-to-end encrypted frames of one class. The
// receiver gets a fresh encryption session (same keys, fresh windows) per
// history through the real DeriveSessionFromKX API.
type frameDeliverer struct {
	p       *pair
	frames  map[uint32][]byte // sealed bytes by sequence number
	label   string
	purpose string
}

func newFrameDeliverer(r *rand.Rand, mt frame.MessageType, numbers []uint32, label string) *frameDeliverer {
	d := &frameDeliverer{p: newPair(r), frames: map[uint32][]byte{}, label: label, purpose: "c03 " + label}
	encA, err := d.p.origA.DeriveSessionFromKX(true, d.purpose)
	if err != nil {
		panic(err)
	}
	d.p.ab.SetEncryptionSession(encA)
	want := map[uint32]bool{}
	var max uint32
	for _, n := range numbers {
		want[n] = true
		if n > max {
			max = n
		}
	}
	for i := uint32(1); i <= max; i++ {
		f, err := d.p.a.BuilderV.NewFrameV1(d.p.a.IdentityV.IP, d.p.b.IdentityV.IP, mt, nil, []byte(fmt.Sprintf("payload-%06d-%s", i, label)), nil)
		if err != nil {
			panic(err)
		}
		if err := f.Seal(d.p.ab); err != nil {
			panic(err)
		}
		if f.SequenceNum() != i {
			panic(fmt.Sprintf("unexpected sequence number %d != %d", f.SequenceNum(), i))
		}
		if want[i] {
			data, _ := f.FrameDataWithMargins(0, 0)
			d.frames[i] = append([]byte(nil), data...)
		}
		f.ReturnToPool()
	}
	return d
}

func (d *frameDeliverer) name() string { return d.label }
func (d *frameDeliverer) strict() bool { return false }
func (d *frameDeliverer) reset() {
	encB, err := d.p.origB.DeriveSessionFromKX(false, d.purpose)
	if err != nil {
		panic(err)
	}
	d.p.ba.SetEncryptionSession(encB)
}

func (d *frameDeliverer) deliver(x uint32) (bool, error) {
	if d.frames[x] == nil {
		panic(fmt.Sprintf("harness: no frame for number %d", x))
	}
	f, err := parse(d.p.b.BuilderV, d.frames[x])
	if err != nil {
		return false, err
	}
	err = f.Unseal(d.p.ba)
	if err == nil {
		want := fmt.Sprintf("payload-%06d-%s", x, d.label)
		if string(f.MessageData()) != want {
			err = fmt.Errorf("accepted with wrong payload %q", f.MessageData())
			f.ReturnToPool()
			return true, err
		}
	}
	f.ReturnToPool()
	return err == nil, err
}

// signedDeliverer delivers signed frames; index i maps to the i-th frame the
// sender signed (timestamps strictly increase with i). Fresh receiver state
// per history.
type signedDeliverer struct {
	a      *env.Instance
	idB    *m.Address
	b      *env.Instance
	ba     *state.Session
	frames map[uint32][]byte
	label  string
}

// spreadGaps: distances between consecutive signed frames of a sender that has been running for a long time
// (the "-spread" deliverers): the filter must order frames that are hours, days or months apart exactly like
// frames a millisecond apart.
var spreadGaps = []time.Duration{time.Millisecond, time.Second, time.Minute, time.Hour - time.Millisecond, time.Hour, time.Hour + time.Millisecond,
	2 * time.Hour, 24 * time.Hour, 30 * 24 * time.Hour, 365 * 24 * time.Hour}

func newSignedDeliverer(r *rand.Rand, mt frame.MessageType, max uint32, label string) *signedDeliverer {
	d := &signedDeliverer{frames: map[uint32][]byte{}, label: label}
	spread := strings.HasSuffix(label, "-spread")
	spreadAt := time.Now().Round(time.Millisecond).Add(-6 * 365 * 24 * time.Hour)
	d.a = env.NewBareInstance(env.NewIdentity(r, nil), nil)
	d.idB = env.NewIdentity(r, nil)
	b := env.NewBareInstance(d.idB, nil)
	ab, _, err := env.Introduce(d.a, b)
	if err != nil {
		panic(err)
	}
	var last time.Time
	for i := uint32(1); i <= max; i++ {
		f, err := d.a.BuilderV.NewFrameV1(d.a.IdentityV.IP, d.idB.IP, mt, nil, []byte(fmt.Sprintf("signed-%06d-%s", i, label)), nil)
		if err != nil {
			panic(err)
		}
		if spread {
			// signed by hand with the sender's key, like Seal does, but with a timestamp of the sender's past
			spreadAt = spreadAt.Add(spreadGaps[r.IntN(len(spreadGaps))])
			f.SetTTL(0)
			f.SetSequenceTime(spreadAt)
			if err := f.SignRaw(d.a.IdentityV.PrivateKey); err != nil {
				panic(err)
			}
			f.SetTTL(32)
		} else if err := f.Seal(ab); err != nil {
			panic(err)
		}
		if !f.SequenceTime().After(last) {
			panic("sender timestamps not strictly increasing")
		}
		last = f.SequenceTime()
		data, _ := f.FrameDataWithMargins(0, 0)
		d.frames[i] = append([]byte(nil), data...)
		f.ReturnToPool()
	}
	return d
}

func (d *signedDeliverer) name() string { return d.label }
func (d *signedDeliverer) strict() bool { return true }
func (d *signedDeliverer) reset() {
	d.b = env.NewBareInstance(d.idB, nil)
	pa := d.a.IdentityV.PublicAddress
	if err := d.b.StateV.AddRouter(&pa); err != nil {
		panic(err)
	}
	d.ba = d.b.StateV.GetSession(pa.IP)
}

func (d *signedDeliverer) deliver(x uint32) (bool, error) {
	if d.frames[x] == nil {
		panic(fmt.Sprintf("harness: no signed frame for index %d", x))
	}
	f, err := parse(d.b.BuilderV, d.frames[x])
	if err != nil {
		return false, err
	}
	err = f.Unseal(d.ba)
	f.ReturnToPool()
	return err == nil, err
}

// ---- layer (iii): link frames.

type linkDeliverer struct {
	p      *pair
	frames map[uint32][]byte
	recv   *state.EncryptionSession
}

func newLinkDeliverer(r *rand.Rand, numbers []uint32) *linkDeliverer {
	d := &linkDeliverer{p: newPair(r), frames: map[uint32][]byte{}}
	encA, err := d.p.origA.DeriveSessionFromKX(true, "link layer crypt")
	if err != nil {
		panic(err)
	}
	want := map[uint32]bool{}
	var max uint32
	for _, n := range numbers {
		want[n] = true
		if n > max {
			max = n
		}
	}
	for i := uint32(1); i <= max; i++ {
		payload := []byte(fmt.Sprintf("link-payload-%06d", i))
		buf := make([]byte, peering.FrameOffset+len(payload)+peering.FrameOverhead)
		lf := peering.LinkFrame(buf)
		copy(lf.LinkData(), payload)
		if err := lf.Seal(encA); err != nil {
			panic(err)
		}
		if lf.SequenceNum() != i {
			panic("unexpected link sequence number")
		}
		if want[i] {
			d.frames[i] = buf
		}
	}
	return d
}

func (d *linkDeliverer) name() string { return "linkframe" }
func (d *linkDeliverer) strict() bool { return false }
func (d *linkDeliverer) reset() {
	enc, err := d.p.origB.DeriveSessionFromKX(false, "link layer crypt")
	if err != nil {
		panic(err)
	}
	d.recv = enc
}

func (d *linkDeliverer) deliver(x uint32) (bool, error) {
	if d.frames[x] == nil {
		panic(fmt.Sprintf("harness: no link frame for number %d", x))
	}
	buf := append([]byte(nil), d.frames[x]...)
	lf := peering.LinkFrame(buf)
	err := lf.Unseal(d.recv)
	if err == nil && string(lf.LinkData()) != fmt.Sprintf("link-payload-%06d", x) {
		return true, fmt.Errorf("accepted with wrong payload")
	}
	return err == nil, err
}

// randomHistory builds a long history over 1..n with bounded or unbounded
// displacement and duplicates at the interesting distances.
func randomHistory(r *rand.Rand, n int, length int) []uint32 {
	base := make([]uint32, n)
	for i := range base {
		base[i] = uint32(i + 1)
	}
	// Displacement.
	switch r.IntN(4) {
	case 0: // in order
	case 1: // bounded displacement
		w := []int{2, 8, 63, 64, 65, 70}[r.IntN(6)]
		for i := 0; i+w <= n; i += w {
			r.Shuffle(w, func(a, b int) { base[i+a], base[i+b] = base[i+b], base[i+a] })
		}
	case 2: // local swaps
		for k := 0; k < n; k++ {
			i := r.IntN(n - 1)
			base[i], base[i+1] = base[i+1], base[i]
		}
	case 3: // unbounded
		r.Shuffle(n, func(a, b int) { base[a], base[b] = base[b], base[a] })
	}
	// Loss.
	out := make([]uint32, 0, length)
	lossPct := []int{0, 0, 5, 30}[r.IntN(4)]
	dists := []int{1, 2, 63, 64, 65, 66, 1000}
	for _, x := range base {
		if r.IntN(100) < lossPct {
			continue
		}
		out = append(out, x)
		// Duplicates of something delivered d steps ago.
		if r.IntN(100) < 25 {
			d := dists[r.IntN(len(dists))]
			if len(out)-d >= 0 {
				out = append(out, out[len(out)-d])
			}
		}
		if len(out) >= length {
			break
		}
	}
	return out
}

// ---- concurrent deliveries + linearizability (E5/E6).

type concIn struct{ x uint32 }
type concState struct {
	acc string // sorted accepted numbers, comma separated
}

func (s concState) parse() (set map[uint32]bool, h uint32) {
	set = map[uint32]bool{}
	if s.acc == "" {
		return
	}
	for _, p := range strings.Split(s.acc, ",") {
		v, _ := strconv.ParseUint(p, 10, 32)
		set[uint32(v)] = true
		if uint32(v) > h {
			h = uint32(v)
		}
	}
	return
}

func (s concState) with(x uint32) concState {
	set, _ := s.parse()
	set[x] = true
	l := make([]int, 0, len(set))
	for k := range set {
		l = append(l, int(k))
	}
	sort.Ints(l)
	parts := make([]string, len(l))
	for i, v := range l {
		parts[i] = strconv.Itoa(v)
	}
	return concState{acc: strings.Join(parts, ",")}
}

var concModel = (&porcupine.NondeterministicModel{
	Init: func() []interface{} { return []interface{}{concState{}} },
	Step: func(st, in, out interface{}) []interface{} {
		s := st.(concState)
		x := in.(concIn).x
		accepted := out.(bool)
		set, h := s.parse()
		switch {
		case set[x]:
			if accepted {
				return nil
			}
			return []interface{}{s}
		case x > h || h-x <= 64:
			if !accepted {
				return nil
			}
			return []interface{}{s.with(x)}
		default:
			if accepted {
				return []interface{}{s.with(x)}
			}
			return []interface{}{s}
		}
	},
	Equal: func(a, b interface{}) bool { return a.(concState) == b.(concState) },
	DescribeOperation: func(in, out interface{}) string {
		return fmt.Sprintf("deliver(%d)->%v", in.(concIn).x, out.(bool))
	},
}).ToModel()

var concModelStrict = porcupine.Model{
	Init: func() interface{} { return uint32(0) },
	Step: func(st, in, out interface{}) (bool, interface{}) {
		h := st.(uint32)
		x := in.(concIn).x
		if out.(bool) {
			return x > h, x
		}
		return x <= h, h
	},
	DescribeOperation: func(in, out interface{}) string {
		return fmt.Sprintf("deliver(%d)->%v", in.(concIn).x, out.(bool))
	},
}

func concurrentRun(res *core.Result, r *rand.Rand, d deliverer, universe []uint32, goroutines, perG int, keyPrefix string) {
	d.reset()
	// Multiset with duplicates.
	total := goroutines * perG
	work := make([]uint32, total)
	for i := range work {
		work[i] = universe[r.IntN(len(universe))]
	}
	var clock atomic.Int64
	ops := make([][]porcupine.Operation, goroutines)
	var wg sync.WaitGroup
	start := make(chan struct{})
	for g := 0; g < goroutines; g++ {
		wg.Add(1)
		go func(g int) {
			defer wg.Done()
			<-start
			for i := 0; i < perG; i++ {
				x := work[g*perG+i]
				call := clock.Add(1)
				acc, _ := d.deliver(x)
				ret := clock.Add(1)
				ops[g] = append(ops[g], porcupine.Operation{ClientId: g, Input: concIn{x}, Call: call, Output: acc, Return: ret})
			}
		}(g)
	}
	close(start)
	wg.Wait()
	var all []porcupine.Operation
	for _, o := range ops {
		all = append(all, o...)
	}
	// At-most-once, directly.
	accepted := map[uint32]int{}
	for _, o := range all {
		if o.Output.(bool) {
			accepted[o.Input.(concIn).x]++
		}
	}
	for x, n := range accepted {
		if n > 1 {
			res.Violate(d.name()+":concurrent-duplicate-accepted",
				fmt.Sprintf("%s: number %d accepted %d times under %d concurrent deliverers", d.name(), x, n, goroutines),
				map[string]any{"layer": d.name(), "work": work, "goroutines": goroutines})
			return
		}
	}
	model := concModel
	if d.strict() {
		model = concModelStrict
	}
	result, _ := porcupine.CheckOperationsVerbose(model, all, 60*time.Second)
	switch result {
	case porcupine.Illegal:
		descr := make([]string, 0, len(all))
		for _, o := range all {
			descr = append(descr, fmt.Sprintf("c%d [%d,%d] deliver(%d)->%v", o.ClientId, o.Call, o.Return, o.Input.(concIn).x, o.Output.(bool)))
		}
		res.Violate(d.name()+":concurrent-not-linearizable",
			fmt.Sprintf("%s: concurrent delivery history is not linearizable w.r.t. the replay-window reference", d.name()),
			map[string]any{"layer": d.name(), "history": descr})
	case porcupine.Unknown:
		res.Inconcl("porcupine timed out on a %d-operation history", len(all))
	default:
		res.Case(keyPrefix+"conc:"+d.name()+":"+hstr(work), true)
		res.Count("concurrent_histories_linearizable", 1)
	}
}

func parallel(n int, fn func(w int)) { core.Parallel(n, fn) }

var alphaSmall = []uint32{1, 2, 3, 4, 5, 6}
var alphaWin = []uint32{1, 2, 3, 66, 67, 68, 130, 131}
var alphaBoth = []uint32{1, 2, 3, 4, 5, 6, 66, 67, 68, 130, 131}
var signedUniverse = []uint32{1, 2, 3, 4, 5, 6, 7, 8, 9, 10, 11, 12}
var concUniverse = []uint32{1, 2, 3, 4, 5, 6, 7, 8, 70, 71, 72, 73, 74, 75, 140, 141, 142, 143, 144}

func run(c *core.Ctx) {
	res := c.Res
	const W = 16
	if c.RaceBuild {
		// Race part: concurrent deliveries on every layer under the race detector.
		n := c.Q(60, 600)
		parallel(4, func(w int) {
			r := core.RNG(fmt.Sprintf("c03/race/%d", w))
			ds := []deliverer{
				newFrameDeliverer(r, frame.SessionData, concUniverse, "e2e-regular"),
				newFrameDeliverer(r, frame.RouterCtrl, concUniverse, "e2e-priority"),
				newLinkDeliverer(r, concUniverse),
				&seqDeliverer{},
				newSignedDeliverer(r, frame.RouterPing, 12, "signed-ping"),
			}
			for i := 0; i < n/4; i++ {
				for _, d := range ds {
					u := concUniverse
					if d.strict() {
						u = signedUniverse
					}
					concurrentRun(res, r, d, u, 2+r.IntN(7), 5, "race:")
				}
			}
		})
		res.Require(res.Counter("concurrent_histories_linearizable") >= int64(n/2), "too few concurrent histories checked under -race")
		return
	}

	lenI := c.Q(6, 7)  // layer (i) exhaustive length
	lenII := c.Q(5, 6) // layers (ii)/(iii)
	lenWinI := c.Q(5, 6)
	lenWinII := c.Q(4, 5)

	// Layer (i): exhaustive.
	parallel(len(alphaSmall), func(w int) {
		d := &seqDeliverer{}
		enumerate(alphaSmall, lenI, w, len(alphaSmall), func(h []uint32) bool {
			return checkHistory(res, d, h, "", true)
		})
	})
	parallel(len(alphaWin), func(w int) {
		d := &seqDeliverer{}
		enumerate(alphaWin, lenWinI, w, len(alphaWin), func(h []uint32) bool {
			return checkHistory(res, d, h, "", true)
		})
	})
	res.Count("layer_seqhandler_histories", res.Evaluations)

	// Layers (ii) and (iii): exhaustive over both alphabets, one deliverer set per worker.
	type mk func(r *rand.Rand) deliverer
	layers := []mk{
		func(r *rand.Rand) deliverer { return newFrameDeliverer(r, frame.SessionData, alphaBoth, "e2e-regular") },
		func(r *rand.Rand) deliverer {
			return newFrameDeliverer(r, frame.NetworkTraffic, alphaBoth, "e2e-traffic")
		},
		func(r *rand.Rand) deliverer { return newFrameDeliverer(r, frame.RouterCtrl, alphaBoth, "e2e-priority") },
		func(r *rand.Rand) deliverer {
			return newFrameDeliverer(r, frame.SessionCtrl, alphaBoth, "e2e-sessionctrl")
		},
		func(r *rand.Rand) deliverer { return newLinkDeliverer(r, alphaBoth) },
		func(r *rand.Rand) deliverer { return newSignedDeliverer(r, frame.RouterPing, 6, "signed-ping") },
		func(r *rand.Rand) deliverer { return newSignedDeliverer(r, frame.RouterHopPing, 6, "signed-hop") },
		func(r *rand.Rand) deliverer {
			return newSignedDeliverer(r, frame.RouterHopPingDeprecated, 6, "signed-hop-deprecated")
		},
		func(r *rand.Rand) deliverer { return newSignedDeliverer(r, frame.RouterPing, 6, "signed-ping-spread") },
	}
	before := res.Evaluations
	for li, mkd := range layers {
		shards := len(alphaSmall)
		parallel(shards, func(w int) {
			r := core.RNG(fmt.Sprintf("c03/layer/%d/%d", li, w))
			d := mkd(r)
			enumerate(alphaSmall, lenII, w, shards, func(h []uint32) bool {
				return checkHistory(res, d, h, "", true)
			})
		})
		if li < 5 { // the signed deliverers only have 6 frames
			shards = len(alphaWin)
			parallel(shards, func(w int) {
				r := core.RNG(fmt.Sprintf("c03/layerwin/%d/%d", li, w))
				d := mkd(r)
				enumerate(alphaWin, lenWinII, w, shards, func(h []uint32) bool {
					return checkHistory(res, d, h, "", true)
				})
			})
		}
	}
	res.Count("layer_frames_histories", res.Evaluations-before)

	// Seeded long random histories through every layer.
	nRandom := c.Q(400, 20000)
	const N = 1500
	all := make([]uint32, N)
	for i := range all {
		all[i] = uint32(i + 1)
	}
	before = res.Evaluations
	parallel(W, func(w int) {
		r := core.RNG(fmt.Sprintf("c03/random/%d", w))
		ds := []deliverer{
			&seqDeliverer{},
			newFrameDeliverer(r, frame.SessionData, all, "e2e-regular"),
			newFrameDeliverer(r, frame.RouterCtrl, all, "e2e-priority"),
			newLinkDeliverer(r, all),
			newSignedDeliverer(r, frame.RouterPing, 300, "signed-ping"),
		}
		for i := w; i < nRandom; i += W {
			d := ds[i/W%len(ds)]
			n := N
			if d.strict() {
				n = 300
			}
			h := randomHistory(r, n, 2000)
			if i < W {
				res.Sample(map[string]any{"layer": d.name(), "history_prefix": hstr(h[:min(40, len(h))]), "length": len(h)})
			}
			checkHistory(res, d, h, "", true)
			if i%4 == 0 {
				checkHistoryDamaged(res, d, randomHistory(r, n, 600), n, r)
			}
		}
	})
	res.Count("random_long_histories", res.Evaluations-before)

	// Mixed classes on one session: regular and priority windows are independent.
	mixedRuns := c.Q(100, 2000)
	parallel(W, func(w int) {
		r := core.RNG(fmt.Sprintf("c03/mixed/%d", w))
		mixed(res, r, mixedRuns/W+1)
		sessionEvents(res, r, 6)
		sessionLifetime(res, r, 6)
		firstContactRace(res, r, c.Q(6, 60))
	})

	// Concurrent deliveries + linearizability, plain build.
	nConc := c.Q(200, 3000)
	parallel(4, func(w int) {
		r := core.RNG(fmt.Sprintf("c03/conc/%d", w))
		ds := []deliverer{
			newFrameDeliverer(r, frame.SessionData, concUniverse, "e2e-regular"),
			newFrameDeliverer(r, frame.RouterCtrl, concUniverse, "e2e-priority"),
			newLinkDeliverer(r, concUniverse),
			&seqDeliverer{},
			newSignedDeliverer(r, frame.RouterPing, 12, "signed-ping"),
			newSignedDeliverer(r, frame.RouterHopPing, 12, "signed-hop"),
		}
		for i := 0; i < nConc/4; i++ {
			d := ds[i%len(ds)]
			u := concUniverse
			if d.strict() {
				u = signedUniverse
			}
			concurrentRun(res, r, d, u, 2+r.IntN(7), 5, "")
		}
	})

	res.Sample(map[string]any{"layer": "seqhandler", "history": "1,2,3,2", "note": "the history quoted in the property (deliver 1,2,3 then 2)"})
	res.Assume("AEAD/Ed25519 are unforgeable; the monitors check at-most-once acceptance of authentic frames, not forgery resistance")
	res.Assume("numbers older than the 64-frame window may be accepted or rejected (statement leaves it open); if accepted they join the accepted set")
	res.Require(res.Distinct() >= 1000, "fewer than 1000 distinct non-trivial histories")
	res.Require(res.Counter("first_contact_races") >= 20, "fewer than 20 first-contact races (several workers, one signed frame, no session object yet)")
}

// mixed delivers interleaved regular and priority frames of ONE session and
// checks each class against its own reference.
func mixed(res *core.Result, r *rand.Rand, runs int) {
	p := newPair(r)
	const N = 200
	mk := func(mt frame.MessageType) map[uint32][]byte {
		out := map[uint32][]byte{}
		for i := uint32(1); i <= N; i++ {
			f, err := p.a.BuilderV.NewFrameV1(p.a.IdentityV.IP, p.b.IdentityV.IP, mt, nil, []byte("mixed-payload"), nil)
			if err != nil {
				panic(err)
			}
			if err := f.Seal(p.ab); err != nil {
				panic(err)
			}
			data, _ := f.FrameDataWithMargins(0, 0)
			out[f.SequenceNum()] = append([]byte(nil), data...)
			f.ReturnToPool()
		}
		return out
	}
	encA, _ := p.origA.DeriveSessionFromKX(true, "c03 mixed")
	p.ab.SetEncryptionSession(encA)
	regl := mk(frame.SessionData)
	prio := mk(frame.RouterCtrl)
	for run := 0; run < runs; run++ {
		encB, err := p.origB.DeriveSessionFromKX(false, "c03 mixed")
		if err != nil {
			panic(err)
		}
		p.ba.SetEncryptionSession(encB)
		refR, refP := newRef(false), newRef(false)
		hr := randomHistory(r, N, 150)
		hp := randomHistory(r, N, 150)
		var trace []string
		for len(hr) > 0 || len(hp) > 0 {
			usePrio := len(hr) == 0 || (len(hp) > 0 && r.IntN(2) == 0)
			var x uint32
			var data []byte
			rf := refR
			cls := "r"
			if usePrio {
				x, hp = hp[0], hp[1:]
				data = prio[x]
				rf = refP
				cls = "p"
			} else {
				x, hr = hr[0], hr[1:]
				data = regl[x]
			}
			trace = append(trace, fmt.Sprintf("%s%d", cls, x))
			f, err := parse(p.b.BuilderV, data)
			if err != nil {
				panic(err)
			}
			err = f.Unseal(p.ba)
			f.ReturnToPool()
			acc := err == nil
			v := rf.verdict(x)
			if (v < 0 && acc) || (v > 0 && !acc) {
				res.Violate("mixed-classes:wrong-verdict",
					fmt.Sprintf("interleaved regular/priority deliveries on one session: %s%d accepted=%v but reference verdict %d (err %v)", cls, x, acc, v, err),
					map[string]any{"trace": trace})
				return
			}
			if acc {
				rf.accept(x)
			}
		}
		res.Case("mixed:"+strings.Join(trace, ","), true)
	}
	res.Count("mixed_class_histories", int64(runs))
}

// sealTo seals one frame of the given type from `from` to `to` under session s and returns its bytes.
func sealTo(from, to *env.Instance, s *state.Session, mt frame.MessageType) ([]byte, error) {
	f, err := from.BuilderV.NewFrameV1(from.IdentityV.IP, to.IdentityV.IP, mt, nil, []byte("c03-events-payload"), nil)
	if err != nil {
		return nil, err
	}
	defer f.ReturnToPool()
	if err := f.Seal(s); err != nil {
		return nil, err
	}
	d, _ := f.FrameDataWithMargins(0, 0)
	return append([]byte(nil), d...), nil
}

func unsealAt(at *env.Instance, s *state.Session, data []byte) error {
	f, err := parse(at.BuilderV, data)
	if err != nil {
		return err
	}
	defer f.ReturnToPool()
	return f.Unseal(s)
}

// sessionEvents: delivery histories that contain events of the session itself between deliveries - the 32-bit
// wrap of one direction's regular counter (key rollover) with priority traffic in both directions, and key
// setup attempts that fail (hostile key-exchange values). In-order first deliveries must be accepted (they are
// never duplicates and never behind), every second delivery must be rejected.
func sessionEvents(res *core.Result, r *rand.Rand, runs int) {
	type sent struct {
		data []byte
		desc string
		at   *env.Instance
		s    *state.Session
	}
	for run := 0; run < runs; run++ {
		p := newPair(r)
		var all []sent
		first := func(from, to *env.Instance, sf, st *state.Session, mt frame.MessageType, desc string) bool {
			data, err := sealTo(from, to, sf, mt)
			if err != nil {
				res.Violate("session-events:seal-failed", fmt.Sprintf("%s: sealing failed: %v", desc, err), map[string]any{"step": desc})
				return false
			}
			if err := unsealAt(to, st, data); err != nil {
				res.Violate("session-events:fresh-frame-rejected", fmt.Sprintf("%s: a frame delivered in order, for the first time, was rejected: %v", desc, err), map[string]any{"step": desc, "case_id": "events"})
				return false
			}
			all = append(all, sent{data, desc, to, st})
			return true
		}
		replayAll := func(when string) bool {
			for _, x := range all {
				if err := unsealAt(x.at, x.s, x.data); err == nil {
					res.Violate("session-events:frame-accepted-twice", fmt.Sprintf("%s: the frame of step '%s' unsealed a second time", when, x.desc), map[string]any{"when": when, "step": x.desc, "case_id": "events"})
					return false
				}
			}
			return true
		}
		ok := true
		// traffic in both directions, both classes
		for i := 0; i < 6 && ok; i++ {
			ok = first(p.a, p.b, p.ab, p.ba, frame.RouterPing, fmt.Sprintf("A->B signed #%d", i)) &&
				first(p.b, p.a, p.ba, p.ab, frame.RouterPing, fmt.Sprintf("B->A signed #%d", i)) &&
				first(p.a, p.b, p.ab, p.ba, frame.RouterCtrl, fmt.Sprintf("A->B priority #%d", i)) &&
				first(p.a, p.b, p.ab, p.ba, frame.SessionData, fmt.Sprintf("A->B regular #%d", i)) &&
				first(p.b, p.a, p.ba, p.ab, frame.RouterCtrl, fmt.Sprintf("B->A priority #%d", i)) &&
				first(p.b, p.a, p.ba, p.ab, frame.SessionData, fmt.Sprintf("B->A regular #%d", i))
		}
		if !ok {
			return
		}
		switch run % 3 {
		case 2:
			// both ends install new end-to-end keys (a completed re-key: Session.SetEncryptionSession)
			encA, errA := p.origA.DeriveSessionFromKX(true, fmt.Sprintf("c03 rekey %d", run))
			encB, errB := p.origB.DeriveSessionFromKX(false, fmt.Sprintf("c03 rekey %d", run))
			if errA != nil || errB != nil {
				res.Inconcl("re-key: %v %v", errA, errB)
				return
			}
			p.ab.SetEncryptionSession(encA)
			p.ba.SetEncryptionSession(encB)
			if !replayAll("after both ends installed new end-to-end keys") {
				return
			}
			for i := 0; i < 3 && ok; i++ {
				ok = first(p.a, p.b, p.ab, p.ba, frame.RouterPing, fmt.Sprintf("A->B signed after re-key #%d", i)) &&
					first(p.a, p.b, p.ab, p.ba, frame.SessionData, fmt.Sprintf("A->B regular after re-key #%d", i)) &&
					first(p.b, p.a, p.ba, p.ab, frame.RouterCtrl, fmt.Sprintf("B->A priority after re-key #%d", i))
			}
			if !ok || !replayAll("after traffic under the new keys") {
				return
			}
			res.Count("session_event_histories:re-key", 1)
		case 0:
			// A's regular counter wraps
			h := &state.EncryptionSessionTestHelper{EncryptionSession: p.ab.Encryption()}
			h.ReglSetOut(0xFFFFFFFF - uint32(3+r.IntN(5)))
			for i := 0; i < 14 && ok; i++ {
				ok = first(p.a, p.b, p.ab, p.ba, frame.SessionData, fmt.Sprintf("A->B regular across the wrap #%d", i))
			}
			for i := 0; i < 8 && ok; i++ {
				ok = first(p.a, p.b, p.ab, p.ba, frame.RouterCtrl, fmt.Sprintf("A->B priority after A's wrap #%d", i)) &&
					first(p.b, p.a, p.ba, p.ab, frame.RouterCtrl, fmt.Sprintf("B->A priority after A's wrap #%d", i)) &&
					first(p.b, p.a, p.ba, p.ab, frame.SessionData, fmt.Sprintf("B->A regular after A's wrap #%d", i))
			}
			if !ok || !replayAll("after A's regular sequence wrapped") {
				return
			}
			res.Count("session_event_histories:wrap", 1)
		default:
			// key setup attempts with hostile key-exchange values on both sessions
			bad := [][]byte{make([]byte, 32), {1}, nil, core.RandBytes(r, 31), core.RandBytes(r, 33), append([]byte{1}, make([]byte, 31)...)}
			failed := 0
			for _, s := range []*state.Session{p.ba, p.ab} {
				for _, kx := range bad {
					if _, _, err := s.Encryption().InitKeyServer(kx, "ECDH-X25519/BLAKE3"); err != nil {
						failed++
					}
					if !replayAll(fmt.Sprintf("after a key setup request with a %d-byte hostile key-exchange value", len(kx))) {
						return
					}
					if _, _, err := s.Encryption().InitKeyClientStart(); err == nil {
						if err := s.Encryption().InitKeyClientComplete(kx, "ECDH-X25519/BLAKE3"); err != nil {
							failed++
						}
					}
					if !replayAll(fmt.Sprintf("after a key setup response with a %d-byte hostile key-exchange value", len(kx))) {
						return
					}
				}
			}
			res.Count("session_event_histories:failed-key-setup", 1)
			res.Count("hostile_key_setups_refused", int64(failed))
		}
		res.Case(fmt.Sprintf("session-events|%d|%d", run%3, run), true)
	}
}

// sessionLifetime: delivery histories with the passage of time and the session cleaner's ticks between
// deliveries. Receivers look the session up through State.GetSession for every frame (as the router does), time
// passes through the VerifAdvanceTime hook and the cleaner runs through VerifHousekeeping. The sessions are in
// continuous use: between two uses of a session less than its idle lifetime passes (55 s of the 1 min for a
// session without encryption keys, 55 min of the 1 h for one with keys), so no cleaner tick may forget what was
// accepted. (A session that really is idle beyond its lifetime is dropped together with its replay state by
// design; that is outside these histories and noted in DESIGN.md.)
func sessionLifetime(res *core.Result, r *rand.Rand, runs int) {
	type sent struct {
		data     []byte
		desc     string
		at, from *env.Instance
	}
	for run := 0; run < runs; run++ {
		withKeys := run%2 == 1
		a := env.NewBareInstance(env.NewIdentity(r, nil), nil)
		b := env.NewBareInstance(env.NewIdentity(r, nil), nil)
		ab, ba, err := env.Introduce(a, b)
		if err != nil {
			res.Inconcl("introduce: %v", err)
			return
		}
		unit := time.Second
		types := []frame.MessageType{frame.RouterPing}
		if withKeys {
			if err := env.KeyExchange(ab, ba); err != nil {
				res.Inconcl("key exchange: %v", err)
				return
			}
			unit = time.Minute
			types = []frame.MessageType{frame.RouterPing, frame.RouterCtrl, frame.SessionData}
		}
		var all []sent
		var history []string
		deliverFresh := func(from, to *env.Instance, mt frame.MessageType, desc string) bool {
			sf := from.StateV.GetSession(to.IdentityV.IP)
			if sf == nil {
				res.Inconcl("sender has no session")
				return false
			}
			data, err := sealTo(from, to, sf, mt)
			if err != nil {
				res.Violate("session-lifetime:seal-failed", fmt.Sprintf("%s: sealing failed: %v (history: %s)", desc, err, strings.Join(history, "; ")), map[string]any{"case_id": "lifetime"})
				return false
			}
			st := to.StateV.GetSession(from.IdentityV.IP)
			if st == nil {
				res.Violate("session-lifetime:no-session", fmt.Sprintf("%s: the receiver has no session for a known router (history: %s)", desc, strings.Join(history, "; ")), map[string]any{"case_id": "lifetime"})
				return false
			}
			if err := unsealAt(to, st, data); err != nil {
				res.Violate("session-lifetime:fresh-frame-rejected", fmt.Sprintf("%s: a frame delivered in order, for the first time, was rejected: %v (history: %s)", desc, err, strings.Join(history, "; ")), map[string]any{"case_id": "lifetime"})
				return false
			}
			all = append(all, sent{data, desc, to, from})
			history = append(history, desc)
			return true
		}
		replayAll := func(when string) bool {
			for _, x := range all {
				st := x.at.StateV.GetSession(x.from.IdentityV.IP)
				if st == nil {
					continue
				}
				if err := unsealAt(x.at, st, x.data); err == nil {
					res.Violate("session-lifetime:frame-accepted-twice", fmt.Sprintf("%s: the frame of step '%s' unsealed a second time although the session was in use all the time (history: %s)", when, x.desc, strings.Join(history, "; ")), map[string]any{"when": when, "step": x.desc, "case_id": "lifetime"})
					return false
				}
			}
			return true
		}
		ok := true
		for step := 0; step < 14 && ok; step++ {
			for _, mt := range types {
				ok = ok && deliverFresh(a, b, mt, fmt.Sprintf("A->B type %d #%d", mt, step))
				if step%2 == 0 {
					ok = ok && deliverFresh(b, a, mt, fmt.Sprintf("B->A type %d #%d", mt, step))
				}
			}
			if !ok {
				break
			}
			// time passes (less than the idle lifetime since the last use), the cleaner ticks 0..2 times
			d := time.Duration([]int{5, 20, 31, 45, 55}[r.IntN(5)]) * unit
			a.StateV.VerifAdvanceTime(d)
			b.StateV.VerifAdvanceTime(d)
			history = append(history, fmt.Sprintf("%s pass", d))
			for k := r.IntN(3); k > 0; k-- {
				a.StateV.VerifHousekeeping()
				b.StateV.VerifHousekeeping()
				history = append(history, "cleaner tick")
			}
			if step%3 == 2 || step == 13 {
				if !replayAll(fmt.Sprintf("after %s and a cleaner tick", d)) {
					return
				}
				res.Count("lifetime_replay_rounds", 1)
			}
		}
		if !ok {
			return
		}
		if !b.StateV.VerifHasSession(a.IdentityV.IP) {
			res.Violate("session-lifetime:session-in-use-dropped", fmt.Sprintf("the session of a router was dropped by the cleaner although it was used within its idle lifetime (history: %s)", strings.Join(history, "; ")), map[string]any{"case_id": "lifetime"})
			return
		}
		res.Count(fmt.Sprintf("session_lifetime_histories:keys=%v", withKeys), 1)
		res.Case(fmt.Sprintf("session-lifetime|%v|%d", withKeys, run), true)
		// And beyond the idle lifetime: nobody uses the session for longer than that (1 min without keys, 1 h with), the
		// cleaner ticks, the session object goes - and with it everything the router knew about what it had accepted.
		// "At most once" has no time limit in the statement: the frames accepted before are delivered once more.
		idle := 3 * time.Minute
		if withKeys {
			idle = 2 * time.Hour
		}
		a.StateV.VerifAdvanceTime(idle)
		b.StateV.VerifAdvanceTime(idle)
		a.StateV.VerifHousekeeping()
		b.StateV.VerifHousekeeping()
		reported := map[string]bool{}
		for _, x := range all {
			st := x.at.StateV.GetSession(x.from.IdentityV.IP)
			if st == nil {
				continue
			}
			if err := unsealAt(x.at, st, x.data); err == nil {
				class := "encrypted"
				if mt := frame.MessageType(x.data[4]); !mt.IsEncrypted() {
					class = "signed"
				}
				if !reported[class] {
					reported[class] = true
					res.Violate("session-lifetime:"+class+"-frame-accepted-again-after-the-idle-session-was-dropped", fmt.Sprintf("after %s without any use of the session and a cleaner tick, the frame of step '%s' (accepted before) unsealed a second time", idle, x.desc), map[string]any{"step": x.desc, "case_id": "lifetime-idle"})
				}
			}
		}
		res.Count("idle_beyond_lifetime_replay_rounds", 1)
	}
}

// firstContactRace: two workers of one router handle two copies of the same signed frame at the same moment, and the
// frame comes from a router the receiver knows (storage) but holds no session object for - first contact after a
// restart, or after the cleaner dropped an idle session. Each worker asks the state manager for the session and
// unseals with what it got; the storage lookup in between is a real suspension point (a state file, a database),
// stretched here (env.SlowStorage) so that the two workers meet in it. At most one copy may be accepted; the same for
// two different frames of one sender delivered newest first (the older one must not be accepted by a second filter).
func firstContactRace(res *core.Result, r *rand.Rand, runs int) {
	for run := 0; run < runs; run++ {
		a := env.NewBareInstance(env.NewIdentity(r, nil), nil)
		b := env.NewBareInstance(env.NewIdentity(r, nil), nil)
		ab, _, err := env.Introduce(a, b)
		if err != nil {
			res.Inconcl("introduce: %v", err)
			return
		}
		// the receiver forgets the (unused, keyless) session object: more than its idle lifetime passes, the cleaner ticks
		// (hours, not minutes: how long an unused session is kept is the tree's own business)
		b.StateV.VerifAdvanceTime(5 * time.Hour)
		b.StateV.VerifHousekeeping()
		if b.StateV.VerifHasSession(a.IdentityV.IP) {
			res.Count("first_contact_session_not_dropped_by_cleaner", 1)
			continue
		}
		mt := []frame.MessageType{frame.RouterPing, frame.RouterHopPing}[run%2]
		data, err := sealTo(a, b, ab, mt)
		if err != nil {
			res.Inconcl("seal: %v", err)
			return
		}
		workers := 2 + run%3
		before := b.SlowV.GetRouterCalls.Load()
		b.SlowV.SetGetRouterDelay(3 * time.Millisecond)
		errs := make([]error, workers)
		var wg sync.WaitGroup
		start := make(chan struct{})
		for g := 0; g < workers; g++ {
			wg.Add(1)
			core.OnHelper(func() {
				defer wg.Done()
				<-start
				st := b.StateV.GetSession(a.IdentityV.IP)
				if st == nil {
					errs[g] = fmt.Errorf("no session")
					return
				}
				errs[g] = unsealAt(b, st, data)
			})
		}
		close(start)
		wg.Wait()
		b.SlowV.SetGetRouterDelay(0)
		accepted := 0
		for _, e := range errs {
			if e == nil {
				accepted++
			}
		}
		lookups := b.SlowV.GetRouterCalls.Load() - before
		if accepted > 1 {
			res.Violate("first-contact-race:signed-frame-accepted-twice", fmt.Sprintf("%d workers handled copies of one signed frame (type %d) of a known router without session object at the same moment (%d storage lookups): %d copies were accepted: %v", workers, mt, lookups, accepted, errs), map[string]any{"case_id": "first-contact-race"})
			return
		}
		if accepted == 0 {
			res.Violate("first-contact-race:fresh-frame-rejected", fmt.Sprintf("%d workers handled copies of one fresh signed frame at the same moment: none was accepted: %v", workers, errs), map[string]any{"case_id": "first-contact-race"})
			return
		}
		// afterwards the one session object that is registered must refuse the frame as well
		if st := b.StateV.GetSession(a.IdentityV.IP); st != nil {
			if err := unsealAt(b, st, data); err == nil {
				res.Violate("first-contact-race:replay-accepted-afterwards", "after two workers handled copies of one signed frame at first contact, the registered session accepted the frame once more", map[string]any{"case_id": "first-contact-race"})
				return
			}
		}
		res.Count("first_contact_races", 1)
		if lookups >= 2 {
			res.Count("first_contact_races_with_overlapping_lookups", 1)
		} else {
			res.Count("first_contact_races_serialised_by_the_state_manager", 1)
		}
		res.Case(fmt.Sprintf("first-contact-race|%d|%d|%d", mt, workers, run), true)
	}
}
