// Package c14: end-to-end key setup never ends in a silent key mismatch.
package c14

import (
	"fmt"
	"math/rand/v2"
	"net/netip"
	"slices"
	"strings"
	"sync"
	"sync/atomic"
	"time"

	"github.com/mycoria/mycoria/frame"
	"github.com/mycoria/mycoria/m"
	"github.com/mycoria/mycoria/mgr"
	"github.com/mycoria/mycoria/state"

	"verifharness/core"
	"verifharness/env"
	"verifharness/vmesh"
)

func init() {
	core.Register(&core.Prop{
		ID:    "C14",
		Level: "exploration",
		Rule: "two real routers (directly linked and via one relay; both address orderings), key setup started through the real HelloPing.Send; the harness owns the network and enumerates schedules by re-execution: " +
			"initiator set {A},{B},{A,B}; every in-flight hello message may be delivered, dropped or delivered twice; a side that is not set up may retry after logical expiry (hook VerifExpireHello) at every position; " +
			"exhaustive DFS without retries, budgeted DFS + seeded sampling with retries; at quiescence: not (both set up and unable to decrypt each other), and one clean retry completes the setup; " +
			"the second initiator's Send overlapped with a frame worker serving the first one's request (at the link-send suspension point, and with two goroutines through the real tun trigger); " +
			"non-trivial = both routers initiate, or a message is lost or duplicated; distinct by schedule string",
		Run:              run,
		CrashIsViolation: true,
	})
}

type action struct {
	kind string // deliver, drop, dup, retry
	idx  int    // in-flight index or node index
}

type world struct {
	ms          *vmesh.Mesh
	a, b        int // node indices of the two endpoints
	dupped      map[string]bool
	retries     [2]int
	trace       []string
	names       map[string]string // frame key -> message name
	deliverOnly bool
	lateInits   []int // sides that have yet to start their setup
	nReq        [2]int
	// cleanLeft: how many cleaner ticks (the once-a-minute housekeeping of the hello handler) may still be
	// injected per side; 0 in the exhaustive spaces
	cleanLeft [2]int
	// errLeft: how many authentic "no encryption keys" error pings each side may still send to the other (what a
	// router does when traffic arrives that it has no keys for); they travel like every other message
	errLeft [2]int
	// stale: traffic frames sealed under the keys of the prior setup that are still on their way
	stale          []staleFrame
	staleDelivered bool
	// windowHandledInside: the peer's request was handled completely while the local request was inside Send
	windowHandledInside bool
}

func (w *world) node(side int) *vmesh.Node {
	if side == 0 {
		return w.ms.Nodes[w.a]
	}
	return w.ms.Nodes[w.b]
}

func (w *world) peerOf(side int) *vmesh.Node { return w.node(1 - side) }

func (w *world) setUp(side int) bool {
	s := w.node(side).Inst.StateV.GetSession(w.peerOf(side).ID.IP)
	return s != nil && s.Encryption().IsSetUp()
}

func sideName(s int) string { return []string{"A", "B"}[s] }

// initiate starts a key setup at side (the real trigger calls HelloPing.Send).
func (w *world) initiate(side int) error {
	n := w.node(side)
	_, err := n.Inst.RouterV.HelloPing.Send(w.peerOf(side).ID.IP)
	w.nReq[side]++
	return err
}

func (w *world) name(p *vmesh.Packet) string {
	k := vmesh.Key(p.Data)
	if nm, ok := w.names[k]; ok {
		return nm
	}
	// classify by source and order of appearance
	src := "?"
	for s := 0; s < 2; s++ {
		if string(p.Data[16:32]) == string(w.node(s).ID.IP.AsSlice()) {
			src = sideName(s)
		}
	}
	nm := fmt.Sprintf("m%d(from %s)", len(w.names)+1, src)
	w.names[k] = nm
	return nm
}

func (w *world) actions(allowRetry bool) []action {
	var acts []action
	for i, p := range w.ms.InFlight {
		acts = append(acts, action{"deliver", i})
		if w.deliverOnly {
			continue
		}
		acts = append(acts, action{"drop", i})
		if !w.dupped[vmesh.Key(p.Data)] {
			acts = append(acts, action{"dup", i})
		}
	}
	if allowRetry {
		for s := 0; s < 2; s++ {
			if w.retries[s] > 0 && !w.setUp(s) {
				acts = append(acts, action{"retry", s})
			}
		}
	}
	for _, s := range w.lateInits {
		// like a retry, a late start is only taken by a side that does not consider encryption established at
		// that moment: the real trigger (router/tun.go) starts a setup only for a peer without keys
		if !w.setUp(s) {
			acts = append(acts, action{"init", s})
		}
	}
	for s := 0; s < 2; s++ {
		if w.cleanLeft[s] > 0 && w.ms.Pending() > 0 {
			acts = append(acts, action{"clean", s})
		}
		if w.errLeft[s] > 0 && w.ms.Pending() > 0 {
			acts = append(acts, action{"errping", s})
		}
	}
	return acts
}

func (w *world) apply(act action) error {
	switch act.kind {
	case "deliver":
		p := w.ms.Take(act.idx)
		w.trace = append(w.trace, "deliver "+w.name(p))
		w.ms.Deliver(p)
	case "drop":
		p := w.ms.Take(act.idx)
		w.trace = append(w.trace, "drop "+w.name(p))
	case "dup":
		p := w.ms.InFlight[act.idx]
		w.dupped[vmesh.Key(p.Data)] = true
		w.trace = append(w.trace, "deliver-copy "+w.name(p))
		cp := *p
		w.ms.Deliver(&cp)
	case "clean":
		w.cleanLeft[act.idx]--
		w.trace = append(w.trace, "cleaner-tick "+sideName(act.idx))
		n := w.node(act.idx)
		if err := n.Inst.RouterV.Manager().Do("verif hello clean", func(wc *mgr.WorkerCtx) error { return n.Inst.RouterV.HelloPing.Clean(wc) }); err != nil {
			return err
		}
	case "init":
		w.lateInits = slices.DeleteFunc(w.lateInits, func(x int) bool { return x == act.idx })
		w.trace = append(w.trace, "init "+sideName(act.idx))
		if err := w.initiate(act.idx); err != nil {
			w.trace = append(w.trace, "(refused: "+err.Error()+")")
		}
	case "errping":
		w.errLeft[act.idx]--
		w.trace = append(w.trace, "no-keys-error-ping from "+sideName(act.idx))
		if err := w.node(act.idx).Inst.RouterV.ErrorPing.SendNoEncryptionKeys(w.peerOf(act.idx).ID.IP); err != nil {
			w.trace = append(w.trace, "(not sent: "+err.Error()+")")
		}
	case "retry":
		w.retries[act.idx]--
		w.trace = append(w.trace, "retry "+sideName(act.idx))
		w.node(act.idx).Inst.RouterV.HelloPing.VerifExpireHello(w.peerOf(act.idx).ID.IP)
		if err := w.initiate(act.idx); err != nil {
			return err
		}
	}
	return nil
}

// initiateInWindow starts a setup at side through the real HelloPing.Send while the peer's own request is waiting
// at this router, and lets a frame worker of the same router handle that request at the moment the local request is
// handed to the link - i.e. inside Send, an existing suspension point (the link's queue). In the real router the
// sender (tun worker) and the frame workers are different goroutines; here the delivery runs on a goroutine of its
// own and the sender waits (bounded) for it: a tree whose handler has to wait for the sender simply runs it afterwards.
func (w *world) initiateInWindow(side int) error {
	n := w.node(side)
	var fired atomic.Bool
	var wg sync.WaitGroup
	w.ms.OnLinkSend = func(l *vmesh.VLink, data []byte) {
		if core.FromForeignGoroutine() || l.FromIdx() != n.Idx || !fired.CompareAndSwap(false, true) {
			return // (a link send made by a worker of the tree's own is not the sender's Send)
		}
		var p *vmesh.Packet
		for i, q := range w.ms.InFlight {
			if q.To == n.Idx {
				p = w.ms.Take(i)
				break
			}
		}
		if p == nil {
			return
		}
		w.trace = append(w.trace, "deliver "+w.name(p)+" to a frame worker of "+sideName(side)+" while its own request is being sent")
		wg.Add(1)
		done := core.OnHelper(func() {
			defer wg.Done()
			w.ms.Deliver(p)
		})
		select {
		case <-done:
			w.windowHandledInside = true
		case <-time.After(10 * time.Millisecond):
		}
	}
	err := w.initiate(side)
	wg.Wait()
	w.ms.OnLinkSend = nil
	return err
}

// talk seals traffic at from and unseals it at to.
func (w *world) talk(from, to int) error {
	data, err := w.sealTraffic(from, to)
	if err != nil {
		return err
	}
	return w.unsealTraffic(from, to, data)
}

// sealTraffic seals one traffic frame at from for to and returns its bytes (the frame is "on its way").
func (w *world) sealTraffic(from, to int) ([]byte, error) {
	F, T := w.node(from), w.node(to)
	sf := F.Inst.StateV.GetSession(T.ID.IP)
	if sf == nil {
		return nil, fmt.Errorf("no session")
	}
	f, err := F.Inst.BuilderV.NewFrameV1(F.ID.IP, T.ID.IP, frame.NetworkTraffic, nil, []byte("c14 traffic payload after key setup ........."), nil)
	if err != nil {
		return nil, err
	}
	defer f.ReturnToPool()
	if err := f.Seal(sf); err != nil {
		return nil, fmt.Errorf("seal: %w", err)
	}
	data, _ := f.FrameDataWithMargins(0, 0)
	return append([]byte(nil), data...), nil
}

// unsealTraffic lets `to` receive a traffic frame that `from` sealed.
func (w *world) unsealTraffic(from, to int, data []byte) error {
	F, T := w.node(from), w.node(to)
	st := T.Inst.StateV.GetSession(F.ID.IP)
	if st == nil {
		return fmt.Errorf("no session")
	}
	g, err := T.Inst.BuilderV.ParseFrame(append([]byte(nil), data...), nil, 0)
	if err != nil {
		return err
	}
	defer g.ReturnToPool()
	return g.Unseal(st)
}

type staleFrame struct {
	from, to int
	data     []byte
}

type setup struct {
	relay   bool
	swapped bool
	ids     []*m.Address
	// prior: 0 = the routers never talked; 1/2 = they completed a setup and exchanged traffic before, then A/B
	// lost its keys (restart with the same identity) - the other side re-keys its used session in place.
	prior int
	// cleans: cleaner ticks that may be injected per side while messages are in flight
	cleans int
	// errs: "no encryption keys" error pings each side may send while messages are in flight
	errs int
	// deliverOnly: no message is lost or duplicated (the order of deliveries is the only choice)
	deliverOnly bool
	// lateInit: only the first initiator starts at once; the second one starts its setup at a point the schedule
	// chooses (signed frames are filtered by per-sender timestamps, so what a router signed before its request
	// and what it signed after it are different schedules)
	lateInit bool
	// window: the second initiator's request is sent while the first one's request is handled by a frame worker of
	// the same router (see initiateInWindow)
	window bool
	// tun: the routers have a (fake) local interface, so that the real trigger in router/tun.go runs
	tun bool
}

func buildWorld(r *rand.Rand, s setup, retries int) (*world, error) {
	var t *vmesh.Topology
	ids := s.ids
	if s.relay {
		t = vmesh.Line(3)
	} else {
		t = vmesh.Line(2)
	}
	use := make([]*m.Address, t.N)
	a, b := 0, t.N-1
	idA, idB := ids[0], ids[1]
	if s.swapped {
		idA, idB = idB, idA
	}
	use[a], use[b] = idA, idB
	if s.relay {
		use[1] = ids[2]
	}
	ms, err := vmesh.Build(r, t, use, vmesh.BuildOpts{Labels: vmesh.LabelsSmall, Introduce: true, FakeTun: s.tun})
	if err != nil {
		return nil, err
	}
	if s.relay {
		if err := ms.Converge(r, false); err != nil {
			return nil, err
		}
	}
	w := &world{ms: ms, a: a, b: b, dupped: map[string]bool{}, names: map[string]string{}}
	w.retries = [2]int{retries, retries}
	w.cleanLeft = [2]int{s.cleans, s.cleans}
	w.errLeft = [2]int{s.errs, s.errs}
	w.deliverOnly = s.deliverOnly
	if s.prior > 0 {
		if err := w.initiate(0); err != nil {
			return nil, fmt.Errorf("prior setup: %w", err)
		}
		ms.Drain(vmesh.FIFO, 100)
		if !w.setUp(0) || !w.setUp(1) {
			return nil, fmt.Errorf("prior setup did not complete")
		}
		for i := 0; i < 6; i++ {
			if e1, e2 := w.talk(0, 1), w.talk(1, 0); e1 != nil || e2 != nil {
				return nil, fmt.Errorf("prior traffic failed: %v %v", e1, e2)
			}
		}
		// a longer stream in both directions; its last frames are still on their way when the keys are lost and set
		// up again (the setup messages are priority frames and overtake them): they arrive after the new setup
		if r.IntN(2) == 0 {
			n := 70 + r.IntN(60)
			for dir := 0; dir < 2; dir++ {
				for i := 0; i < n; i++ {
					data, err := w.sealTraffic(dir, 1-dir)
					if err != nil {
						return nil, fmt.Errorf("prior stream: %v", err)
					}
					if i < n-3 {
						if err := w.unsealTraffic(dir, 1-dir, data); err != nil {
							return nil, fmt.Errorf("prior stream: %v", err)
						}
					} else {
						w.stale = append(w.stale, staleFrame{dir, 1 - dir, data})
					}
				}
			}
		}
		loser := s.prior - 1
		if ls := w.node(loser).Inst.StateV.GetSession(w.peerOf(loser).ID.IP); ls != nil {
			ls.SetEncryptionSession(state.NewEncryptionSession())
		}
		for sd := 0; sd < 2; sd++ {
			w.node(sd).Inst.RouterV.HelloPing.VerifExpireHello(w.peerOf(sd).ID.IP)
		}
		w.nReq = [2]int{}
		w.names = map[string]string{}
		w.trace = nil
	}
	return w, nil
}

// verdict evaluates the quiescent state. Returns a violation signature or "".
func (w *world) verdict() (sig, msg string) {
	aUp, bUp := w.setUp(0), w.setUp(1)
	// what was still on its way under the previous keys arrives now (whatever the receiver makes of it)
	for _, sf := range w.stale {
		_ = w.unsealTraffic(sf.from, sf.to, sf.data)
	}
	if len(w.stale) > 0 {
		w.staleDelivered = true
	}
	if aUp && bUp {
		var e1, e2 error
		for i := 0; i < 3 && e1 == nil && e2 == nil; i++ {
			e1 = w.talk(0, 1)
			e2 = w.talk(1, 0)
		}
		if e1 != nil || e2 != nil {
			return "silent-key-mismatch", fmt.Sprintf("both routers consider encryption established, but traffic A->B: %v, B->A: %v", e1, e2)
		}
		return "", ""
	}
	// Bounded progress: a side that is not set up starts a new setup with its next packet; with no further faults it completes.
	side := 0
	if aUp {
		side = 1
	}
	for s := 0; s < 2; s++ {
		w.node(s).Inst.RouterV.HelloPing.VerifExpireHello(w.peerOf(s).ID.IP)
	}
	if err := w.initiate(side); err != nil {
		return "retry-cannot-start", fmt.Sprintf("after the faults stopped, %s (not set up) cannot start a new setup: %v", sideName(side), err)
	}
	if _, drained := w.ms.Drain(vmesh.FIFO, 100); !drained {
		return "retry-does-not-drain", "clean retry produced an endless message exchange"
	}
	if !w.setUp(0) || !w.setUp(1) {
		return "clean-retry-does-not-complete", fmt.Sprintf("after the faults stopped and the timers expired, a clean new setup started by %s left A set up=%v, B set up=%v", sideName(side), w.setUp(0), w.setUp(1))
	}
	e1 := w.talk(0, 1)
	e2 := w.talk(1, 0)
	if e1 != nil || e2 != nil {
		return "silent-key-mismatch-after-retry", fmt.Sprintf("after a clean retry both are set up but traffic A->B: %v, B->A: %v", e1, e2)
	}
	return "", ""
}

var initiatorSets = [][]int{{0}, {1}, {0, 1}, {1, 0}}

// runSchedule executes one schedule given by choices; returns branching factors.
func runSchedule(res *core.Result, r *rand.Rand, s setup, initSet int, retries int, choices []int, randomTail bool) (branch []int, ok bool) {
	t0 := time.Now()
	w, err := buildWorld(r, s, retries)
	if err != nil {
		res.Inconcl("world: %v", err)
		return nil, false
	}
	desc := fmt.Sprintf("relay=%v swapped=%v initiators=%v retries=%d", s.relay, s.swapped, initiatorSets[initSet], retries)
	if s.prior > 0 {
		desc += fmt.Sprintf(" prior-setup-and-traffic-then-%s-lost-its-keys", sideName(s.prior-1))
	}
	if s.lateInit {
		desc += " second-initiator-starts-later"
	}
	if s.errs > 0 {
		desc += " with-no-keys-error-pings"
	}
	if s.window {
		desc += " first-request-handled-while-second-is-being-sent"
	}
	for k, side := range initiatorSets[initSet] {
		if s.lateInit && k > 0 {
			w.lateInits = append(w.lateInits, side)
			continue
		}
		if s.window && k > 0 {
			// bring the first request to the last hop before this router
			for guard := 0; guard < 10; guard++ {
				moved := false
				for i, q := range w.ms.InFlight {
					if q.To != w.node(side).Idx {
						w.ms.Deliver(w.ms.Take(i))
						moved = true
						break
					}
				}
				if !moved {
					break
				}
			}
			w.trace = append(w.trace, "init "+sideName(side))
			if err := w.initiateInWindow(side); err != nil {
				res.Inconcl("initiate in window: %v", err)
				return nil, false
			}
			if w.windowHandledInside {
				res.Count("window_request_handled_inside_send", 1)
			} else {
				res.Count("window_request_handled_after_send", 1)
			}
			continue
		}
		if err := w.initiate(side); err != nil {
			if s.prior > 0 && side != s.prior-1 {
				continue // the side that still has keys may refuse to start another setup
			}
			res.Inconcl("initiate: %v", err)
			return nil, false
		}
		w.trace = append(w.trace, "init "+sideName(side))
	}
	step := 0
	for step < 60 {
		acts := w.actions(retries > 0)
		if len(acts) == 0 {
			break
		}
		// "stop here": with retries the schedule may also end with messages... no: quiescence needs an empty network,
		// so in-flight messages must be delivered or dropped; retries are optional (choice index len(acts) = no more retries).
		n := len(acts)
		optionalOnly := w.ms.Pending() == 0
		if optionalOnly {
			n++ // extra choice: finish
		}
		idx := 0
		switch {
		case step < len(choices):
			idx = choices[step]
		case randomTail:
			idx = r.IntN(n)
		}
		branch = append(branch, n)
		if idx >= n {
			idx = n - 1
		}
		if optionalOnly && idx == n-1 {
			break
		}
		if err := w.apply(acts[idx]); err != nil {
			res.Inconcl("apply: %v", err)
			return branch, false
		}
		step++
	}
	if len(w.ms.Panics) > 0 {
		res.Violate("handler-panic", fmt.Sprintf("%s: %v", desc, w.ms.Panics[0]), map[string]any{"setup": desc, "schedule": w.trace})
		return branch, false
	}
	if w.ms.Pending() > 0 {
		// step cap reached: finish by dropping
		for w.ms.Pending() > 0 {
			w.ms.Take(0)
		}
	}
	schedule := strings.Join(w.trace, "; ")
	sig, msg := w.verdict()
	if core.StalledSince(t0) || time.Since(t0) > 4*time.Second {
		// The hello handler's own timers (30 s for a pending request, 5 s cooldown) are part of the behaviour; a
		// schedule runs in about a millisecond and passes time only through its explicit retry/expiry actions. If
		// the process (or the whole VM) stood still for seconds meanwhile, real time leaked into the schedule:
		// its verdict is not about the schedule that was meant, and it is discarded (counted).
		res.Count("schedules_discarded_after_process_stall", 1)
		return branch, true
	}

	if sig != "" && core.AsyncTree.Load() {
		// A tree that answers from goroutines of its own: quiescence after a delivery is read from the scheduler's
		// counters, which are approximate. If a message shows up after the verdict was taken, the state that was
		// judged was not a quiescent one: the schedule is discarded (counted), not reported.
		core.WaitForeignIdle()
		if w.ms.Pending() > 0 {
			res.Count("schedules_discarded_message_appeared_after_the_verdict", 1)
			return branch, true
		}
	}
	if sig != "" {
		// schedule pattern for the known-findings matcher: which requests were handled before the first response
		res.Violate(sig, fmt.Sprintf("%s: schedule [%s]: %s", desc, schedule, msg), map[string]any{"setup": desc, "schedule": w.trace, "choices": choices, "case_id": desc + "|" + schedule})
		return branch, false
	}
	nontrivial := initSet >= 2 || strings.Contains(schedule, "drop") || strings.Contains(schedule, "copy") || strings.Contains(schedule, "retry")
	res.Case(desc+"|"+schedule, nontrivial)
	if initSet >= 2 {
		res.Count("schedules_both_initiate", 1)
	}
	if w.staleDelivered {
		res.Count("schedules_with_frames_of_the_previous_keys_arriving_after_the_setup", 1)
	}
	return branch, true
}

// concurrentInitiation: several local workers of one router start a setup with the same peer at the same moment
// (two packets to a router without keys, handled by two tun workers). Whatever they send is then delivered in a
// seeded order; the usual verdict applies.
func concurrentInitiation(res *core.Result, r *rand.Rand, s setup, workers int) {
	w, err := buildWorld(r, s, 0)
	if err != nil {
		res.Inconcl("world: %v", err)
		return
	}
	n, peer := w.node(0), w.peerOf(0).ID.IP
	start := make(chan struct{})
	var wg sync.WaitGroup
	for g := 0; g < workers; g++ {
		wg.Add(1)
		go func() {
			defer wg.Done()
			<-start
			_, _ = n.Inst.RouterV.HelloPing.Send(peer)
		}()
	}
	close(start)
	wg.Wait()
	sent := w.ms.Pending()
	pol := vmesh.FIFO
	order := "fifo"
	if r.IntN(2) == 0 {
		pol = vmesh.RandomOrder(r)
		order = "random"
	}
	if _, drained := w.ms.Drain(pol, 200); !drained {
		res.Violate("setup-does-not-drain", "concurrent initiation produced an endless message exchange", nil)
		return
	}
	desc := fmt.Sprintf("relay=%v swapped=%v: %d local workers start a setup at once (%d request(s) left the router), delivery %s", s.relay, s.swapped, workers, sent, order)
	if len(w.ms.Panics) > 0 {
		res.Violate("handler-panic", fmt.Sprintf("%s: %v", desc, w.ms.Panics[0]), map[string]any{"setup": desc})
		return
	}
	if sig, msg := w.verdict(); sig != "" {
		res.Violate(sig+":concurrent-local-initiation", fmt.Sprintf("%s: %s", desc, msg), map[string]any{"setup": desc, "case_id": "concurrent-initiation"})
		return
	}
	res.Count("concurrent_initiations", 1)
	if sent > 1 {
		res.Count("concurrent_initiations_with_two_requests", 1)
	}
	res.Case(fmt.Sprintf("concurrent-initiation|%v|%v|%d|%d|%s", s.relay, s.swapped, workers, sent, order), true)
}

// tunRace: the real trigger. A local packet for the peer reaches the tun handler of a router without keys
// (router/tun.go: session not set up -> HelloPing.Send) while the peer's own request is handled by a frame worker of
// the same router - two real goroutines, the second starting after a seeded delay of 0..600 microseconds, so that over
// the runs the request is handled before the trigger looks, between its look and its Send, inside Send, and after it.
// Afterwards everything addressed to the peer is delivered and the peer's hello response is lost (the continuation in
// which a superfluous second setup does harm); the usual verdict applies.
func tunRace(res *core.Result, r *rand.Rand, s setup) {
	w, err := buildWorld(r, s, 0)
	if err != nil {
		res.Inconcl("world: %v", err)
		return
	}
	t0 := time.Now()
	A, B := w.node(0), w.node(1)
	if err := w.initiate(1); err != nil {
		res.Inconcl("tun race: peer cannot initiate: %v", err)
		return
	}
	if w.ms.Pending() != 1 {
		res.Inconcl("tun race: %d frames in flight after one initiation", w.ms.Pending())
		return
	}
	reqB := w.ms.Take(0)
	pkt := localPacket(A.ID.IP, B.ID.IP, 17, uint16(20000+r.IntN(20000)), uint16(1+r.IntN(60000)))
	ps := A.Inst.BuilderV.GetPooledSlice(len(pkt))
	copy(ps, pkt)
	delay := time.Duration(r.IntN(600)) * time.Microsecond
	var wg sync.WaitGroup
	var perr error
	start := make(chan struct{})
	wg.Add(2)
	core.OnHelper(func() {
		defer wg.Done()
		<-start
		perr = A.Inst.RouterV.VerifHandleTunPacket(ps[:len(pkt)])
	})
	core.OnHelper(func() {
		defer wg.Done()
		<-start
		for t := time.Now(); time.Since(t) < delay; {
		}
		w.ms.Deliver(reqB)
	})
	close(start)
	wg.Wait()
	desc := fmt.Sprintf("swapped=%v: local packet at A (no keys) while B's request is handled by a frame worker of A (started %v later)", s.swapped, delay)
	if perr != nil || len(w.ms.Panics) > 0 {
		res.Violate("handler-panic", fmt.Sprintf("%s: %v %v", desc, perr, w.ms.Panics), map[string]any{"setup": desc})
		return
	}
	requestsFromA := 0
	for guard := 0; guard < 50 && w.ms.Pending() > 0; guard++ {
		p := w.ms.Take(0)
		if p.To == B.Idx {
			if len(p.Data) > 4 && frame.MessageType(p.Data[4]) == frame.RouterPing {
				requestsFromA++
			}
			w.ms.Deliver(p)
		} // else: lost
	}
	if core.StalledSince(t0) {
		res.Count("schedules_discarded_after_process_stall", 1)
		return
	}
	if sig, msg := w.verdict(); sig != "" {
		res.Violate(sig+":local-packet-while-peer-request-is-handled", fmt.Sprintf("%s; then A's frames were delivered and B's answers lost: %s", desc, msg), map[string]any{"setup": desc, "case_id": "tun-race"})
		return
	}
	res.Count("tun_races", 1)
	if requestsFromA >= 2 {
		res.Count("tun_races_in_which_A_also_sent_a_request", 1)
	}
	res.Case(fmt.Sprintf("tun-race|%v|%d|%d", s.swapped, delay/(50*time.Microsecond), requestsFromA), true)
}

func localPacket(src, dst netip.Addr, proto uint8, sport, dport uint16) []byte {
	p := make([]byte, 60)
	p[0] = 6 << 4
	p[5] = 20
	p[6] = proto
	p[7] = 64
	a := src.As16()
	copy(p[8:24], a[:])
	a = dst.As16()
	copy(p[24:40], a[:])
	p[40], p[41] = byte(sport>>8), byte(sport)
	p[42], p[43] = byte(dport>>8), byte(dport)
	return p
}

func dfs(res *core.Result, r *rand.Rand, s setup, initSet, retries, budget int) {
	var choices []int
	count := 0
	for count < budget {
		branch, ok := runSchedule(res, r, s, initSet, retries, choices, false)
		count++
		if !ok && len(branch) == 0 {
			return
		}
		full := make([]int, len(branch))
		copy(full, choices)
		i := len(branch) - 1
		for i >= 0 {
			if full[i]+1 < branch[i] {
				break
			}
			i--
		}
		if i < 0 {
			res.Count("dfs_spaces_exhausted", 1)
			res.Count("dfs_schedules", int64(count))
			return
		}
		choices = append(append([]int{}, full[:i]...), full[i]+1)
	}
	res.Count("dfs_spaces_budget_reached", 1)
	res.Count("dfs_schedules", int64(count))
}

func parallel(n int, fn func(w int)) { core.Parallel(n, fn) }

func run(c *core.Ctx) {
	res := c.Res
	rid := core.RNG("c14/ids")
	ids := []*m.Address{env.NewIdentity(rid, nil), env.NewIdentity(rid, nil), env.NewIdentity(rid, nil)}

	type job struct {
		s       setup
		initSet int
		retries int
		budget  int
		random  int
	}
	var jobs []job
	for _, relay := range []bool{false, true} {
		for _, swapped := range []bool{false, true} {
			s := setup{relay: relay, swapped: swapped, ids: ids}
			for is := range initiatorSets {
				jobs = append(jobs, job{s, is, 0, c.Q(3000, 20000), 0})             // exhaustive without retries
				jobs = append(jobs, job{s, is, 1, c.Q(400, 12000), c.Q(300, 6000)}) // with retries: budgeted DFS + random
			}
		}
	}
	// with a prior setup and traffic: the side that lost its keys initiates
	for _, relay := range []bool{false, true} {
		for _, swapped := range []bool{false, true} {
			for prior := 1; prior <= 2; prior++ {
				s := setup{relay: relay, swapped: swapped, ids: ids, prior: prior}
				// only a router without keys starts a setup (router/tun.go); the side that kept its keys never does
				loserFirst := map[int][]int{1: {0}, 2: {1}}[prior]
				for _, is := range loserFirst {
					jobs = append(jobs, job{s, is, 0, c.Q(300, 5000), 0})
					jobs = append(jobs, job{s, is, 1, c.Q(100, 3000), c.Q(60, 1500)})
				}
			}
		}
	}
	// with housekeeping ticks of the hello handler in between (seeded sampling; both initiate)
	for _, swapped := range []bool{false, true} {
		s := setup{relay: false, swapped: swapped, ids: ids, cleans: 1}
		jobs = append(jobs, job{s, 2, 0, 0, c.Q(400, 8000)}, job{s, 3, 0, 0, c.Q(400, 8000)})
	}
	// the second initiator starts at a point of the schedule (no other disturbance): budgeted search + sampling
	for _, swapped := range []bool{false, true} {
		s := setup{relay: false, swapped: swapped, ids: ids, lateInit: true}
		jobs = append(jobs, job{s, 2, 0, c.Q(1500, 20000), c.Q(300, 6000)}, job{s, 3, 0, c.Q(1500, 20000), c.Q(300, 6000)})
	}
	// with "no encryption keys" error pings crossing the setup messages (seeded sampling; one or both initiate)
	for _, swapped := range []bool{false, true} {
		for _, relay := range []bool{false, true} {
			s := setup{relay: relay, swapped: swapped, ids: ids, errs: 1, lateInit: true}
			for is := range initiatorSets {
				jobs = append(jobs, job{s, is, 0, 0, c.Q(300, 8000)})
			}
			// every order of the (undisturbed) deliveries with one error ping per side: budgeted depth-first search
			so := s
			so.deliverOnly = true
			for is := range initiatorSets {
				jobs = append(jobs, job{so, is, 0, c.Q(1500, 40000), c.Q(1500, 20000)})
			}
		}
	}
	// the second router starts its setup (it has no keys yet) at the very moment the first one's request is handled
	// by one of its frame workers: every continuation (deliver / drop / duplicate) of what is in flight afterwards
	for _, relay := range []bool{false, true} {
		for _, swapped := range []bool{false, true} {
			s := setup{relay: relay, swapped: swapped, ids: ids, window: true}
			jobs = append(jobs, job{s, 2, 0, c.Q(500, 20000), 0}, job{s, 3, 0, c.Q(500, 20000), 0})
		}
	}
	parallel(len(jobs), func(w int) {
		j := jobs[w]
		r := core.RNG(fmt.Sprintf("c14/job/%d", w))
		if j.budget > 0 {
			dfs(res, r, j.s, j.initSet, j.retries, j.budget)
		}
		for i := 0; i < j.random; i++ {
			runSchedule(res, r, j.s, j.initSet, j.retries, nil, true)
		}
	})
	parallel(4, func(w int) {
		r := core.RNG(fmt.Sprintf("c14/conc/%d", w))
		for i := 0; i < c.Q(150, 3000); i++ {
			concurrentInitiation(res, r, setup{relay: i%4 == 3, swapped: i%2 == 1, ids: ids}, 2+i%3)
		}
	})
	parallel(16, func(w int) {
		r := core.RNG(fmt.Sprintf("c14/tunrace/%d", w))
		for i := 0; i < c.Q(12, 200); i++ {
			tunRace(res, r, setup{swapped: i%2 == 1, ids: ids, tun: true})
		}
	})
	res.Sample("relay=false swapped=false initiators=[A B]: init A; init B; deliver m1(from A); deliver m2(from B); deliver m3(from B); deliver m4(from A)")
	res.Sample("relay=true swapped=true initiators=[A]: init A; drop m1(from A); retry A; deliver m2(from A); deliver-copy m3(from B); deliver m3(from B)")
	res.Assume("the passage of the 30 s / 5 s hello timers is simulated by the hook VerifExpireHello; a retry is only taken by a side that is not set up (the real trigger is a local packet to a peer without keys)")
	res.Assume("exact duplicates of signed frames are filtered by the per-peer timestamp filter before any handler runs; duplicates are still delivered to exercise that")
	res.Require(res.Counter("schedules_both_initiate") >= 200, "fewer than 200 schedules with both routers initiating")
	res.Require(res.Counter("window_request_handled_inside_send")+res.Counter("window_request_handled_after_send") >= 300, "fewer than 300 schedules in which a request was handled while the own one was being sent")
	res.Require(res.Counter("tun_races") >= 100, "fewer than 100 runs of the real trigger racing a frame worker")
	res.Require(res.Counter("dfs_spaces_exhausted") >= 8, "fewer than 8 schedule spaces (no retries) exhausted")
}
