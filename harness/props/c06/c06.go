// Package c06: traffic policy — default-deny inbound firewall, no spoofing,
// outbound isolation.
package c06

import (
	"bytes"
	"fmt"
	"math/rand/v2"
	"net/netip"
	"slices"
	"strings"
	"time"

	"github.com/mycoria/mycoria/config"
	"github.com/mycoria/mycoria/frame"
	"github.com/mycoria/mycoria/m"

	"verifharness/core"
	"verifharness/env"
	"verifharness/vmesh"
)

func init() {
	core.Register(&core.Prop{
		ID:    "C06",
		Level: "exploration",
		Rule: "seeded configurations (0..6 services over all schemes incl. unsupported ones, explicit/default/missing ports, public/friends/for with friend names and raw addresses, 0..4 friends, isolate on/off; parser-rejected ones skipped); " +
			"(i) CheckInboundTrafficPolicy over protocol 0..255 x interesting ports x senders vs a reference written from the statement; (ii) full inbound path: real senders with end-to-end sessions seal traffic frames whose inner addresses equal/differ from the frame's, delivered to a victim with a fake tun; " +
			"(iii) outbound path: local packets (own/foreign source, Mycoria/non-Mycoria/multicast/friend/non-friend destinations, IPv4, short) through the real tun handler; non-trivial = verdict depends on exactly one rule clause; distinct by (scheme, access kind, clause)",
		Run:              run,
		CrashIsViolation: true,
	})
}

type refService struct {
	protos []uint8
	port   uint16
	public bool
	admit  map[netip.Addr]bool
	scheme string
	access string
}

type refPolicy struct {
	services []refService
	// extraPorts: ports an ill-formed service could be mistaken for (e.g. an out-of-range port modulo 65536)
	extraPorts []uint16
	isolate    bool
	friends    map[netip.Addr]bool
}

func (rp *refPolicy) inbound(proto uint8, port uint16, sender netip.Addr) (bool, *refService) {
	for i := range rp.services {
		s := &rp.services[i]
		if s.port != port {
			continue
		}
		for _, p := range s.protos {
			if p == proto && (s.public || s.admit[sender]) {
				return true, s
			}
		}
	}
	return false, nil
}

func (rp *refPolicy) outbound(own, src, dst netip.Addr) bool {
	if src != own {
		return false
	}
	b := dst.As16()
	if b[0] != 0xfd {
		return false
	}
	if rp.isolate && !rp.friends[dst] {
		return false
	}
	return true
}

type genService struct {
	cfg config.ServiceConfig
	ref *refService // nil when the reference expects the parser to reject the whole config
}

// genConfig makes a store + reference. refOK=false when the statement gives no meaning (parser must reject or we skip).
func genConfig(r *rand.Rand, senders []netip.Addr, names []string) (config.Store, *refPolicy, bool) {
	st := config.Store{}
	rp := &refPolicy{friends: map[netip.Addr]bool{}}
	st.Router.Isolate = r.IntN(3) == 0
	rp.isolate = st.Router.Isolate
	friendIPs := map[string]netip.Addr{}
	nf := r.IntN(len(senders))
	for i := 0; i < nf; i++ {
		if r.IntN(2) == 0 {
			continue
		}
		st.FriendConfigs = append(st.FriendConfigs, config.FriendConfig{Name: names[i], IP: senders[i].String()})
		friendIPs[names[i]] = senders[i]
		rp.friends[senders[i]] = true
	}
	supported := true
	ns := r.IntN(7)
	for i := 0; i < ns; i++ {
		var url, scheme string
		var protos []uint8
		var port uint16
		explicit := uint16(1 + r.IntN(65535))
		if r.IntN(3) == 0 {
			explicit = []uint16{80, 443, 22, 53, 8080}[r.IntN(5)]
		}
		kind := r.IntN(7)
		if r.IntN(12) == 0 {
			kind = 7 + r.IntN(3)
		}
		switch kind {
		case 0:
			scheme, url, protos, port = "tcp", fmt.Sprintf("tcp://:%d", explicit), []uint8{6}, explicit
		case 1:
			scheme, url, protos, port = "udp", fmt.Sprintf("udp://:%d", explicit), []uint8{17}, explicit
		case 2:
			scheme, url, protos, port = "http", "http://web.myco", []uint8{6, 17}, 80
		case 3:
			scheme, url, protos, port = "http", fmt.Sprintf("http://web.myco:%d", explicit), []uint8{6, 17}, explicit
		case 4:
			scheme, url, protos, port = "https", "https://web.myco", []uint8{6, 17}, 443
		case 5:
			scheme, url, protos, port = "https", fmt.Sprintf("https://web.myco:%d/path", explicit), []uint8{6, 17}, explicit
		case 6:
			scheme, url, protos, port = []string{"icmp6", "ping6"}[r.IntN(2)], "", []uint8{58}, 0
			url = scheme + "://"
		case 7:
			scheme, url = "tcp-noport", "tcp://host.myco" // port required: parser must reject
			supported = false
		case 8:
			scheme, url = "unsupported", []string{"sctp://:5", "ftp://x.myco:21", "quic://:443", "://"}[r.IntN(4)]
			supported = false
		default:
			// port outside 1..65535: defines no service (and in particular none for the port modulo 65536)
			raw := 65536*(1+r.IntN(3)) + int([]uint16{22, 53, 80, 443, explicit}[r.IntN(5)])
			scheme = "port-out-of-range"
			url = fmt.Sprintf([]string{"tcp://:%d", "udp://:%d", "http://web.myco:%d", "https://web.myco:%d/x", "tcp://host.myco:%d"}[r.IntN(5)], raw)
			rp.extraPorts = append(rp.extraPorts, uint16(raw%65536))
			supported = false
		}
		sc := config.ServiceConfig{Name: fmt.Sprintf("svc%d", i), URL: url}
		rs := refService{protos: protos, port: port, scheme: scheme, admit: map[netip.Addr]bool{}}
		switch r.IntN(4) {
		case 0:
			sc.Public = true
			rs.public = true
			rs.access = "public"
		case 1:
			sc.Friends = true
			for ip := range rp.friends {
				rs.admit[ip] = true
			}
			rs.access = "friends"
		case 2:
			// listed: friend names and raw addresses
			rs.access = "for"
			k := 1 + r.IntN(2)
			for j := 0; j < k; j++ {
				idx := r.IntN(len(senders))
				if nm := names[idx]; friendIPs[nm].IsValid() && r.IntN(2) == 0 {
					sc.For = append(sc.For, nm)
				} else {
					sc.For = append(sc.For, senders[idx].String())
				}
				rs.admit[senders[idx]] = true
			}
		default:
			sc.Friends = true
			sc.For = []string{senders[0].String()}
			for ip := range rp.friends {
				rs.admit[ip] = true
			}
			rs.admit[senders[0]] = true
			rs.access = "friends+for"
		}
		st.ServiceConfigs = append(st.ServiceConfigs, sc)
		rp.services = append(rp.services, rs)
	}
	// duplicate protocol/port among services: the parser refuses (no meaning given by the statement)
	seen := map[string]bool{}
	for _, s := range rp.services {
		for _, p := range s.protos {
			k := fmt.Sprintf("%d-%d", p, s.port)
			if seen[k] {
				supported = false
			}
			seen[k] = true
		}
	}
	return st, rp, supported
}

func ipv6Packet(src, dst netip.Addr, proto uint8, sport, dport uint16, extra []byte) []byte {
	p := make([]byte, 40+4+len(extra))
	p[0] = 6 << 4
	p[4], p[5] = byte((4+len(extra))>>8), byte(4+len(extra))
	p[6] = proto
	p[7] = 64
	a := src.As16()
	copy(p[8:24], a[:])
	a = dst.As16()
	copy(p[24:40], a[:])
	p[40], p[41] = byte(sport>>8), byte(sport)
	p[42], p[43] = byte(dport>>8), byte(dport)
	copy(p[44:], extra)
	return p
}

type idPool struct {
	ids []*m.Address
	r   *rand.Rand
}

func (p *idPool) get(n int) []*m.Address {
	for len(p.ids) < n {
		p.ids = append(p.ids, env.NewIdentity(p.r, nil))
	}
	return append([]*m.Address(nil), p.ids[:n]...)
}

func interestingPorts(rp *refPolicy, r *rand.Rand) []uint16 {
	set := map[uint16]bool{0: true, 1: true, 79: true, 80: true, 81: true, 442: true, 443: true, 444: true, 65535: true}
	for _, s := range rp.services {
		set[s.port] = true
		set[s.port+1] = true
		set[s.port-1] = true
	}
	for _, p := range rp.extraPorts {
		set[p] = true
	}
	set[uint16(r.IntN(65536))] = true
	out := make([]uint16, 0, len(set))
	for p := range set {
		out = append(out, p)
	}
	slices.Sort(out) // (map order must not decide which cases a seed produces)
	return out
}

func clauseKey(rp *refPolicy, proto uint8, port uint16, sender netip.Addr) (string, bool) {
	// non-trivial: flipping exactly one of proto/port/sender flips the reference
	base, svc := rp.inbound(proto, port, sender)
	if base {
		return svc.scheme + "/" + svc.access + "/allowed", true
	}
	for i := range rp.services {
		s := &rp.services[i]
		for _, p := range s.protos {
			if s.port == port && p == proto {
				return s.scheme + "/" + s.access + "/sender-not-admitted", true
			}
			if s.port == port && (s.public || s.admit[sender]) {
				return s.scheme + "/" + s.access + "/wrong-protocol", true
			}
			if p == proto && (s.public || s.admit[sender]) && (s.port == port+1 || s.port == port-1) {
				return s.scheme + "/" + s.access + "/neighbour-port", true
			}
		}
	}
	return "no-service", false
}

func runConfig(res *core.Result, pool *idPool, r *rand.Rand, full bool) {
	ids := pool.get(5) // 0 = victim, 1..3 senders, 4 = extra destination
	senders := []netip.Addr{ids[1].IP, ids[2].IP, ids[3].IP}
	names := []string{"alice", "bob", "carol"}
	st, rp, supported := genConfig(r, senders, names)
	cfgDesc := describe(st)
	var cfg *config.Config
	var perr error
	st.Router.Listen = []string{"tcp://127.0.0.1:47369"}
	if pv := vmesh.Safely(func() { cfg, perr = st.Parse() }); pv != nil {
		res.Violate("config-parser-panic", fmt.Sprintf("parsing a configuration panicked: %v [%s]", pv, cfgDesc), map[string]any{"config": cfgDesc})
		return
	}
	if !supported {
		if perr == nil {
			// The statement gives no meaning to unsupported schemes / missing or out-of-range ports / duplicate
			// protocol-ports: whatever the parser makes of them, a packet may pass only if a well-formed service is
			// defined for exactly its protocol and port and admits the sender.
			res.Count("configs_with_unsupported_parts_accepted", 1)
			for _, port := range interestingPorts(rp, r) {
				for _, proto := range []uint8{6, 17, 58, 0, 1, 132} {
					for _, sender := range []netip.Addr{senders[0], senders[1], senders[2], ids[4].IP} {
						want, _ := rp.inbound(proto, port, sender)
						if got := cfg.CheckInboundTrafficPolicy(proto, port, sender); got && !want {
							res.Violate("ill-formed-service-opened-port", fmt.Sprintf("CheckInboundTrafficPolicy(proto %d, port %d, sender %s) admits although no well-formed service is defined for that protocol and port [%s]", proto, port, sender, cfgDesc),
								map[string]any{"config": cfgDesc, "proto": proto, "port": port, "case_id": cfgDesc})
							return
						}
					}
				}
			}
			res.Case("ill-formed|"+cfgDesc, len(rp.extraPorts) > 0)
		} else {
			res.Count("configs_rejected_by_parser", 1)
		}
		return
	}
	if perr != nil {
		res.Violate("valid-config-rejected", fmt.Sprintf("a configuration the statement gives meaning to was rejected: %v [%s]", perr, cfgDesc), map[string]any{"config": cfgDesc})
		return
	}
	wit := func(extra map[string]any) map[string]any {
		mm := map[string]any{"config": cfgDesc, "case_id": cfgDesc}
		for k, v := range extra {
			mm[k] = v
		}
		return mm
	}
	// (i) policy function vs reference.
	stranger := ids[4].IP
	for _, port := range interestingPorts(rp, r) {
		for proto := 0; proto < 256; proto++ {
			for _, sender := range []netip.Addr{senders[0], senders[1], senders[2], stranger} {
				got := cfg.CheckInboundTrafficPolicy(uint8(proto), port, sender)
				want, _ := rp.inbound(uint8(proto), port, sender)
				if got != want {
					key, _ := clauseKey(rp, uint8(proto), port, sender)
					res.Violate(fmt.Sprintf("inbound-policy-wrong:%s:got-%v", strings.SplitN(key, "/", 2)[0], got),
						fmt.Sprintf("CheckInboundTrafficPolicy(proto %d, port %d, sender %s) = %v, reference %v (%s) [%s]", proto, port, sender, got, want, key, cfgDesc),
						wit(map[string]any{"proto": proto, "port": port, "sender": sender.String()}))
					return
				}
				key, nt := clauseKey(rp, uint8(proto), port, sender)
				if nt {
					res.Case("policy:"+key, true)
				} else {
					res.Case("policy:none", false)
				}
			}
		}
	}
	res.Count("configs_policy_checked", 1)
	if !full {
		return
	}

	// (ii)+(iii): star mesh, victim in the centre with a fake tun. The inbound and the
	// outbound experiments use separate victims, so that neither sees connection state
	// left by the other (the router admits packets of a connection it allowed before).
	buildMesh := func() (*vmesh.Mesh, bool) {
		ms := vmesh.New()
		for i := 0; i < 5; i++ {
			opts := vmesh.NodeOpts{}
			if i == 0 {
				opts = vmesh.NodeOpts{Config: cfg, FakeTun: true}
			}
			if _, err := ms.AddNode(ids[i], opts); err != nil {
				res.Inconcl("node: %v", err)
				return nil, false
			}
		}
		for i := 1; i < 5; i++ {
			if err := ms.Connect(0, i, m.SwitchLabel(i), 1); err != nil {
				res.Inconcl("connect: %v", err)
				return nil, false
			}
		}
		for a := 0; a < 5; a++ {
			for b := 0; b < 5; b++ {
				if a != b {
					_ = ms.Introduce(a, b)
				}
			}
		}
		// End-to-end sessions for senders 1..3 through the real hello exchange (4 has none).
		for i := 1; i <= 3; i++ {
			if _, err := ms.Nodes[i].Inst.RouterV.HelloPing.Send(ms.Nodes[0].ID.IP); err != nil {
				res.Inconcl("hello: %v", err)
				return nil, false
			}
			ms.Drain(vmesh.FIFO, 50)
			s := ms.Nodes[i].Inst.StateV.GetSession(ms.Nodes[0].ID.IP)
			if s == nil || !s.Encryption().IsSetUp() {
				res.Inconcl("hello with sender %d did not complete", i)
				return nil, false
			}
		}
		return ms, true
	}
	ms, ok := buildMesh()
	if !ok {
		return
	}
	V := ms.Nodes[0]
	drainTun := func() [][]byte {
		var out [][]byte
		for {
			select {
			case f := <-V.Tun.SendFrame:
				out = append(out, append([]byte(nil), f.MessageData()...))
				f.ReturnToPool()
			default:
				return out
			}
		}
	}
	ports := interestingPorts(rp, r)
	protos := []uint8{6, 17, 58, 1, 0, 132}
	nIn := 0
	pinged := map[int]bool{}
	for i := 1; i <= 3; i++ {
		S := ms.Nodes[i]
		sess := S.Inst.StateV.GetSession(V.ID.IP)
		for k := 0; k < 14; k++ {
			if sess == nil || !sess.Encryption().IsSetUp() {
				// keys were legitimately discarded by an earlier "no encryption keys" error ping: set up again
				_, _ = S.Inst.RouterV.HelloPing.Send(V.ID.IP)
				ms.Drain(vmesh.FIFO, 100)
				sess = S.Inst.StateV.GetSession(V.ID.IP)
				if sess == nil || !sess.Encryption().IsSetUp() {
					res.Inconcl("sender %d cannot set up keys again", i)
					return
				}
			}
			proto := protos[r.IntN(len(protos))]
			dport := ports[r.IntN(len(ports))]
			if len(rp.services) > 0 && r.IntN(2) == 0 {
				sv := rp.services[r.IntN(len(rp.services))]
				proto, dport = sv.protos[r.IntN(len(sv.protos))], sv.port
			}
			sport := uint16(20000 + nIn)
			innerSrc, innerDst := S.ID.IP, V.ID.IP
			variant := "honest"
			switch r.IntN(6) {
			case 0:
				innerSrc = senders[(i)%3] // another router's address (maybe an admitted one)
				variant = "spoofed-inner-source"
			case 1:
				innerDst = ids[4].IP
				variant = "foreign-inner-destination"
			case 2:
				variant = "corrupted-mac"
			}
			pkt := ipv6Packet(innerSrc, innerDst, proto, sport, dport, core.RandBytes(r, 8+r.IntN(40)))
			f, err := S.Inst.BuilderV.NewFrameV1(S.ID.IP, V.ID.IP, frame.NetworkTraffic, nil, pkt, nil)
			if err == nil {
				err = f.Seal(sess)
			}
			if err != nil {
				res.Inconcl("seal traffic: %v", err)
				return
			}
			fd, _ := f.FrameDataWithMargins(0, 0)
			data := append([]byte(nil), fd...)
			f.ReturnToPool()
			if variant == "corrupted-mac" {
				data[len(data)-1] ^= 0x40
			}
			p := ms.Inject(i, 0, data)
			ms.Take(ms.Pending() - 1)
			ms.Deliver(p)
			if len(ms.Panics) > 0 {
				res.Violate("handler-panic", fmt.Sprintf("inbound traffic (%s): %v [%s]", variant, ms.Panics[0], cfgDesc), wit(map[string]any{"variant": variant}))
				return
			}
			got := drainTun()
			effPort := dport
			if proto != 6 && proto != 17 {
				effPort = 0 // only TCP and UDP have ports
			}
			allowed, _ := rp.inbound(proto, effPort, S.ID.IP)
			want := variant == "honest" && allowed
			desc := fmt.Sprintf("traffic frame from sender %d (%s), proto %d, port %d, variant %s", i, names[i-1], proto, dport, variant)
			switch {
			case want && len(got) == 0 && proto != 6 && proto != 17:
				// port-less protocols share one cached verdict per sender, which an authentic "unreachable" error
				// ping about that sender legitimately turns into "unreachable": observation only
				res.Count("allowed_portless_packets_not_delivered", 1)
			case want && len(got) == 0:
				res.Violate("allowed-packet-not-delivered", desc+": the reference admits it but nothing reached the local interface ["+cfgDesc+"]", wit(map[string]any{"variant": variant, "proto": proto, "port": dport}))
				return
			case !want && len(got) > 0:
				res.Violate("forbidden-packet-delivered:"+variant, desc+": handed to the local interface although the reference forbids it ["+cfgDesc+"]", wit(map[string]any{"variant": variant, "proto": proto, "port": dport}))
				return
			case want && (len(got) != 1 || !bytes.Equal(got[0], pkt)):
				res.Violate("delivered-packet-differs", desc+": what reached the local interface is not the packet that was sent", wit(map[string]any{"variant": variant}))
				return
			}
			key, nt := clauseKey(rp, proto, effPort, S.ID.IP)
			res.Case("inbound:"+variant+":"+key, nt || variant != "honest")
			nIn++
			// let error pings etc. drain
			ms.Drain(vmesh.FIFO, 20)
			// A refused flow stays refused whatever authentic control messages the sender (or a third router)
			// sends in between: once per sender, the error ping kinds that do not concern keys and a pong request are
			// delivered, then the same 5-tuple is sent again.
			if variant == "honest" && !allowed && !pinged[i] {
				pinged[i] = true
				T := ms.Nodes[1+i%3] // a third router
				for _, snd := range []*vmesh.Node{S, T} {
					ep := snd.Inst.RouterV.ErrorPing
					_ = ep.SendUnreachable(V.ID.IP, S.ID.IP)
					_ = ep.SendGeneric(V.ID.IP, "x")
					_ = ep.SendAccessDenied(V.ID.IP, S.ID.IP, proto, dport)
					_ = ep.SendRejected(V.ID.IP, S.ID.IP, proto, dport)
					_, _, _ = snd.Inst.RouterV.PingPong.Send(V.ID.IP, false, 0)
					ms.Drain(vmesh.FIFO, 100)
					// ... and the victim pings that router and gets its answer (it is reachable - nothing more)
					_, _, _ = V.Inst.RouterV.PingPong.Send(snd.ID.IP, false, 0)
					ms.Drain(vmesh.FIFO, 100)
					// ... and a fresh key setup with the victim (a completed hello says the router is reachable, not
					// that it may now use a port it was refused)
					V.Inst.RouterV.HelloPing.VerifExpireHello(snd.ID.IP)
					_, _ = env.Rekey(snd.Inst, V.ID.IP)
					ms.Drain(vmesh.FIFO, 100)
				}
				drainTun()
				if len(ms.Panics) > 0 {
					res.Violate("handler-panic", fmt.Sprintf("control pings after refused traffic: %v [%s]", ms.Panics[0], cfgDesc), wit(map[string]any{"variant": "after-control-pings"}))
					return
				}
				// time passes (the flow is quiet for a while; the cleaners run): a refusal does not expire into an admission
				quiet := []time.Duration{0, 11 * time.Second, 61 * time.Second, 11 * time.Minute}[r.IntN(4)]
				if quiet > 0 {
					V.Inst.RouterV.VerifAdvanceTime(quiet)
					if r.IntN(2) == 0 {
						_ = V.Inst.RouterV.VerifHousekeeping()
					}
					res.Count("refused_flows_retried_after_quiet_time", 1)
				}
				// a "no encryption keys" error legitimately discards keys: set them up again if so
				sess = S.Inst.StateV.GetSession(V.ID.IP)
				if sess == nil || !sess.Encryption().IsSetUp() {
					_, _ = S.Inst.RouterV.HelloPing.Send(V.ID.IP)
					ms.Drain(vmesh.FIFO, 100)
					sess = S.Inst.StateV.GetSession(V.ID.IP)
				}
				if sess == nil || !sess.Encryption().IsSetUp() {
					res.Count("retry_skipped_no_keys", 1)
					continue
				}
				f2, err := S.Inst.BuilderV.NewFrameV1(S.ID.IP, V.ID.IP, frame.NetworkTraffic, nil, pkt, nil)
				if err == nil {
					err = f2.Seal(sess)
				}
				if err != nil {
					res.Inconcl("seal traffic: %v", err)
					return
				}
				fd2, _ := f2.FrameDataWithMargins(0, 0)
				data2 := append([]byte(nil), fd2...)
				f2.ReturnToPool()
				p2 := ms.Inject(i, 0, data2)
				ms.Take(ms.Pending() - 1)
				ms.Deliver(p2)
				if got2 := drainTun(); len(got2) > 0 {
					res.Violate("forbidden-packet-delivered:after-control-pings", desc+": refused at first, but handed to the local interface when sent again after authentic error pings (unreachable, generic, access-denied, rejected) and a pong request from the sender and a third router, and "+quiet.String()+" of quiet ["+cfgDesc+"]",
						wit(map[string]any{"variant": "after-control-pings", "proto": proto, "port": dport}))
					return
				}
				res.Count("refused_flows_retried_after_control_pings", 1)
				ms.Drain(vmesh.FIFO, 20)
			}
		}
	}
	// A sender the victim knows but has no encryption keys with (node 4) fabricates traffic frames:
	// plaintext inner packets that a policy rule would admit for the address it claims.
	for k := 0; k < 6; k++ {
		S := ms.Nodes[4]
		proto, dport := uint8(6), uint16(80)
		if len(rp.services) > 0 {
			sv := rp.services[r.IntN(len(rp.services))]
			proto, dport = sv.protos[r.IntN(len(sv.protos))], sv.port
		}
		claimed := S.ID.IP
		via := 4
		if k%2 == 1 {
			// claim to be one of the routers with keys, still without a valid seal
			claimed, via = ms.Nodes[1+k%3].ID.IP, 1+k%3
		}
		pkt := ipv6Packet(claimed, V.ID.IP, proto, uint16(25000+k), dport, core.RandBytes(r, 24))
		f, err := S.Inst.BuilderV.NewFrameV1(claimed, V.ID.IP, frame.NetworkTraffic, nil, pkt, nil)
		if err != nil {
			break
		}
		f.SetSequenceNum(uint32(1000 + k))
		fd, _ := f.FrameDataWithMargins(0, 0)
		data := append([]byte(nil), fd...)
		f.ReturnToPool()
		if k%3 == 2 {
			copy(data[len(data)-16:], core.RandBytes(r, 16))
		}
		p := ms.Inject(via, 0, data)
		ms.Take(ms.Pending() - 1)
		ms.Deliver(p)
		if len(ms.Panics) > 0 {
			res.Violate("handler-panic", fmt.Sprintf("fabricated traffic frame: %v [%s]", ms.Panics[0], cfgDesc), wit(map[string]any{"variant": "unsealed"}))
			return
		}
		if got := drainTun(); len(got) > 0 {
			res.Violate("forbidden-packet-delivered:never-sealed", fmt.Sprintf("a traffic frame that was never sealed (claimed sender %s, proto %d, port %d) was handed to the local interface [%s]", claimed, proto, dport, cfgDesc), wit(map[string]any{"variant": "unsealed", "proto": proto, "port": dport}))
			return
		}
		res.Case(fmt.Sprintf("inbound:never-sealed:%d", k%3), true)
		nIn++
		ms.Drain(vmesh.FIFO, 20)
	}
	res.Count("inbound_frames", int64(nIn))

	// (iii) outbound, on a fresh victim.
	ms, ok = buildMesh()
	if !ok {
		return
	}
	V = ms.Nodes[0]
	sent := 0
	var fromV []*vmesh.Packet
	ms.OnSend = func(p *vmesh.Packet) {
		if p.From == 0 {
			fromV = append(fromV, p)
		}
	}
	mkLocal := func(pkt []byte) []byte {
		ps := V.Inst.BuilderV.GetPooledSlice(len(pkt))
		copy(ps, pkt)
		return ps[:len(pkt)]
	}
	type lp struct {
		name     string
		src, dst netip.Addr
		raw      []byte
		routable bool // a route exists and the frame could leave
	}
	foreign := netip.MustParseAddr("2001:db8::1")
	mcast := netip.MustParseAddr("ff02::1")
	var locals []lp
	for _, d := range []int{1, 2, 3, 4} {
		locals = append(locals, lp{name: fmt.Sprintf("own->node%d", d), src: V.ID.IP, dst: ms.Nodes[d].ID.IP, routable: true})
		locals = append(locals, lp{name: fmt.Sprintf("foreign-source->node%d", d), src: senders[0], dst: ms.Nodes[d].ID.IP})
	}
	locals = append(locals,
		lp{name: "own->non-mycoria", src: V.ID.IP, dst: foreign},
		lp{name: "own->multicast", src: V.ID.IP, dst: mcast},
		lp{name: "ipv4", raw: append([]byte{0x45, 0, 0, 60}, core.RandBytes(r, 56)...)},
		lp{name: "short", raw: []byte{0x60, 0, 0, 0, 0, 4, 6, 64}},
		lp{name: "empty", raw: []byte{}},
		lp{name: "version-7", raw: append([]byte{0x70}, core.RandBytes(r, 60)...)},
	)
	for _, l := range locals {
		fromV = fromV[:0]
		var pkt []byte
		var oproto uint8
		if l.raw != nil {
			pkt = l.raw
		} else {
			oproto = []uint8{6, 17, 58}[r.IntN(3)]
			pkt = ipv6Packet(l.src, l.dst, oproto, uint16(30000+sent), uint16(1+r.IntN(1000)), core.RandBytes(r, 16))
		}
		if perr := V.Inst.RouterV.VerifHandleTunPacket(mkLocal(pkt)); perr != nil {
			res.Violate("handler-panic", fmt.Sprintf("local packet %s: %v [%s]", l.name, perr, cfgDesc), wit(map[string]any{"packet": l.name}))
			return
		}
		sent++
		allowed := l.raw == nil && rp.outbound(V.ID.IP, l.src, l.dst)
		left := len(fromV) > 0
		desc := fmt.Sprintf("local packet %s (isolate=%v, destination is friend=%v)", l.name, rp.isolate, rp.friends[l.dst])
		if left && !allowed {
			res.Violate("forbidden-local-packet-entered-mesh:"+strings.SplitN(l.name, "->", 2)[0], desc+": a frame left the router towards the mesh ["+cfgDesc+"]", wit(map[string]any{"packet": l.name}))
			return
		}
		// Positive control (the statement only says "only if"): a TCP/UDP packet on a fresh
		// 5-tuple has no earlier connection state that could legitimately hold it back.
		if !left && allowed && l.routable && (oproto == 6 || oproto == 17) {
			var states []string
			for _, cs := range V.Inst.RouterV.VerifConnStates() {
				if cs.RemoteIP == l.dst {
					states = append(states, fmt.Sprintf("in=%v proto=%d lport=%d rport=%d status=%d", cs.Inbound, cs.Protocol, cs.LocalPort, cs.RemotePort, cs.Status))
				}
			}
			sess := V.Inst.StateV.GetSession(l.dst)
			res.Violate("allowed-local-packet-dropped", desc+fmt.Sprintf(": nothing (neither traffic nor key setup) left the router; session set up=%v mtu=%d; conn states %v [", sess != nil && sess.Encryption().IsSetUp(), sess.TunMTU(), states)+cfgDesc+"]", wit(map[string]any{"packet": l.name}))
			return
		}
		if left {
			// with an established session the payload must leave as sealed traffic (not in clear), else as a hello
			for _, p := range fromV {
				if bytes.Contains(p.Data, pkt[40:]) && len(pkt) > 56 {
					res.Violate("local-packet-left-in-clear", desc+": the packet payload appears in clear on the link", wit(map[string]any{"packet": l.name}))
					return
				}
			}
		}
		if left && allowed {
			res.Count("allowed_local_packets_left", 1)
		}
		nontrivial := l.raw == nil && (l.src != V.ID.IP || rp.isolate)
		res.Case(fmt.Sprintf("outbound:%s:isolate=%v:friend=%v", strings.SplitN(l.name, "node", 2)[0], rp.isolate, rp.friends[l.dst]), nontrivial)
		ms.Drain(vmesh.FIFO, 50)
		drainTun()
		// A prohibited destination stays prohibited whatever authentic control messages arrive about it: error
		// pings from that router and from a third one, then other connections to the same destination (other
		// ports, other protocol) at once.
		if l.raw == nil && !allowed && l.src == V.ID.IP && l.routable {
			var D, T *vmesh.Node
			for _, n := range ms.Nodes[1:] {
				if n.ID.IP == l.dst {
					D = n
				} else if T == nil {
					T = n
				}
			}
			if D != nil && T != nil {
				for _, snd := range []*vmesh.Node{T, D} {
					ep := snd.Inst.RouterV.ErrorPing
					_ = ep.SendUnreachable(V.ID.IP, D.ID.IP)
					_ = ep.SendGeneric(V.ID.IP, "x")
					_ = ep.SendAccessDenied(V.ID.IP, D.ID.IP, oproto, 80)
					_ = ep.SendRejected(V.ID.IP, D.ID.IP, oproto, 80)
					ms.Drain(vmesh.FIFO, 100)
					_, _, _ = V.Inst.RouterV.PingPong.Send(snd.ID.IP, false, 0)
					ms.Drain(vmesh.FIFO, 100)
					V.Inst.RouterV.HelloPing.VerifExpireHello(snd.ID.IP)
					_, _ = env.Rekey(snd.Inst, V.ID.IP)
					ms.Drain(vmesh.FIFO, 100)
				}
				drainTun()
				quiet := []time.Duration{0, 11 * time.Second, 61 * time.Second, 11 * time.Minute}[r.IntN(4)]
				if quiet > 0 {
					V.Inst.RouterV.VerifAdvanceTime(quiet)
					if r.IntN(2) == 0 {
						_ = V.Inst.RouterV.VerifHousekeeping()
					}
				}
				for k := 0; k < 4; k++ {
					fromV = fromV[:0]
					pkt2 := ipv6Packet(V.ID.IP, D.ID.IP, []uint8{oproto, 6, 17, 0}[k], uint16(31000+sent+k), uint16(2000+k), core.RandBytes(r, 16))
					if k == 3 {
						pkt2 = pkt // the very same connection again
					}
					if perr := V.Inst.RouterV.VerifHandleTunPacket(mkLocal(pkt2)); perr != nil {
						res.Violate("handler-panic", fmt.Sprintf("local packet after control pings: %v [%s]", perr, cfgDesc), wit(map[string]any{"packet": l.name}))
						return
					}
					if len(fromV) > 0 {
						res.Violate("forbidden-local-packet-entered-mesh:after-control-pings", desc+": prohibited at first, but after authentic error pings about that destination (unreachable, generic, access-denied, rejected; from it and from a third router) another connection to it left the router towards the mesh ["+cfgDesc+"]",
							wit(map[string]any{"packet": l.name, "variant": "after-control-pings"}))
						return
					}
					ms.Drain(vmesh.FIFO, 50)
					drainTun()
				}
				res.Count("prohibited_destinations_retried_after_control_pings", 1)
			}
		}
	}
	res.Count("outbound_packets", int64(sent))
	res.Count("configs_full_paths", 1)
}

func describe(st config.Store) string {
	var b strings.Builder
	fmt.Fprintf(&b, "isolate=%v friends=[", st.Router.Isolate)
	for _, f := range st.FriendConfigs {
		b.WriteString(f.Name + " ")
	}
	b.WriteString("] services=[")
	for _, s := range st.ServiceConfigs {
		acc := "for" + fmt.Sprint(len(s.For))
		if s.Public {
			acc = "public"
		} else if s.Friends {
			acc = "friends+" + acc
		}
		fmt.Fprintf(&b, "%s(%s) ", s.URL, acc)
	}
	b.WriteString("]")
	return b.String()
}

func parallel(n int, fn func(w int)) { core.Parallel(n, fn) }

func run(c *core.Ctx) {
	res := c.Res
	const W = 16
	n := c.Q(160, 3000)
	parallel(W, func(w int) {
		r := core.RNG(fmt.Sprintf("c06/%d", w))
		pool := &idPool{r: core.RNG(fmt.Sprintf("c06/ids/%d", w))}
		for i := w; i < n; i += W {
			runConfig(res, pool, r, i%2 == 0 || c.Tier == core.Thorough)
		}
	})
	res.Sample(map[string]any{"config": "isolate=true friends=[alice] services=[udp://:53(friends) https://web.myco(public) icmp6://(for1)]",
		"inbound": "traffic frame from bob, proto 17, port 53, variant honest -> must be dropped", "outbound": "own->node3 (not a friend) -> nothing may leave"})
	res.Assume("the stateful clause (a reply to a previously allowed outbound 5-tuple is admitted) is kept out of the inbound experiments: they use 5-tuples without outbound history and run before the outbound ones")
	res.Assume("packets to the API address fd00::b909 need the gVisor netstack and a real tun device and are not exercised")
	res.Assume("configurations with unsupported schemes, missing ports or duplicate protocol/port are only required not to panic the parser")
	res.Require(res.Counter("configs_policy_checked") >= int64(n/4), "too few configurations accepted by the parser")
	res.Require(res.Counter("inbound_frames") >= 500, "fewer than 500 inbound frames")
}
