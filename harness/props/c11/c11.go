// Package c11: routing table — exact best-first lookups, bounded size,
// peers never evicted.
package c11

import (
	"fmt"
	"math/rand/v2"
	"net/netip"
	"os"
	"slices"
	"strings"
	"sync"
	"sync/atomic"
	"time"

	"github.com/anishathalye/porcupine"

	"github.com/mycoria/mycoria/m"

	"verifharness/core"
	"verifharness/env"
)

func init() {
	core.Register(&core.Prop{
		ID:    "C11",
		Level: "exploration",
		Rule: "operation sequences over AddRoute (peer/gossip with system-producible paths), RemoveNextHop, RemoveDisconnected (with/without list), ageing + Clean: " +
			"exhaustive over a 17-operation alphabet on a small universe (3 destinations in 2 routing prefixes, 3 relays) up to a bounded length for EntriesPerPrefix 1..3, " +
			"and seeded long sequences on ~1000 destinations under the real GetRoutablePrefixesFor configs; the statement's clauses are evaluated on VerifEntries() after every operation; " +
			"non-trivial = sequence contains an add, a removal/cleanup and affects a destination that is then looked up; distinct by (config, operation sequence)",
		Run:         run,
		HasRacePart: true,
		RaceAnchors: []string{`m\.\(\*RoutingTable\)`},
	})
}

func ip(s string) netip.Addr { return netip.MustParseAddr(s) }

var (
	self = ip("fd11:ff00::1")
	d1   = ip("fd12:1::1")
	d2   = ip("fd12:1::2")
	d3   = ip("fd13::1")
	p1   = ip("fd21::1")
	p2   = ip("fd22::1")
	p3   = ip("fd23::1")
)

func hop(r netip.Addr, delay uint16, fl, rl m.SwitchLabel) m.SwitchHop {
	return m.SwitchHop{Router: r, Delay: delay, ForwardLabel: fl, ReturnLabel: rl}
}

// path builds a system-producible path self -> relays... -> dst.
func path(delays []uint16, routers ...netip.Addr) m.SwitchPath {
	hops := make([]m.SwitchHop, 0, len(routers)+1)
	hops = append(hops, hop(self, delays[0], 7, 0))
	for i, r := range routers {
		fl := m.SwitchLabel(10 + i)
		if i == len(routers)-1 {
			fl = 0
		}
		d := uint16(0)
		if i+1 < len(delays) {
			d = delays[i+1]
		}
		hops = append(hops, hop(r, d, fl, m.SwitchLabel(20+i)))
	}
	return m.SwitchPath{Hops: hops}
}

type opKind int

const (
	opAdd opKind = iota
	opRemoveNextHop
	opRemoveDisconnected
	opAgeClean
	opClean
)

type op struct {
	kind   opKind
	name   string
	entry  m.RoutingTableEntry // opAdd
	router netip.Addr          // removals
	list   []netip.Addr
	age    time.Duration
}

func gossip(name string, dst netip.Addr, delays []uint16, routers ...netip.Addr) op {
	full := append(append([]netip.Addr{}, routers...), dst)
	return op{kind: opAdd, name: name, entry: m.RoutingTableEntry{
		DstIP: dst, NextHop: routers[0], Path: path(delays, full...), Source: m.RouteSourceGossip,
	}}
}

func smallAlphabet() []op {
	return []op{
		{kind: opAdd, name: "peerlink(P1)", entry: m.RoutingTableEntry{DstIP: p1, NextHop: p1, Source: m.RouteSourcePeer}},
		{kind: opAdd, name: "peerannounce(P1)", entry: m.RoutingTableEntry{DstIP: p1, NextHop: p1, Source: m.RouteSourcePeer, Path: path([]uint16{5}, p1)}},
		{kind: opAdd, name: "peerlink(P2)", entry: m.RoutingTableEntry{DstIP: p2, NextHop: p2, Source: m.RouteSourcePeer}},
		gossip("g(D1:P1)", d1, []uint16{5, 10}, p1),
		gossip("g(D1:P1,slow)", d1, []uint16{5, 200}, p1),
		gossip("g(D1:P2)", d1, []uint16{5, 50}, p2),
		gossip("g(D1:P1,P3)", d1, []uint16{5, 10, 10}, p1, p3),
		gossip("g(D1:P3)", d1, []uint16{5, 6}, p3),
		gossip("g(D1:P2,P3)", d1, []uint16{5, 10, 30}, p2, p3),
		gossip("g(D2:P1)", d2, []uint16{5, 10}, p1),
		gossip("g(D3:P2,P3)", d3, []uint16{5, 10, 10}, p2, p3),
		gossip("g(P1:P2)", p1, []uint16{5, 10}, p2),
		{kind: opRemoveNextHop, name: "rmnexthop(P1)", router: p1},
		{kind: opRemoveDisconnected, name: "disc(P1)", router: p1},
		{kind: opRemoveDisconnected, name: "disc(P3,[P1])", router: p3, list: []netip.Addr{p1}},
		{kind: opAgeClean, name: "age1h+clean", age: time.Hour},
		{kind: opClean, name: "clean"},
	}
}

func entryStr(e *m.RoutingTableEntry) string {
	var b strings.Builder
	fmt.Fprintf(&b, "%s|%s|%s|%d|%v|%d|%d|%d|", e.DstIP, e.RoutingPrefix, e.NextHop, e.Source, e.Stub, e.Path.TotalHops, e.Path.TotalDelay, e.Expires.UnixNano())
	for _, h := range e.Path.Hops {
		fmt.Fprintf(&b, "%s/%d/%d/%d,", h.Router, h.Delay, h.ForwardLabel, h.ReturnLabel)
	}
	return b.String()
}

func hopsEqual(a, b []m.SwitchHop) bool {
	if len(a) != len(b) {
		return false
	}
	for i := range a {
		if a[i] != b[i] {
			return false
		}
	}
	return true
}

type checker struct {
	res   *core.Result
	tbl   *m.RoutingTable
	cfg   m.RoutingTableConfig
	limit func(prefix netip.Prefix) int
	trace []string
	desc  string
	fail  bool
	// what the sequence did (for the non-trivial rule)
	didAdd, didRemove bool
}

func (c *checker) violate(sig, msg string) {
	if c.fail {
		return
	}
	c.fail = true
	tr := c.trace
	if len(tr) > 40 {
		tr = tr[len(tr)-40:]
	}
	c.res.Violate(sig, fmt.Sprintf("%s; config %s; after %s", msg, c.desc, strings.Join(tr[max(0, len(tr)-8):], ", ")),
		map[string]any{"config": c.desc, "ops": tr, "case_id": c.desc + ":" + strings.Join(tr, ",")})
}

func snapshot(t *m.RoutingTable) ([]m.RoutingTableEntry, []string) {
	es := t.VerifEntries()
	ss := make([]string, len(es))
	for i := range es {
		ss[i] = entryStr(&es[i])
	}
	return es, ss
}

// invariants evaluates the always-clauses of the statement on a snapshot.
func (c *checker) invariants(es []m.RoutingTableEntry, afterClean bool, cleanT0 time.Time, lookupAll bool) {
	byDst := map[netip.Addr][]*m.RoutingTableEntry{}
	for i := range es {
		byDst[es[i].DstIP] = append(byDst[es[i].DstIP], &es[i])
	}
	gossipPerPrefix := map[netip.Prefix]int{}
	peerDstPerPrefix := map[netip.Prefix]map[netip.Addr]bool{}
	for i := range es {
		e := &es[i]
		if e.Source == m.RouteSourceGossip {
			gossipPerPrefix[e.RoutingPrefix]++
		}
		if e.Source == m.RouteSourcePeer {
			if peerDstPerPrefix[e.RoutingPrefix] == nil {
				peerDstPerPrefix[e.RoutingPrefix] = map[netip.Addr]bool{}
			}
			peerDstPerPrefix[e.RoutingPrefix][e.DstIP] = true
		}
		if afterClean && e.Source != m.RouteSourcePeer && e.Expires.Before(cleanT0) {
			c.violate("expired-route-survives-clean", fmt.Sprintf("route to %s expired %s before the cleanup started and is still in the table", e.DstIP, cleanT0.Sub(e.Expires)))
			return
		}
	}
	for pfx, n := range gossipPerPrefix {
		lim := c.limit(pfx)
		bound := 3*(2*lim+1) + 3*len(peerDstPerPrefix[pfx])
		if n > bound {
			c.violate("prefix-gossip-bound-exceeded", fmt.Sprintf("%d gossip routes in routing prefix %s, bound 3*(2*%d+1)+3*%d", n, pfx, lim, len(peerDstPerPrefix[pfx])))
			return
		}
		if afterClean && n > lim {
			c.violate("prefix-over-limit-after-clean", fmt.Sprintf("%d gossip routes in routing prefix %s right after a cleanup, limit %d", n, pfx, lim))
			return
		}
	}
	for dst, list := range byDst {
		nonPeer := 0
		var peer *m.RoutingTableEntry
		for _, e := range list {
			if e.Source == m.RouteSourcePeer {
				peer = e
			} else {
				nonPeer++
			}
		}
		if nonPeer > 3 {
			c.violate("more-than-3-routes-per-destination", fmt.Sprintf("%d non-peer routes kept for %s", nonPeer, dst))
			return
		}
		if !lookupAll {
			continue
		}
		c.lookupCheck(dst, list, peer)
		if c.fail {
			return
		}
	}
}

func (c *checker) lookupCheck(dst netip.Addr, list []*m.RoutingTableEntry, peer *m.RoutingTableEntry) {
	for name, fn := range map[string]func(netip.Addr) (*m.RoutingTableEntry, bool){"LookupNearest": c.tbl.LookupNearest, "LookupNearestRoute": c.tbl.LookupNearestRoute} {
		e, isDst := fn(dst)
		if e == nil || !isDst || e.DstIP != dst {
			got := "nothing"
			if e != nil {
				got = fmt.Sprintf("route to %s (destination flag %v)", e.DstIP, isDst)
			}
			c.violate("lookup-not-exact", fmt.Sprintf("%s(%s) returned %s although the table holds %d route(s) to exactly that address", name, dst, got, len(list)))
			return
		}
		if peer != nil {
			if e.Source != m.RouteSourcePeer {
				c.violate("lookup-not-peer-first", fmt.Sprintf("%s(%s) returned a non-peer route although a direct-peer route exists", name, dst))
				return
			}
			continue
		}
		for _, o := range list {
			if o.Path.TotalHops < e.Path.TotalHops || (o.Path.TotalHops == e.Path.TotalHops && o.Path.TotalDelay < e.Path.TotalDelay) {
				c.violate("lookup-not-best", fmt.Sprintf("%s(%s) returned a route with %d hops/%d ms although one with %d hops/%d ms exists", name, dst,
					e.Path.TotalHops, e.Path.TotalDelay, o.Path.TotalHops, o.Path.TotalDelay))
				return
			}
			// the same with the delay summed by the reference from the hops (not the totals the table computed):
			// better under both readings of a hop's delay (as announced / at least the minimum hop delay),
			// sums saturating at 65534
			if len(o.Path.Hops) == len(e.Path.Hops) && len(e.Path.Hops) > 1 {
				oRaw, oAdj := refDelay(o.Path.Hops)
				eRaw, eAdj := refDelay(e.Path.Hops)
				if oRaw < eRaw && oAdj < eAdj {
					c.violate("lookup-not-best:delay-sum", fmt.Sprintf("%s(%s) returned a route whose hop delays sum to %d ms although one with the same %d hops and %d ms exists (table totals: %d vs %d)", name, dst,
						eRaw, len(e.Path.Hops)-1, oRaw, e.Path.TotalDelay, o.Path.TotalDelay))
					return
				}
			}
		}
	}
}

// refDelay sums the hop delays of a path: as announced, and with every hop counted at least m.MinHopDelay;
// both saturate at 65534.
func refDelay(hops []m.SwitchHop) (raw, adj uint) {
	for _, h := range hops {
		raw += uint(h.Delay)
		adj += max(uint(h.Delay), uint(m.MinHopDelay))
	}
	return min(raw, 65534), min(adj, 65534)
}

// apply runs one operation with its post-conditions.
func (c *checker) apply(o op, fullCheck bool) {
	c.trace = append(c.trace, o.name)
	_, before := snapshot(c.tbl)
	beforeEs := c.tbl.VerifEntries()
	peersBefore := map[netip.Addr]bool{}
	for i := range beforeEs {
		if beforeEs[i].Source == m.RouteSourcePeer {
			peersBefore[beforeEs[i].DstIP] = true
		}
	}
	afterClean := false
	var t0 time.Time
	switch o.kind {
	case opAdd:
		c.didAdd = true
		added, err := c.tbl.AddRoute(o.entry)
		es, after := snapshot(c.tbl)
		if added && err == nil {
			found := false
			for i := range es {
				e := &es[i]
				if e.DstIP == o.entry.DstIP && e.NextHop == o.entry.NextHop && e.Source == o.entry.Source && hopsEqual(e.Path.Hops, o.entry.Path.Hops) {
					found = true
					break
				}
			}
			if !found {
				c.violate("added-but-absent", fmt.Sprintf("AddRoute(%s) reported added but no entry with that destination, next hop, source and hop list is present", o.name))
				return
			}
			// Bystanders: adding a route changes nothing for other destinations; for its own destination it may
			// replace the route over the same routers (or, for a peer route, the previous peer route) and, when the
			// destination already held three routes, push out one non-peer route - nothing else disappears.
			inAfter := map[string]bool{}
			for _, l := range after {
				inAfter[l] = true
			}
			sameRouters := func(a, b []m.SwitchHop) bool {
				if len(a) != len(b) {
					return false
				}
				for i := range a {
					if a[i].Router != b[i].Router {
						return false
					}
				}
				return true
			}
			nDst, vanished := 0, 0
			for i := range beforeEs {
				e := &beforeEs[i]
				gone := !inAfter[before[i]]
				if e.DstIP != o.entry.DstIP {
					if gone {
						c.violate("add-changed-other-destination", fmt.Sprintf("AddRoute(%s) made the route to %s via %s disappear or change", o.name, e.DstIP, e.NextHop))
						return
					}
					continue
				}
				nDst++
				if !gone {
					continue
				}
				switch {
				case e.Source == m.RouteSourcePeer && o.entry.Source == m.RouteSourcePeer:
					// the previous direct-peer route is replaced
				case e.Source == m.RouteSourcePeer:
					c.violate("peer-route-lost-on-add", fmt.Sprintf("AddRoute(%s), not a peer route, made the direct-peer route to %s disappear", o.name, e.DstIP))
					return
				case o.entry.Source != m.RouteSourcePeer && sameRouters(e.Path.Hops, o.entry.Path.Hops):
					// the same route, refreshed
				default:
					vanished++
				}
			}
			if vanished > 0 && (o.entry.Source == m.RouteSourcePeer || nDst < 3 || vanished > 1) {
				c.violate("route-lost-on-add", fmt.Sprintf("AddRoute(%s) made %d other route(s) to the same destination disappear although the destination held %d route(s) (new route is a peer route: %v)", o.name, vanished, nDst, o.entry.Source == m.RouteSourcePeer))
				return
			}
		} else {
			if strings.Join(before, "\n") != strings.Join(after, "\n") {
				c.violate("not-added-but-changed", fmt.Sprintf("AddRoute(%s) reported not added (err %v) but the table changed", o.name, err))
				return
			}
		}
	case opRemoveNextHop:
		c.didRemove = true
		c.tbl.RemoveNextHop(o.router)
		es := c.tbl.VerifEntries()
		for i := range es {
			if es[i].NextHop == o.router {
				c.violate("removed-next-hop-remains", fmt.Sprintf("after RemoveNextHop(%s) a route to %s still uses it", o.router, es[i].DstIP))
				return
			}
		}
	case opRemoveDisconnected:
		c.didRemove = true
		c.tbl.RemoveDisconnected(o.router, o.list)
		es := c.tbl.VerifEntries()
		for i := range es {
			e := &es[i]
			if len(o.list) == 0 {
				bad := e.DstIP == o.router || e.NextHop == o.router
				for _, h := range e.Path.Hops {
					if h.Router == o.router {
						bad = true
					}
				}
				if bad {
					c.violate("disconnected-router-remains", fmt.Sprintf("after RemoveDisconnected(%s) a route to %s still contains it", o.router, e.DstIP))
					return
				}
				continue
			}
			for j, h := range e.Path.Hops {
				if h.Router != o.router {
					continue
				}
				for _, l := range o.list {
					if (j > 0 && e.Path.Hops[j-1].Router == l) || (j+1 < len(e.Path.Hops) && e.Path.Hops[j+1].Router == l) {
						c.violate("disconnected-link-remains", fmt.Sprintf("after RemoveDisconnected(%s,[%s]) a route to %s still crosses that link", o.router, l, e.DstIP))
						return
					}
				}
			}
		}
	case opAgeClean:
		c.didRemove = true
		c.tbl.VerifAgeEntries(o.age)
		t0 = time.Now()
		c.tbl.Clean()
		afterClean = true
	case opClean:
		t0 = time.Now()
		c.tbl.Clean()
		afterClean = true
	}
	es := c.tbl.VerifEntries()
	// (3) peers disappear only through a removal naming them.
	peersAfter := map[netip.Addr]bool{}
	for i := range es {
		if es[i].Source == m.RouteSourcePeer {
			peersAfter[es[i].DstIP] = true
		}
	}
	for p := range peersBefore {
		if peersAfter[p] {
			continue
		}
		named := false
		switch o.kind {
		case opRemoveNextHop:
			named = o.router == p
		case opRemoveDisconnected:
			named = o.router == p
			for _, l := range o.list {
				if l == p {
					named = true
				}
			}
		}
		if !named {
			c.violate("peer-route-evicted", fmt.Sprintf("the direct-peer route for %s disappeared in %s, which does not name that peer", p, o.name))
			return
		}
	}
	c.invariants(es, afterClean, t0, fullCheck)
}

func smallConfig(limit int) m.RoutingTableConfig {
	return m.RoutingTableConfig{
		RouterIP: self,
		RoutablePrefixes: []m.RoutablePrefix{{
			BasePrefix: m.BaseNetPrefix, RoutingBits: 16, EntryTTL: 3 * time.Hour, EntriesPerPrefix: limit,
		}},
	}
}

func parallel(n int, fn func(w int)) { core.Parallel(n, fn) }

func exhaustive(res *core.Result, limit, maxLen, shard, shards int) {
	alpha := smallAlphabet()
	cfg := smallConfig(limit)
	desc := fmt.Sprintf("small/limit=%d", limit)
	idx := make([]int, 0, maxLen)
	var rec func()
	count := 0
	rec = func() {
		if len(idx) == maxLen {
			count++
			if count%shards != shard {
				return
			}
			// Execute the full sequence from scratch, checking after every operation.
			c := &checker{res: res, tbl: m.NewRoutingTable(cfg), cfg: cfg, desc: desc, limit: func(netip.Prefix) int { return limit }}
			for _, i := range idx {
				c.apply(alpha[i], true)
				if c.fail {
					return
				}
			}
			res.Case(desc+":"+strings.Join(c.trace, ","), c.didAdd && c.didRemove)
			return
		}
		for i := range alpha {
			idx = append(idx, i)
			rec()
			idx = idx[:len(idx)-1]
		}
	}
	rec()
}

// sparseLookups: in the router lookups come one at a time, for the destination of the frame at hand, between
// table updates - not for every destination after every update as in the runs above. Random operations over a
// small universe (8 destinations, 4 relays; 1..3-hop gossip routes, peer links, removals, cleaning); after an
// operation at most one destination is looked up (often the one looked up last time), and judged like always.
func sparseLookups(res *core.Result, r *rand.Rand, nops int) {
	limit := 2 + r.IntN(6)
	cfg := smallConfig(limit)
	desc := fmt.Sprintf("sparse-lookups/limit=%d", limit)
	c := &checker{res: res, tbl: m.NewRoutingTable(cfg), cfg: cfg, desc: desc, limit: func(netip.Prefix) int { return limit }}
	dsts := []netip.Addr{d1, d2, d3, ip("fd12:1::3"), ip("fd12:1::4"), ip("fd13::2"), ip("fd12:2::1"), ip("fd13::3")}
	relays := []netip.Addr{p1, p2, p3, ip("fd24::1")}
	last := dsts[0]
	lookups := 0
	for i := 0; i < nops && !c.fail; i++ {
		var o op
		switch k := r.IntN(100); {
		case k < 70:
			n := 1 + r.IntN(3)
			rs := make([]netip.Addr, 0, n)
			for _, j := range r.Perm(len(relays))[:n] {
				rs = append(rs, relays[j])
			}
			delays := make([]uint16, n+1)
			for j := range delays {
				delays[j] = uint16(1 + r.IntN(60))
			}
			d := dsts[r.IntN(len(dsts))]
			o = gossip(fmt.Sprintf("g(%s via %d relays, %v)", d, n, delays), d, delays, rs...)
		case k < 78:
			x := relays[r.IntN(len(relays))]
			o = op{kind: opAdd, name: "peerlink(" + x.String() + ")", entry: m.RoutingTableEntry{DstIP: x, NextHop: x, Source: m.RouteSourcePeer}}
		case k < 88:
			o = op{kind: opRemoveNextHop, name: "rmnexthop", router: relays[r.IntN(len(relays))]}
		case k < 95:
			o = op{kind: opRemoveDisconnected, name: "disc", router: relays[r.IntN(len(relays))]}
		default:
			o = op{kind: opClean, name: "clean"}
		}
		c.apply(o, false)
		if c.fail || r.IntN(3) == 0 {
			continue
		}
		dst := last
		if r.IntN(3) == 0 {
			dst = dsts[r.IntN(len(dsts))]
		}
		last = dst
		es := c.tbl.VerifEntries()
		var list []*m.RoutingTableEntry
		var peer *m.RoutingTableEntry
		for j := range es {
			if es[j].DstIP == dst {
				list = append(list, &es[j])
				if es[j].Source == m.RouteSourcePeer {
					peer = &es[j]
				}
			}
		}
		if len(list) > 0 {
			c.trace = append(c.trace, "lookup("+dst.String()+")")
			c.lookupCheck(dst, list, peer)
			lookups++
		}
	}
	if !c.fail {
		res.Count("sparse_lookup_runs", 1)
		res.Count("sparse_lookups_checked", int64(lookups))
		res.CaseN(fmt.Sprintf("%s:%x", desc, r.Uint64()), true, int64(nops))
	}
}

// ---- large seeded universes under the real prefix configs.

func realConfig(r *rand.Rand, kind int) (m.RoutingTableConfig, netip.Addr, string) {
	var id *m.Address
	var name string
	switch kind {
	case 0:
		id = env.NewIdentity(r, env.AcceptType(m.TypeGeoMarked))
		name = "geomarked"
	case 1:
		id = env.NewIdentity(r, env.AcceptType(m.TypeRoaming))
		name = "roaming"
	default:
		id = env.NewIdentity(r, env.AcceptType(m.TypeOrganization))
		name = "organization"
	}
	routerIP := id.IP
	routerPrefix := netip.PrefixFrom(routerIP, m.RegionPrefixBits)
	if marker, err := m.LookupCountryMarker(routerIP); err == nil {
		routerPrefix = marker.Prefix
	}
	routerPrefix = routerPrefix.Masked()
	if kind >= 3 {
		// a country prefix that lies in the middle of its /16 (the identities above happen to get halves, first
		// quarters or whole /16s): /18 or /19 somewhere inside, the router inside it
		b := routerIP.As16()
		bits := 18 + (kind-3)%2
		b[2] = b[2]&0x1f | []byte{0x40, 0x80, 0x60, 0xa0}[r.IntN(4)]
		routerIP = netip.AddrFrom16(b)
		routerPrefix, _ = routerIP.Prefix(bits)
		name = fmt.Sprintf("country-prefix-/%d-inside-its-region", bits)
	}
	return m.RoutingTableConfig{RoutablePrefixes: m.GetRoutablePrefixesFor(routerIP, routerPrefix), RouterIP: routerIP}, routerIP, name + "/" + routerIP.String()
}

func randAddrIn(r *rand.Rand, pfx netip.Prefix) netip.Addr {
	a := pfx.Masked().Addr().As16()
	rnd := core.RandBytes(r, 16)
	bits := pfx.Bits()
	for i := 0; i < 16; i++ {
		for b := 0; b < 8; b++ {
			if i*8+b >= bits {
				a[i] |= rnd[i] & (0x80 >> b)
			}
		}
	}
	return netip.AddrFrom16(a)
}

// saturationRun fills one routing prefix exactly to and beyond its bounds: more new destinations than the prefix
// may hold are offered one by one, then every destination that got in is filled to three routes, then the table
// is cleaned. All always-clauses are checked after every operation.
func saturationRun(res *core.Result, r *rand.Rand, limit int) {
	saturationRunBits(res, r, limit, 16)
	// routing prefixes that do not end on a byte boundary (the real configuration uses /12 continents and /18
	// countries): destinations spread over the whole prefix, in particular its upper part
	saturationRunBits(res, r, limit, []int{9, 12, 13, 18, 21}[r.IntN(5)])
}

func saturationRunBits(res *core.Result, r *rand.Rand, limit int, bits int) {
	cfg := smallConfig(limit)
	cfg.RoutablePrefixes[0].RoutingBits = bits
	c := &checker{res: res, tbl: m.NewRoutingTable(cfg), cfg: cfg, desc: fmt.Sprintf("saturation/limit=%d/routing-bits=%d", limit, bits), limit: func(netip.Prefix) int { return limit }}
	pfx, _ := netip.MustParseAddr("fd31:7700::").Prefix(bits)
	relays := []netip.Addr{netip.MustParseAddr("fd51::1"), netip.MustParseAddr("fd52::2"), netip.MustParseAddr("fd53::3")}
	n := 2*limit + 4
	dests := make([]netip.Addr, n)
	for i := range dests {
		dests[i] = randAddrIn(r, pfx)
	}
	for round := 0; round < 3 && !c.fail; round++ {
		for i, d := range dests {
			c.apply(gossip(fmt.Sprintf("sat(d%d via relay%d)", i, round), d, []uint16{5, uint16(10 + round), 7}, relays[round]), true)
			if c.fail {
				return
			}
		}
	}
	c.apply(op{kind: opClean, name: "clean"}, true)
	if !c.fail {
		res.Count("saturation_runs", 1)
		res.Case(fmt.Sprintf("saturation|%d|%d|%x", limit, bits, r.Uint64()), true)
	}
}

// nestedCleanRun uses the real prefix configuration of a router address (a small own prefix nested inside its
// region prefix), offers far more gossip destinations than the limits in the region on both sides of the own
// prefix and inside it, and cleans.
func nestedCleanRun(res *core.Result, r *rand.Rand, kind int) {
	cfg, routerIP, desc := realConfig(r, kind)
	limitOf := func(pfx netip.Prefix) int {
		for _, rp := range cfg.RoutablePrefixes {
			// the configuration whose routing prefixes have this length (a nested base prefix may start at the same
			// address as the region prefix around it: the base address alone does not tell them apart)
			if rp.RoutingBits == pfx.Bits() && rp.BasePrefix.Contains(pfx.Addr()) {
				return rp.EntriesPerPrefix
			}
		}
		return 0
	}
	c := &checker{res: res, tbl: m.NewRoutingTable(cfg), cfg: cfg, desc: "nested/" + desc, limit: limitOf}
	region, _ := routerIP.Prefix(16)
	relays := []netip.Addr{randAddrIn(r, m.RoutingAddressPrefix), randAddrIn(r, m.RoutingAddressPrefix)}
	var dests []netip.Addr
	for _, rp := range cfg.RoutablePrefixes {
		// destinations inside every configured base prefix that lies in the router's /16, and in the /16 itself
		if region.Contains(rp.BasePrefix.Addr()) {
			for i := 0; i < 40; i++ {
				dests = append(dests, randAddrIn(r, rp.BasePrefix))
			}
		}
	}
	for i := 0; i < 400; i++ {
		dests = append(dests, randAddrIn(r, region))
	}
	// ... and well over the limit on BOTH sides of every base prefix nested in the region (wherever in the region it
	// lies): addresses right below its first and right above its last address
	for _, rp := range cfg.RoutablePrefixes {
		if !region.Contains(rp.BasePrefix.Addr()) || rp.BasePrefix.Bits() <= region.Bits() {
			continue
		}
		below, above := 0, 0
		for try := 0; try < 4000 && (below < 90 || above < 90); try++ {
			a := randAddrIn(r, region)
			if rp.BasePrefix.Contains(a) {
				continue
			}
			if a.Less(rp.BasePrefix.Addr()) && below < 90 {
				dests = append(dests, a)
				below++
			} else if !a.Less(rp.BasePrefix.Addr()) && above < 90 {
				dests = append(dests, a)
				above++
			}
		}
	}
	r.Shuffle(len(dests), func(i, j int) { dests[i], dests[j] = dests[j], dests[i] })
	for i, d := range dests {
		o := gossip(fmt.Sprintf("nested(d%d)", i), d, []uint16{5, 9, 7}, relays[i%2])
		o.entry.Path.Hops[0].Router = routerIP
		c.apply(o, i%50 == 0)
		if c.fail {
			return
		}
		if i%150 == 149 {
			c.apply(op{kind: opClean, name: "clean"}, true)
			if c.fail {
				return
			}
		}
	}
	c.apply(op{kind: opClean, name: "clean"}, true)
	if os.Getenv("VERIF_DEBUG_C11") != "" {
		cnt := map[netip.Prefix]int{}
		for _, e := range c.tbl.VerifEntries() {
			cnt[e.RoutingPrefix]++
		}
		fmt.Fprintf(os.Stderr, "DEBUG nested kind=%d router=%s prefixes=%v counts=%v fail=%v\n", kind, routerIP, cfg.RoutablePrefixes, cnt, c.fail)
	}
	if !c.fail {
		res.Count("nested_clean_runs", 1)
		res.Case(fmt.Sprintf("nested-clean|%d|%x", kind, r.Uint64()), true)
	}
}

func largeRun(res *core.Result, r *rand.Rand, kind int, nops int) {
	cfg, routerIP, desc := realConfig(r, kind)
	limitOf := func(pfx netip.Prefix) int {
		for _, rp := range cfg.RoutablePrefixes {
			// the configuration whose routing prefixes have this length (a nested base prefix may start at the same
			// address as the region prefix around it: the base address alone does not tell them apart)
			if rp.RoutingBits == pfx.Bits() && rp.BasePrefix.Contains(pfx.Addr()) {
				return rp.EntriesPerPrefix
			}
		}
		return 0
	}
	c := &checker{res: res, tbl: m.NewRoutingTable(cfg), cfg: cfg, desc: desc, limit: limitOf}
	// Universe: destinations concentrated in few routing prefixes so limits bite.
	var pfxs []netip.Prefix
	own16, _ := routerIP.Prefix(16)
	pfxs = append(pfxs, own16)
	for i := 0; i < 4; i++ {
		a := randAddrIn(r, m.RoutingAddressPrefix)
		p, _ := a.Prefix(16)
		pfxs = append(pfxs, p)
	}
	dests := make([]netip.Addr, 1000)
	for i := range dests {
		dests[i] = randAddrIn(r, pfxs[r.IntN(len(pfxs))])
	}
	peers := make([]netip.Addr, 12)
	for i := range peers {
		peers[i] = randAddrIn(r, m.RoutingAddressPrefix)
	}
	relays := make([]netip.Addr, 30)
	for i := range relays {
		relays[i] = randAddrIn(r, m.RoutingAddressPrefix)
	}
	mkGossip := func() op {
		dst := dests[r.IntN(len(dests))]
		if r.IntN(20) == 0 {
			dst = peers[r.IntN(len(peers))]
		}
		nh := peers[r.IntN(len(peers))]
		routers := []netip.Addr{nh}
		used := map[netip.Addr]bool{nh: true, dst: true}
		for k := r.IntN(4); k > 0; k-- {
			x := relays[r.IntN(len(relays))]
			if !used[x] {
				used[x] = true
				routers = append(routers, x)
			}
		}
		if routers[0] == dst {
			routers = routers[1:]
			if len(routers) == 0 {
				routers = []netip.Addr{relays[0]}
			}
		}
		delays := make([]uint16, len(routers)+1)
		slow := r.IntN(5) == 0 // slow paths: hop delays that sum beyond 16 bits
		for i := range delays {
			delays[i] = uint16(r.IntN(300))
			if slow {
				delays[i] = uint16(15000 + r.IntN(50000))
			}
		}
		o := gossip(fmt.Sprintf("g(%s via %d relays)", dst, len(routers)), dst, delays, routers...)
		o.entry.Path.Hops[0].Router = routerIP
		if r.IntN(3) == 0 {
			o.entry.Expires = time.Now().Add(time.Duration(1+r.IntN(40)) * time.Minute)
		}
		o.entry.Stub = r.IntN(5) == 0
		return o
	}
	for i := 0; i < nops && !c.fail; i++ {
		var o op
		switch k := r.IntN(100); {
		case k < 70:
			o = mkGossip()
		case k < 80:
			p := peers[r.IntN(len(peers))]
			o = op{kind: opAdd, name: "peerlink(" + p.String() + ")", entry: m.RoutingTableEntry{DstIP: p, NextHop: p, Source: m.RouteSourcePeer}}
		case k < 85:
			o = op{kind: opRemoveNextHop, name: "rmnexthop", router: peers[r.IntN(len(peers))]}
		case k < 90:
			x := relays[r.IntN(len(relays))]
			if r.IntN(2) == 0 {
				x = peers[r.IntN(len(peers))]
			}
			o = op{kind: opRemoveDisconnected, name: "disc(" + x.String() + ")", router: x}
		case k < 94:
			o = op{kind: opRemoveDisconnected, name: "disc-list", router: relays[r.IntN(len(relays))], list: []netip.Addr{peers[r.IntN(len(peers))], relays[r.IntN(len(relays))]}}
		case k < 97:
			o = op{kind: opAgeClean, name: "age+clean", age: time.Duration(1+r.IntN(3)) * 30 * time.Minute}
		default:
			o = op{kind: opClean, name: "clean"}
		}
		c.apply(o, i%25 == 0 || o.kind != opAdd)
		if !c.fail && o.kind == opAdd {
			// always look up the destination just touched
			es := c.tbl.VerifEntries()
			var list []*m.RoutingTableEntry
			var peer *m.RoutingTableEntry
			for j := range es {
				if es[j].DstIP == o.entry.DstIP {
					list = append(list, &es[j])
					if es[j].Source == m.RouteSourcePeer {
						peer = &es[j]
					}
				}
			}
			if len(list) > 0 {
				c.lookupCheck(o.entry.DstIP, list, peer)
			}
		}
	}
	if !c.fail {
		res.Count("large_runs", 1)
		res.Count("large_run_final_entries", int64(len(c.tbl.VerifEntries())))
		res.CaseN(fmt.Sprintf("large:%s:%x", desc, r.Uint64()), true, int64(nops))
	}
}

// ---- concurrent variant: atomicity of each operation (porcupine, model = the real table replayed sequentially).

type concOp struct {
	idx int // index into alphabet, or -1..-3 lookups of d1,d2,p1
}

func lookupOut(t *m.RoutingTable, dst netip.Addr) string {
	e, isDst := t.LookupNearest(dst)
	if e == nil {
		return "none"
	}
	var b strings.Builder
	fmt.Fprintf(&b, "%s>%s/%d/%v/", e.DstIP, e.NextHop, e.Source, isDst)
	for _, h := range e.Path.Hops {
		b.WriteString(h.Router.String() + ",")
	}
	return b.String()
}

func execConc(t *m.RoutingTable, alpha []op, o concOp) string {
	switch o.idx {
	case -1:
		return lookupOut(t, d1)
	case -2:
		return lookupOut(t, d2)
	case -3:
		return lookupOut(t, p1)
	}
	a := alpha[o.idx]
	switch a.kind {
	case opAdd:
		added, err := t.AddRoute(a.entry)
		return fmt.Sprintf("%v/%v", added, err != nil)
	case opRemoveNextHop:
		return fmt.Sprint(t.RemoveNextHop(a.router))
	case opRemoveDisconnected:
		return fmt.Sprint(t.RemoveDisconnected(a.router, a.list))
	default:
		t.Clean()
		return "ok"
	}
}

func concurrentRun(res *core.Result, r *rand.Rand, keyPrefix string) {
	alpha := smallAlphabet()
	// no ageing in the concurrent variant (time-dependent); plain Clean only
	var usable []int
	for i, a := range alpha {
		if a.kind != opAgeClean {
			usable = append(usable, i)
		}
	}
	cfg := smallConfig(1 + r.IntN(3))
	tbl := m.NewRoutingTable(cfg)
	G := 2 + r.IntN(5)
	per := 5
	plan := make([][]concOp, G)
	for g := range plan {
		for i := 0; i < per; i++ {
			if r.IntN(3) == 0 {
				plan[g] = append(plan[g], concOp{idx: -1 - r.IntN(3)})
			} else {
				plan[g] = append(plan[g], concOp{idx: usable[r.IntN(len(usable))]})
			}
		}
	}
	var clock atomic.Int64
	hist := make([][]porcupine.Operation, G)
	var wg sync.WaitGroup
	start := make(chan struct{})
	for g := 0; g < G; g++ {
		wg.Add(1)
		go func(g int) {
			defer wg.Done()
			<-start
			for _, o := range plan[g] {
				call := clock.Add(1)
				out := execConc(tbl, alpha, o)
				ret := clock.Add(1)
				hist[g] = append(hist[g], porcupine.Operation{ClientId: g, Input: o, Call: call, Output: out, Return: ret})
			}
		}(g)
	}
	close(start)
	wg.Wait()
	var all []porcupine.Operation
	for _, h := range hist {
		all = append(all, h...)
	}
	// Model: state = list of mutating operations applied so far; Step replays them on a fresh real table.
	replay := func(st string) *m.RoutingTable {
		t := m.NewRoutingTable(cfg)
		if st != "" {
			for _, s := range strings.Split(st, ",") {
				var i int
				fmt.Sscanf(s, "%d", &i)
				execConc(t, alpha, concOp{idx: i})
			}
		}
		return t
	}
	model := porcupine.Model{
		Init: func() interface{} { return "" },
		Step: func(st, in, out interface{}) (bool, interface{}) {
			s := st.(string)
			o := in.(concOp)
			t := replay(s)
			got := execConc(t, alpha, o)
			if got != out.(string) {
				return false, s
			}
			if o.idx < 0 {
				return true, s
			}
			if s == "" {
				return true, fmt.Sprint(o.idx)
			}
			return true, s + "," + fmt.Sprint(o.idx)
		},
		Equal: func(a, b interface{}) bool {
			if a.(string) == b.(string) {
				return true
			}
			_, sa := snapshotNoExpiry(replay(a.(string)))
			_, sb := snapshotNoExpiry(replay(b.(string)))
			return sa == sb
		},
	}
	switch porcupine.CheckOperationsTimeout(model, all, 20*time.Second) {
	case porcupine.Illegal:
		d := make([]string, 0, len(all))
		for _, o := range all {
			name := fmt.Sprint(o.Input.(concOp).idx)
			if i := o.Input.(concOp).idx; i >= 0 {
				name = alpha[i].name
			}
			d = append(d, fmt.Sprintf("c%d [%d,%d] %s -> %s", o.ClientId, o.Call, o.Return, name, o.Output))
		}
		res.Violate("concurrent-history-not-linearizable", "concurrent routing-table operations are not linearizable w.r.t. the sequential table", map[string]any{"history": d})
	case porcupine.Unknown:
		res.Count("porcupine_timeouts", 1)
	default:
		res.Count("concurrent_histories_linearizable", 1)
		// quiescent invariants
		c := &checker{res: res, tbl: tbl, cfg: cfg, desc: "concurrent", limit: func(netip.Prefix) int { return cfg.RoutablePrefixes[0].EntriesPerPrefix }}
		c.invariants(tbl.VerifEntries(), false, time.Time{}, true)
		res.Case(fmt.Sprintf("%sconc:%x", keyPrefix, r.Uint64()), true)
	}
}

// peerRoute is the entry Peering.AddLink stores for a new link.
func peerRoute(p netip.Addr) m.RoutingTableEntry {
	return m.RoutingTableEntry{DstIP: p, NextHop: p, Source: m.RouteSourcePeer}
}

// churnRun: the clauses that must hold at every instant, observed while other goroutines change the table -
// what the router's worker pool does all day. Stable destinations (one with a peer route and gossip routes, one
// with gossip routes only) are never touched; churners add, remove and clean everything around them (lower and
// higher addresses, same and other routing prefixes) and the housekeeping Clean runs concurrently.
//   - readers: every lookup of a stable destination returns a route to exactly that destination, flagged as
//     destination (and the peer route where one exists); no lookup panics;
//   - at the end (all goroutines joined): every peer route that was added and not removed is there, every
//     removed next hop is gone (an update must not be lost to a concurrent Clean).
func churnRun(res *core.Result, r *rand.Rand, kind int, bulk int, keyPrefix string) {
	cfg, routerIP, desc := realConfig(r, kind)
	tbl := m.NewRoutingTable(cfg)
	// the stable destinations and the churn around them live in the router's own prefix, whose per-prefix limit
	// (1024) the run stays far below: the housekeeping must never have a reason to trim them
	if len(cfg.RoutablePrefixes) == 0 || cfg.RoutablePrefixes[0].EntriesPerPrefix < 1024 || !cfg.RoutablePrefixes[0].BasePrefix.Contains(routerIP) {
		res.Count("churn_runs_skipped_no_own_prefix", 1)
		return
	}
	own16 := cfg.RoutablePrefixes[0].BasePrefix
	var violated atomic.Bool
	violate := func(sig, msg string) {
		if violated.CompareAndSwap(false, true) {
			res.Violate(sig, msg+" ["+desc+"]", map[string]any{"case_id": "churn", "config": desc})
		}
	}
	relays := make([]netip.Addr, 8)
	for i := range relays {
		relays[i] = randAddrIn(r, m.RoutingAddressPrefix)
	}
	nh := randAddrIn(r, m.RoutingAddressPrefix) // the peer all gossip routes use as next hop
	_, _ = tbl.AddRoute(peerRoute(nh))
	mkGossip := func(rr *rand.Rand, dst netip.Addr) m.RoutingTableEntry {
		routers := []netip.Addr{nh}
		for k := rr.IntN(3); k > 0; k-- {
			x := relays[rr.IntN(len(relays))]
			if x != dst && !slices.Contains(routers, x) {
				routers = append(routers, x)
			}
		}
		delays := make([]uint16, len(routers)+1)
		for i := range delays {
			delays[i] = uint16(1 + rr.IntN(300))
		}
		return gossipVia(routerIP, dst, delays, routers...)
	}
	// stable destinations in the middle of the own prefix
	stablePeer := randAddrIn(r, own16)
	stableGossip := randAddrIn(r, own16)
	_, _ = tbl.AddRoute(peerRoute(stablePeer))
	for i := 0; i < 3; i++ {
		_, _ = tbl.AddRoute(mkGossip(r, stablePeer))
		_, _ = tbl.AddRoute(mkGossip(r, stableGossip))
	}
	if e, ok := tbl.LookupNearest(stableGossip); !ok || e == nil || e.DstIP != stableGossip {
		res.Count("churn_runs_skipped_no_stable_route", 1)
		return
	}
	// bulk: makes Clean take long enough to overlap other operations
	for i := 0; i < bulk; i++ {
		_, _ = tbl.AddRoute(mkGossip(r, randAddrIn(r, m.RoutingAddressPrefix)))
	}
	var stop atomic.Bool
	var wg sync.WaitGroup
	var lookups, churnOps, cleans atomic.Int64
	guard := func(what string, fn func()) {
		defer func() {
			if p := recover(); p != nil {
				violate("table-panic-under-concurrency", fmt.Sprintf("%s panicked while other goroutines changed the table: %v", what, p))
			}
		}()
		fn()
	}
	for g := 0; g < 3; g++ {
		wg.Add(1)
		go func(g int) {
			defer wg.Done()
			for !stop.Load() && !violated.Load() {
				for _, dst := range []netip.Addr{stablePeer, stableGossip} {
					guard("LookupNearest", func() {
						e, isDst := tbl.LookupNearest(dst)
						if e == nil || !isDst || e.DstIP != dst {
							violate("lookup-misses-existing-destination:concurrent", fmt.Sprintf("LookupNearest(%s) returned (%s, %v) while unrelated routes were being added and removed; the destination has had routes all the time", dst, entryStr(e), isDst))
						} else if dst == stablePeer && e.Source != m.RouteSourcePeer {
							violate("lookup-not-best:concurrent", fmt.Sprintf("LookupNearest(%s) returned %s although a direct-peer route exists all the time", dst, entryStr(e)))
						}
					})
					guard("LookupNearestRoute", func() {
						e, isDst := tbl.LookupNearestRoute(dst)
						if e == nil || !isDst || e.DstIP != dst {
							violate("lookup-misses-existing-destination:concurrent", fmt.Sprintf("LookupNearestRoute(%s) returned (%s, %v) while unrelated routes were being added and removed; the destination has had routes all the time", dst, entryStr(e), isDst))
						}
					})
					lookups.Add(2)
				}
			}
		}(g)
	}
	// churners: unrelated destinations come and go
	for g := 0; g < 2; g++ {
		wg.Add(1)
		rr := rand.New(rand.NewPCG(r.Uint64(), uint64(g)))
		go func() {
			defer wg.Done()
			var mine []netip.Addr
			for !stop.Load() && !violated.Load() {
				guard("AddRoute/RemoveDisconnected", func() {
					if len(mine) < 40 || rr.IntN(2) == 0 {
						pfx := own16
						if rr.IntN(3) == 0 {
							pfx = m.RoutingAddressPrefix
						}
						d := randAddrIn(rr, pfx)
						if d == stablePeer || d == stableGossip {
							return
						}
						_, _ = tbl.AddRoute(mkGossip(rr, d))
						mine = append(mine, d)
					} else {
						i := rr.IntN(len(mine))
						tbl.RemoveDisconnected(mine[i], nil)
						mine = append(mine[:i], mine[i+1:]...)
					}
					churnOps.Add(1)
				})
			}
		}()
	}
	// housekeeping
	wg.Add(1)
	go func() {
		defer wg.Done()
		for !stop.Load() && !violated.Load() {
			guard("Clean", func() { tbl.Clean() })
			cleans.Add(1)
		}
	}()
	// link manager: peers come (AddLink's route) and go (RemoveLink's RemoveNextHop) while all of that runs
	var added, removed []netip.Addr
	guard("peer routes", func() {
		for i := 0; i < 60 && !violated.Load(); i++ {
			p := randAddrIn(r, m.RoutingAddressPrefix)
			if ok, err := tbl.AddRoute(peerRoute(p)); err != nil || !ok {
				continue
			}
			_, _ = tbl.AddRoute(gossipVia(routerIP, randAddrIn(r, m.RoutingAddressPrefix), []uint16{5, 6}, p))
			added = append(added, p)
			if i%3 == 2 {
				q := added[r.IntN(len(added))]
				if !slices.Contains(removed, q) {
					tbl.RemoveNextHop(q)
					removed = append(removed, q)
				}
			}
			time.Sleep(time.Duration(50+r.IntN(300)) * time.Microsecond)
		}
	})
	stop.Store(true)
	wg.Wait()
	if violated.Load() {
		return
	}
	es := tbl.VerifEntries()
	have := map[netip.Addr]bool{}
	for _, e := range es {
		if e.Source == m.RouteSourcePeer {
			have[e.DstIP] = true
		}
	}
	for _, p := range added {
		gone := slices.Contains(removed, p)
		if !gone && !have[p] {
			violate("peer-route-lost:concurrent", fmt.Sprintf("the direct-peer route for %s was added ('added' = true) and never removed, but is gone after housekeeping ran concurrently", p))
			return
		}
		if gone {
			for _, e := range es {
				if e.NextHop == p {
					violate("removed-next-hop-survives:concurrent", fmt.Sprintf("a route to %s via %s is in the table although RemoveNextHop(%s) returned, with housekeeping running concurrently", e.DstIP, p, p))
					return
				}
			}
		}
	}
	res.Count("churn_runs", 1)
	res.Count("churn_lookups_of_stable_destinations", lookups.Load())
	res.Count("churn_concurrent_changes", churnOps.Load())
	res.Count("churn_concurrent_cleans", cleans.Load())
	res.Case(fmt.Sprintf("%schurn:%s:%d:%d", keyPrefix, desc, bulk, len(added)), true)
}

// gossipVia is gossip() for an arbitrary own address.
func gossipVia(own, dst netip.Addr, delays []uint16, routers ...netip.Addr) m.RoutingTableEntry {
	full := append(append([]netip.Addr{}, routers...), dst)
	hops := make([]m.SwitchHop, 0, len(full)+1)
	hops = append(hops, hop(own, delays[0], 7, 0))
	for i, x := range full {
		fl := m.SwitchLabel(10 + i)
		if i == len(full)-1 {
			fl = 0
		}
		d := uint16(0)
		if i+1 < len(delays) {
			d = delays[i+1]
		}
		hops = append(hops, hop(x, d, fl, m.SwitchLabel(20+i)))
	}
	return m.RoutingTableEntry{DstIP: dst, NextHop: routers[0], Path: m.SwitchPath{Hops: hops}, Source: m.RouteSourceGossip}
}

func snapshotNoExpiry(t *m.RoutingTable) ([]m.RoutingTableEntry, string) {
	es := t.VerifEntries()
	var b strings.Builder
	for i := range es {
		e := es[i]
		e.Expires = time.Time{}
		b.WriteString(entryStr(&e))
		b.WriteByte('\n')
	}
	return es, b.String()
}

func run(c *core.Ctx) {
	res := c.Res
	if c.RaceBuild {
		n := c.Q(150, 3000)
		parallel(4, func(w int) {
			r := core.RNG(fmt.Sprintf("c11/race/%d", w))
			for i := w; i < n; i += 4 {
				concurrentRun(res, r, "race:")
			}
			for i := 0; i < c.Q(1, 6); i++ {
				churnRun(res, r, (w+i)%3, 1500, "race:")
			}
		})
		return
	}
	const W = 16
	maxLen := c.Q(4, 5)
	for limit := 1; limit <= 3; limit++ {
		for l := 1; l <= maxLen; l++ {
			parallel(W, func(w int) { exhaustive(res, limit, l, w, W) })
		}
	}
	// one length more for the tightest limit
	parallel(W, func(w int) { exhaustive(res, 1, maxLen+1, w, W) })
	res.Count("exhaustive_sequences", res.Evaluations)
	res.Sample(map[string]any{"config": "small/limit=1", "ops": []string{"g(D1:P1)", "peerlink(P1)", "g(D1:P2)", "disc(P1)", "clean"}})

	nLarge := c.Q(48, 1200)
	parallel(W, func(w int) {
		r := core.RNG(fmt.Sprintf("c11/large/%d", w))
		for i := w; i < nLarge; i += W {
			largeRun(res, r, i%3, c.Q(3000, 10000))
		}
		for i := 0; i < c.Q(3, 60); i++ {
			sparseLookups(res, r, c.Q(1000, 5000))
		}
	})
	res.Sample(map[string]any{"config": "real GetRoutablePrefixesFor(geo-marked|roaming|organization router)", "destinations": 1000, "peers": 12, "relays": 30})
	parallel(W, func(w int) {
		r := core.RNG(fmt.Sprintf("c11/sat/%d", w))
		for i := w; i < c.Q(32, 400); i += W {
			saturationRun(res, r, 1+i%6)
			nestedCleanRun(res, r, i%5)
		}
	})

	nConc := c.Q(150, 2000)
	parallel(4, func(w int) {
		r := core.RNG(fmt.Sprintf("c11/conc/%d", w))
		for i := w; i < nConc; i += 4 {
			concurrentRun(res, r, "")
		}
	})
	parallel(4, func(w int) {
		r := core.RNG(fmt.Sprintf("c11/churn/%d", w))
		for i := 0; i < c.Q(2, 30); i++ {
			t0 := time.Now()
			churnRun(res, r, (w+i)%3, []int{500, 4000, 12000}[i%3], "")
			res.Count("churn_ms_total", time.Since(t0).Milliseconds())
		}
	})
	res.Require(res.Counter("churn_runs") >= 5 || res.ViolationCount() > 0, "too few concurrent churn runs completed")
	res.Assume("paths are the forms the system produces: peer routes with an empty or 2-hop path, gossip routes with >= 3-hop simple paths")
	res.Assume("the per-prefix bound allows 3 more gossip routes per direct-peer destination in that prefix (peers enter without the admission test; see DESIGN.md C11)")
	res.Assume("ageing is simulated by moving expiries (hook VerifAgeEntries) by >= 30 min; no oracle depends on sub-minute timing")
	res.Require(res.Counter("large_runs") >= int64(nLarge*9/10), "too few large runs completed")
	res.Require(res.Counter("concurrent_histories_linearizable") >= int64(nConc/2), "too few concurrent histories decided")
}
