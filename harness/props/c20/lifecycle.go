//go:build verif

package c20

import (
	"fmt"
	"math/rand/v2"
	"sync"
	"sync/atomic"
	"time"

	"github.com/mycoria/mycoria/mgr"
	"verifharness/core"
)

// Group lifecycle histories: the real module group (mgr.NewGroup, Start in order, Stop in reverse with
// WaitForWorkers) over stand-in modules that start workers the way the router's modules do - long-lived workers
// handed to the manager in Start, workers that hand over to other workers and end (listener -> setup link -> link
// reader/writer), workers started per event by another worker. Every worker function stamps its begin and its end
// on one logical clock, the caller stamps the return of Stop. If Stop returned success, no worker function may
// begin after that stamp and none that began before may still be running at it.

type lifeEvent struct {
	name       string
	begin, end int64
}

type lifeLog struct {
	clock atomic.Int64
	mu    sync.Mutex
	evs   []*lifeEvent
}

func (l *lifeLog) begin(name string) *lifeEvent {
	e := &lifeEvent{name: name}
	l.mu.Lock()
	e.begin = l.clock.Add(1)
	l.evs = append(l.evs, e)
	l.mu.Unlock()
	return e
}

func (l *lifeLog) finish(e *lifeEvent) {
	l.mu.Lock()
	e.end = l.clock.Add(1)
	l.mu.Unlock()
}

type lifeModule struct {
	m       *mgr.Manager
	log     *lifeLog
	name    string
	pattern int
	fanout  int
	events  chan struct{}
	stopped chan struct{}
}

func (lm *lifeModule) Manager() *mgr.Manager { return lm.m }

func (lm *lifeModule) worker(name string, body func(w *mgr.WorkerCtx)) {
	lm.m.Go(name, func(w *mgr.WorkerCtx) error {
		e := lm.log.begin(lm.name + "/" + name)
		defer lm.log.finish(e)
		body(w)
		return nil
	})
}

func (lm *lifeModule) Start() error {
	switch lm.pattern {
	case 0: // long-lived workers, as every module starts them
		for i := 0; i < lm.fanout; i++ {
			lm.worker(fmt.Sprintf("keeper%d", i), func(w *mgr.WorkerCtx) { <-w.Done() })
		}
	case 1: // a chain of hand-overs: each worker starts the next one and ends (setup link -> reader, writer)
		var step func(k int) func(w *mgr.WorkerCtx)
		step = func(k int) func(w *mgr.WorkerCtx) {
			return func(w *mgr.WorkerCtx) {
				if k < lm.fanout {
					lm.worker(fmt.Sprintf("stage%d", k+1), step(k+1))
					return
				}
				<-w.Done()
			}
		}
		lm.worker("stage0", step(0))
	case 2: // an acceptor that starts one short worker per event until the module is stopped (listener)
		lm.worker("acceptor", func(w *mgr.WorkerCtx) {
			for {
				select {
				case <-lm.stopped:
					return
				case <-w.Done():
					return
				case <-lm.events:
					lm.worker("per-event", func(w *mgr.WorkerCtx) {
						select {
						case <-w.Done():
						case <-lm.stopped:
						}
					})
				}
			}
		})
	}
	return nil
}

func (lm *lifeModule) Stop() error {
	close(lm.stopped)
	return nil
}

func groupLifecycle(res *core.Result, r *rand.Rand, groups int, keyPrefix string) {
	for gi := 0; gi < groups && res.ViolationCount() == 0; gi++ {
		log := &lifeLog{}
		nmod := 1 + r.IntN(4)
		mods := make([]mgr.Module, 0, nmod)
		desc := ""
		var feeders []*lifeModule
		for k := 0; k < nmod; k++ {
			lm := &lifeModule{m: mgr.New(fmt.Sprintf("life%d", k)), log: log, name: fmt.Sprintf("m%d", k), pattern: r.IntN(3), fanout: 1 + r.IntN(3), events: make(chan struct{}), stopped: make(chan struct{})}
			desc += fmt.Sprintf("%d.%d ", lm.pattern, lm.fanout)
			mods = append(mods, lm)
			if lm.pattern == 2 {
				feeders = append(feeders, lm)
			}
		}
		g := mgr.NewGroup(mods...)
		if err := g.Start(); err != nil {
			res.Violate("group-start-failed", fmt.Sprintf("a group of stand-in modules failed to start: %v", err), map[string]any{"case_id": "lifecycle"})
			return
		}
		// events for the acceptors until the stop
		var feedWG sync.WaitGroup
		stopFeed := make(chan struct{})
		for _, lm := range feeders {
			feedWG.Add(1)
			go func(lm *lifeModule) {
				defer feedWG.Done()
				for {
					select {
					case lm.events <- struct{}{}:
					case <-stopFeed:
						return
					case <-lm.stopped:
						return
					}
				}
			}(lm)
		}
		delay := []time.Duration{0, 0, time.Microsecond, 20 * time.Microsecond, 200 * time.Microsecond, 2 * time.Millisecond}[r.IntN(6)]
		if delay > 0 {
			time.Sleep(delay)
		}
		ok := g.Stop()
		stopAt := log.clock.Add(1)
		close(stopFeed)
		feedWG.Wait()
		if !ok {
			res.Violate("group-stop-returned-false", fmt.Sprintf("Stop() of a group of stand-in modules (%s) whose workers all end on cancellation returned false", desc), map[string]any{"case_id": "lifecycle"})
			return
		}
		// give workers that were handed over but not begun the time to show up
		for i := 0; i < 20; i++ {
			time.Sleep(100 * time.Microsecond)
		}
		log.mu.Lock()
		var late, running *lifeEvent
		for _, e := range log.evs {
			if e.begin > stopAt && late == nil {
				late = e
			}
			if e.begin < stopAt && (e.end == 0 || e.end > stopAt) && running == nil {
				running = e
			}
		}
		n := len(log.evs)
		log.mu.Unlock()
		wit := map[string]any{"case_id": "lifecycle", "modules": desc, "stop_delay": delay.String(), "group": gi}
		if late != nil {
			res.Violate("worker-left-running:began-after-stop", fmt.Sprintf("module group (patterns %s, stopped %v after Start): Stop() returned success, worker %q handed to the manager before the stop began to run after it", desc, delay, late.name), wit)
			return
		}
		if running != nil {
			res.Violate("worker-left-running:at-stop-return", fmt.Sprintf("module group (patterns %s, stopped %v after Start): Stop() returned success while worker %q was running", desc, delay, running.name), wit)
			return
		}
		res.Count("group_lifecycles_checked", 1)
		res.Count("group_lifecycle_worker_events", int64(n))
		res.Case(fmt.Sprintf("%slifecycle|%s|%v|%d", keyPrefix, desc, delay, min(n, 12)), true)
	}
}
