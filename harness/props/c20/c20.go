// Package c20: relay-only routers start, run and stop cleanly.
package c20

import (
	"context"
	"encoding/json"
	"fmt"
	"math/rand/v2"
	"net"
	"os"
	"os/exec"
	"path/filepath"
	"regexp"
	"runtime"
	"sort"
	"strconv"
	"strings"
	"sync"
	"sync/atomic"
	"time"

	mycoria "github.com/mycoria/mycoria"
	"github.com/mycoria/mycoria/config"
	"github.com/mycoria/mycoria/m"
	"github.com/mycoria/mycoria/mgr"

	"verifharness/core"
	"verifharness/env"
)

func init() {
	core.RegisterChild("c20run", childRun)
	core.Register(&core.Prop{
		ID:    "C20",
		Level: "exploration",
		Rule: "seeded valid relay-only configurations (disableTun; universe +- secret; lite/stub; 0..4 services; friends; tcp listener on a free loopback port; with/without apiListen; state path none/JSON); " +
			"in a child process: Store.Parse -> mycoria.New -> Start, a second router connecting to the first, link wait, pong exchange, Stop of both, repeated for k cycles; oracle: no error/panic, workers running, " +
			"listener accepts, true peer addresses, Stop()==true, no worker left, no mycoria goroutine left after stop; non-trivial = configuration differs in a module-affecting switch; distinct by config hash",
		Run:              run,
		HasRacePart:      true,
		RaceAnchors:      []string{`mgr\.\(\*Group\)`, `mgr\.\(\*Manager\)\.(worker|Wait|Cancel)`, `peering\.\(\*Peering\)\.(AddLink|RemoveLink|GetLink|closeAll|copyLinks)`},
		CrashIsViolation: false,
		TimeoutQuick:     15 * time.Minute,
	})
}

type childResult struct {
	OK          bool     `json:"ok"`
	Violations  []string `json:"violations"`
	Sigs        []string `json:"sigs"`
	Inconcl     []string `json:"inconclusive"`
	Cycles      int      `json:"cycles"`
	ConfigDesc  string   `json:"config"`
	ConfigHash  string   `json:"config_hash"`
	LinkWaitMs  []int64  `json:"link_wait_ms"`
	StopMs      []int64  `json:"stop_ms"`
	Goroutines  []int    `json:"goroutines_after_cycle"`
	PongOK      int      `json:"pong_ok"`
	PongTimeout int      `json:"pong_timeout"`
	FloodSent   int64    `json:"flood_sent"`
	FloodErrs   int64    `json:"flood_errs"`
	// APIClientsAtStop: connections to the local API held open (silent, mid-request, idle) while Stop ran
	APIClientsAtStop int `json:"api_clients_at_stop"`
}

// freePort returns a loopback TCP port that is free right now, chosen by the kernel (ports derived from the
// config index collided when several runs of this check shared a machine; the kernel hands out its ephemeral ports
// in rotation, so two probes rarely get the same one). The argument is kept for the callers' sake.
func freePort(_ int) int {
	ln, err := net.Listen("tcp", "127.0.0.1:0")
	if err != nil {
		return 0
	}
	defer ln.Close()
	return ln.Addr().(*net.TCPAddr).Port
}

type genCfg struct {
	universe, secret string
	lite, stub       bool
	nServices        int
	nFriends         int
	api              bool
	stateFile        bool
	isolate          bool
	manyAdvertised   bool
	viaBootstrap     bool // the dialling router reaches the listener through router.bootstrap, not router.connect
	ipv6             bool // listener and peer URL on the IPv6 loopback
}

// loopHost is the loopback host of the configuration under test ("127.0.0.1" or "[::1]").
func (g genCfg) loopHost() string {
	if g.ipv6 {
		return "[::1]"
	}
	return "127.0.0.1"
}

func (g genCfg) String() string {
	if len(g.universe) > 40 {
		g.universe = fmt.Sprintf("%s...(%d bytes)", g.universe[:12], len(g.universe))
	}
	return fmt.Sprintf("universe=%q secret=%v lite=%v stub=%v services=%d friends=%d api=%v statefile=%v isolate=%v bootstrap=%v ipv6=%v",
		g.universe, g.secret != "", g.lite, g.stub, g.nServices, g.nFriends, g.api, g.stateFile, g.isolate, g.viaBootstrap, g.ipv6)
}

func genConfig(r *rand.Rand) genCfg {
	g := genCfg{}
	switch r.IntN(3) {
	case 1:
		g.universe = "test"
	case 2:
		g.universe = "uni-Ä"
		g.secret = "pass word"
	}
	g.lite = r.IntN(4) == 0
	g.stub = r.IntN(4) == 0
	g.nServices = r.IntN(5)
	g.viaBootstrap = r.IntN(4) == 0
	if r.IntN(4) == 0 {
		if ln, err := net.Listen("tcp", "[::1]:0"); err == nil {
			ln.Close()
			g.ipv6 = true
		}
	}
	switch r.IntN(8) {
	case 0:
		g.universe = "big-" + strings.Repeat("u", 1300+r.IntN(600)) // a long universe name: handshake frames beyond the small buffers
	case 1:
		g.nServices = 25 + r.IntN(10) // many advertised services: announcements beyond the small buffers
		g.manyAdvertised = true
	}
	g.nFriends = r.IntN(4)
	g.api = r.IntN(2) == 0
	g.stateFile = r.IntN(2) == 0
	g.isolate = r.IntN(4) == 0
	return g
}

func routableIP(r *rand.Rand) string {
	id := env.NewIdentity(r, nil)
	return id.IP.String()
}

func buildStore(r *rand.Rand, g genCfg, id *m.Address, listenPort, apiPort int, connectTo int, stateDir string, role string) config.Store {
	st := config.Store{
		Router: config.Router{
			Address:        id.Store(),
			Universe:       g.universe,
			UniverseSecret: g.secret,
			Lite:           g.lite,
			Stub:           g.stub,
			Isolate:        g.isolate,
		},
		System: config.System{DisableTun: true},
	}
	if listenPort > 0 {
		st.Router.Listen = []string{fmt.Sprintf("tcp://%s:%d", g.loopHost(), listenPort)}
	}
	if connectTo > 0 {
		if g.viaBootstrap {
			st.Router.Bootstrap = []string{fmt.Sprintf("tcp://%s:%d", g.loopHost(), connectTo)}
		} else {
			st.Router.Connect = []string{fmt.Sprintf("tcp://%s:%d", g.loopHost(), connectTo)}
		}
	}
	if g.api && apiPort > 0 {
		st.System.APIListen = fmt.Sprintf("127.0.0.1:%d", apiPort)
	}
	if g.stateFile {
		st.System.StatePath = filepath.Join(stateDir, "state-"+role+".json")
	}
	var friendNames []string
	for i := 0; i < g.nFriends; i++ {
		name := fmt.Sprintf("friend%d", i)
		friendNames = append(friendNames, name)
		st.FriendConfigs = append(st.FriendConfigs, config.FriendConfig{Name: name, IP: routableIP(r)})
	}
	schemes := []string{"tcp://:%d", "udp://:%d", "http://svc.myco:%d", "https://svc.myco:%d", "icmp6://"}
	usedICMP := false
	for i := 0; i < g.nServices; i++ {
		sc := schemes[r.IntN(len(schemes))]
		url := sc
		if strings.Contains(sc, "%d") {
			url = fmt.Sprintf(sc, 1000+i*7+r.IntN(5))
		} else {
			if usedICMP {
				continue
			}
			usedICMP = true
		}
		svc := config.ServiceConfig{Name: fmt.Sprintf("svc%d", i), URL: url, Advertise: r.IntN(2) == 0 || g.manyAdvertised}
		switch r.IntN(3) {
		case 0:
			svc.Public = true
		case 1:
			svc.Friends = true
		default:
			if len(friendNames) > 0 {
				svc.For = []string{friendNames[0]}
			} else {
				svc.Public = true
			}
		}
		st.ServiceConfigs = append(st.ServiceConfigs, svc)
	}
	return st
}

var goroutineHeadRe = regexp.MustCompile(`(?m)^goroutine \d+ \[`)

// mycoriaGoroutines returns the stacks of goroutines that run mycoria code.
func mycoriaGoroutines() []string {
	buf := make([]byte, 4<<20)
	n := runtime.Stack(buf, true)
	var out []string
	for _, g := range strings.Split(string(buf[:n]), "\n\n") {
		if strings.Contains(g, "github.com/mycoria/mycoria/") && !strings.Contains(g, "verifharness/props/c20.mycoriaGoroutines") {
			out = append(out, g)
		}
	}
	return out
}

func sigOf(stack string) string {
	for _, l := range strings.Split(stack, "\n") {
		l = strings.TrimSpace(l)
		if strings.HasPrefix(l, "github.com/mycoria/mycoria/") {
			if i := strings.Index(l, "("); i > 0 {
				l = l[:i]
			}
			return strings.TrimPrefix(l, "github.com/mycoria/mycoria/")
		}
	}
	return "unknown"
}

// childRun: vcheck child c20run <seed> <idx> <cycles> <workdir>
// workersAfterStop watches the worker bookkeeping of every module for a short while after Stop() returned success:
// "no worker left running" includes a worker that was handed to the manager before the stop and only begins to run
// after it (counted late), so one look right after Stop is not enough. Returns the first module seen with workers.
func workersAfterStop(in *mycoria.Instance) string {
	mods := map[string]*mgr.Manager{"state": in.State().Manager(), "peering": in.Peering().Manager(), "switch": in.Switch().Manager(), "router": in.Router().Manager()}
	if in.API() != nil {
		mods["api"] = in.API().Manager()
	}
	names := make([]string, 0, len(mods))
	for mn := range mods {
		names = append(names, mn)
	}
	sort.Strings(names)
	for sample := 0; sample < 60; sample++ {
		for _, mn := range names {
			if !mods[mn].WaitForWorkers(time.Microsecond) {
				return mn
			}
		}
		if sample%2 == 0 {
			runtime.Gosched()
		} else {
			time.Sleep(time.Millisecond)
		}
	}
	return ""
}

func childRun(args []string) int {
	seed, _ := strconv.ParseUint(args[0], 10, 64)
	idx, _ := strconv.Atoi(args[1])
	cycles, _ := strconv.Atoi(args[2])
	workdir := args[3]
	mode := "normal"
	if len(args) > 4 {
		mode = args[4]
	}
	r := rand.New(rand.NewPCG(seed, uint64(idx)))
	g := genConfig(r)
	if mode == "lonely-first" {
		g.stateFile = true // the first cycle leaves a state file of a router that met nobody
	}
	res := &childResult{ConfigDesc: g.String(), ConfigHash: core.Hash(g.String())}
	fail := func(sig, format string, a ...any) {
		res.Violations = append(res.Violations, fmt.Sprintf(format, a...))
		res.Sigs = append(res.Sigs, sig)
	}
	emit := func() int {
		res.OK = len(res.Violations) == 0
		data, _ := json.Marshal(res)
		fmt.Println("C20RESULT " + string(data))
		return 0
	}
	idA := env.NewIdentity(r, nil)
	idB := env.NewIdentity(r, nil)
	_ = os.MkdirAll(workdir, 0o755)

	base := 21000 + (idx%200)*40 + (os.Getpid()%5)*8

	if mode == "survivor" {
		// One router keeps running while its peer goes through several construct/start/peer/stop cycles: what a
		// relay sees all day. Nothing of a peer that is gone may stay behind in the survivor - compared by stack
		// signature after every cycle, a kind of goroutine whose number grows with every cycle is a leak.
		portA := freePort(base)
		if portA == 0 {
			res.Inconcl = append(res.Inconcl, "no free loopback port")
			return emit()
		}
		boot := func(name string, st config.Store) *mycoria.Instance {
			cfg, err := st.Parse()
			if err != nil {
				fail("config-rejected", "router %s: a valid relay-only configuration was rejected: %v", name, err)
				return nil
			}
			in, err := mycoria.New("v0.0.0-verif", cfg)
			if err == nil {
				err = in.Start()
			}
			if err != nil {
				fail("start-failed", "router %s: New/Start failed: %v", name, err)
				return nil
			}
			return in
		}
		instA := boot("A", buildStore(r, g, idA, portA, 0, 0, workdir, "a"))
		if instA == nil {
			return emit()
		}
		var perCycle []map[string]int
		n := max(cycles, 3)
		for cycle := 0; cycle < n; cycle++ {
			instB := boot("B", buildStore(r, g, idB, 0, 0, portA, workdir, "b"))
			if instB == nil {
				break
			}
			deadline := time.Now().Add(30 * time.Second)
			for instA.Peering().GetLink(idB.IP) == nil && time.Now().Before(deadline) {
				time.Sleep(20 * time.Millisecond)
			}
			if instA.Peering().GetLink(idB.IP) == nil {
				res.Inconcl = append(res.Inconcl, fmt.Sprintf("survivor: peer did not link in cycle %d", cycle))
				instB.Stop()
				break
			}
			if ok := instB.Stop(); !ok {
				fail("stop-returned-false", "survivor mode, cycle %d: Stop() of the peer returned false", cycle)
			}
			deadline = time.Now().Add(30 * time.Second)
			for instA.Peering().GetLink(idB.IP) != nil && time.Now().Before(deadline) {
				time.Sleep(20 * time.Millisecond)
			}
			time.Sleep(300 * time.Millisecond)
			runtime.GC()
			counts := map[string]int{}
			for _, gs := range mycoriaGoroutines() {
				counts[sigOf(gs)]++
			}
			perCycle = append(perCycle, counts)
			res.Cycles++
		}
		if len(perCycle) >= 3 {
			last := perCycle[len(perCycle)-1]
			for sig := range last {
				growing := true
				for k := 1; k < len(perCycle); k++ {
					if perCycle[k][sig] <= perCycle[k-1][sig] {
						growing = false
					}
				}
				if growing {
					fail("goroutines-accumulate-in-surviving-router:"+sig, "a router that stays up while its peer starts, peers and stops %d times holds more and more goroutines in %s: %v per cycle", len(perCycle), sig, func() []int {
						var v []int
						for _, c := range perCycle {
							v = append(v, c[sig])
						}
						return v
					}())
					break
				}
			}
		}
		if ok := instA.Stop(); !ok {
			fail("stop-returned-false", "survivor mode: Stop() of the surviving router returned false")
		}
		return emit()
	}

	for cycle := 0; cycle < cycles; cycle++ {
		portA := freePort(base)
		apiA := freePort(portA + 1)
		apiB := freePort(apiA + 1)
		for tries := 0; tries < 20 && (apiA == portA || apiB == portA || apiB == apiA); tries++ {
			apiA, apiB = freePort(0), freePort(0)
		}
		if portA == 0 || apiA == 0 || apiB == 0 {
			res.Inconcl = append(res.Inconcl, "no free loopback port")
			return emit()
		}
		stA := buildStore(r, g, idA, portA, apiA, 0, workdir, "a")
		stB := buildStore(r, g, idB, 0, apiB, portA, workdir, "b")
		var instA, instB *mycoria.Instance
		start := func(name string, st config.Store) (inst *mycoria.Instance) {
			defer func() {
				if p := recover(); p != nil {
					fail("startup-panic", "router %s: construction/start panicked: %v", name, p)
					inst = nil
				}
			}()
			cfg, err := st.Parse()
			if err != nil {
				fail("config-rejected", "router %s: a valid relay-only configuration was rejected: %v", name, err)
				return nil
			}
			in, err := mycoria.New("v0.0.0-verif", cfg)
			if err != nil {
				fail("new-failed", "router %s: New failed: %v", name, err)
				return nil
			}
			if err := in.Start(); err != nil {
				fail("start-failed", "router %s: Start failed: %v", name, err)
				return nil
			}
			return in
		}
		if mode == "lonely-first" && cycle == 0 {
			// both routers run once without meeting anybody, then stop (their state files hold no router yet)
			for _, name := range []string{"A", "B"} {
				st := stA
				if name == "B" {
					st = stB // B dials A, which is down again by then
				}
				in := start(name, st)
				if in == nil {
					return emit()
				}
				time.Sleep(100 * time.Millisecond)
				if ok := in.Stop(); !ok {
					fail("stop-returned-false", "router %s: Stop() of a router that met no peer returned false", name)
				}
			}
			res.Cycles++
			if len(res.Violations) > 0 {
				break
			}
			continue
		}
		instA = start("A", stA)
		if instA == nil {
			return emit()
		}
		if mode == "immediate" {
			// Stop right after Start, before anything had time to happen.
			ok := instA.Stop()
			if !ok {
				fail("stop-returned-false", "router A: Stop() right after Start() returned false")
			} else if mn := workersAfterStop(instA); mn != "" {
				fail("worker-left-running:"+mn, "router A: module %s has running workers after Stop() right after Start() returned success", mn)
			}
			if c, err := net.DialTimeout("tcp", fmt.Sprintf("%s:%d", g.loopHost(), portA), 300*time.Millisecond); err == nil {
				c.Close()
				// the listener may come up late: it must still go away
				time.Sleep(500 * time.Millisecond)
			}
			var left []string
			for try := 0; try < 100; try++ {
				runtime.GC()
				runtime.Gosched()
				left = mycoriaGoroutines()
				if len(left) == 0 {
					break
				}
				time.Sleep(100 * time.Millisecond)
			}
			for _, g := range left {
				first := strings.SplitN(g, "\n", 2)[0]
				fail("goroutine-left-after-stop:"+sigOf(g), "cycle %d: Stop() right after Start() returned, but a goroutine of the router is still alive 10s later: %s in %s", cycle, first, sigOf(g))
				break
			}
			if c, err := net.DialTimeout("tcp", fmt.Sprintf("%s:%d", g.loopHost(), portA), 300*time.Millisecond); err == nil {
				c.Close()
				fail("listener-open-after-stop", "router A: listener 127.0.0.1:%d accepts connections after Stop() returned (stopped right after Start)", portA)
			}
			res.Goroutines = append(res.Goroutines, runtime.NumGoroutine())
			res.Cycles++
			if len(res.Violations) > 0 {
				break
			}
			continue
		}
		// The listener is brought up by a worker: wait for it structurally (bounded).
		deadline := time.Now().Add(20 * time.Second)
		listening := false
		for time.Now().Before(deadline) {
			c, err := net.DialTimeout("tcp", fmt.Sprintf("%s:%d", g.loopHost(), portA), time.Second)
			if err == nil {
				c.Close()
				listening = true
				break
			}
			time.Sleep(20 * time.Millisecond)
		}
		if !listening {
			fail("listener-not-accepting", "router A: configured listener 127.0.0.1:%d does not accept connections", portA)
			instA.Stop()
			return emit()
		}
		if mode == "noisy-listener" {
			// before the peer dials in, the listener sees what every reachable port sees: probes that connect and
			// leave, garbage, half a handshake. None of that may use up anything the real peer needs afterwards.
			nr := rand.New(rand.NewPCG(uint64(cycle)+7, 20))
			for k := 0; k < 48; k++ {
				c, err := net.DialTimeout("tcp", fmt.Sprintf("%s:%d", g.loopHost(), portA), time.Second)
				if err != nil {
					continue
				}
				switch k % 4 {
				case 0: // port probe
				case 1:
					junk := make([]byte, 1+nr.IntN(200))
					for i := range junk {
						junk[i] = byte(nr.IntN(256))
					}
					_, _ = c.Write(junk)
				case 2: // a plausible length prefix, then silence
					_, _ = c.Write([]byte{0, 120, 1, 1, 0, 0, 1})
					time.Sleep(5 * time.Millisecond)
				default:
					time.Sleep(10 * time.Millisecond)
				}
				c.Close()
			}
			time.Sleep(200 * time.Millisecond)
		}
		instB = start("B", stB)
		if instB == nil {
			instA.Stop()
			return emit()
		}
		// Workers up?
		for name, in := range map[string]*mycoria.Instance{"A": instA, "B": instB} {
			mods := map[string]*mgr.Manager{"state": in.State().Manager(), "peering": in.Peering().Manager(), "switch": in.Switch().Manager(), "router": in.Router().Manager()}
			for mn, mm := range mods {
				// Workers register themselves from their own goroutine: allow them to get scheduled.
				running := false
				for try := 0; try < 500 && !running; try++ {
					running = !mm.WaitForWorkers(time.Millisecond)
					if !running {
						time.Sleep(10 * time.Millisecond)
					}
				}
				if !running {
					fail("module-has-no-workers:"+mn, "router %s: module %s has no running worker after Start", name, mn)
				}
			}
		}
		// Peer.
		t0 := time.Now()
		deadline = time.Now().Add(30 * time.Second)
		linked := false
		for time.Now().Before(deadline) {
			if instA.Peering().GetLink(idB.IP) != nil && instB.Peering().GetLink(idA.IP) != nil {
				linked = true
				break
			}
			time.Sleep(10 * time.Millisecond)
		}
		res.LinkWaitMs = append(res.LinkWaitMs, time.Since(t0).Milliseconds())
		if !linked {
			// Is a link up under a wrong address?
			for _, l := range instA.Peering().GetLinks() {
				fail("peer-address-wrong", "router A has a link to %s, expected %s", l.Peer(), idB.IP)
			}
			if len(res.Violations) == 0 {
				fail("routers-do-not-peer", "the two relay-only routers did not establish a link within 30s (A links %d, B links %d)", instA.Peering().LinkCnt(), instB.Peering().LinkCnt())
			}
		} else {
			// Pong both ways.
			for _, pr := range []struct {
				name string
				in   *mycoria.Instance
				to   *m.Address
			}{{"A", instA, idB}, {"B", instB, idA}} {
				// Observation only (not part of the statement): a pong over the fresh link.
				okPong := false
				for try := 0; try < 3 && !okPong; try++ {
					notify, _, err := pr.in.Router().PingPong.Send(pr.to.IP, true, 0)
					if err != nil {
						continue
					}
					select {
					case <-notify:
						okPong = true
					case <-time.After(3 * time.Second):
					}
				}
				if okPong {
					res.PongOK++
				} else {
					res.PongTimeout++
				}
			}
		}
		// Stop. In flood mode A is stopped while B keeps sending it frames.
		stopFlood := make(chan struct{})
		var floodWG sync.WaitGroup
		var floodSent, floodErrs atomic.Int64
		order := []string{"B", "A"}
		if mode == "flood-stop" && linked {
			order = []string{"A", "B"}
			for g := 0; g < 3; g++ {
				floodWG.Add(1)
				go func() {
					defer floodWG.Done()
					for {
						select {
						case <-stopFlood:
							return
						default:
						}
						if _, _, err := instB.Router().PingPong.Send(idA.IP, true, 0); err != nil {
							floodErrs.Add(1)
							time.Sleep(50 * time.Microsecond)
						} else {
							floodSent.Add(1)
						}
					}
				}()
			}
		}
		if mode == "stop-with-inflight-frame" && linked {
			// A frame from the peer arrives in the gap of the stop sequence after the switch workers
			// have exited and before the peering module is cancelled. The harness performs the first
			// steps of Group.Stop (router, then switch) by hand to hold the router in that gap.
			order = []string{"A", "B"}
			_ = instA.Router().Stop()
			instA.Router().Manager().Cancel()
			instA.Router().Manager().WaitForWorkers(10 * time.Second)
			instA.Switch().Manager().Cancel()
			instA.Switch().Manager().WaitForWorkers(10 * time.Second)
			for k := 0; k < 3; k++ {
				_, _, _ = instB.Router().PingPong.Send(idA.IP, true, 0)
			}
			time.Sleep(50 * time.Millisecond) // let the frames reach A's link reader
		}
		insts := map[string]*mycoria.Instance{"B": instB, "A": instA}
		for oi, name := range order {
			in := insts[name]
			if oi == 1 {
				close(stopFlood)
				floodWG.Wait()
				res.FloodSent += floodSent.Load()
				res.FloodErrs += floodErrs.Load()
			}
			// clients of the local API at the moment of the stop: a connection that has not sent anything yet (a
			// browser's pre-connect), one in the middle of a request line, one idle after a served request
			var apiConns []net.Conn
			if g.api {
				ap := apiA
				if name == "B" {
					ap = apiB
				}
				for k := 0; k < 3; k++ {
					c, err := net.DialTimeout("tcp", fmt.Sprintf("127.0.0.1:%d", ap), time.Second)
					if err != nil {
						break
					}
					switch k {
					case 1:
						_, _ = c.Write([]byte("GET / HTTP/1.1\r\nHost: x"))
					case 2:
						_, _ = c.Write([]byte("GET /nothing-here HTTP/1.1\r\nHost: x\r\n\r\n"))
						_ = c.SetReadDeadline(time.Now().Add(300 * time.Millisecond))
						_, _ = c.Read(make([]byte, 4096))
					}
					apiConns = append(apiConns, c)
				}
				if len(apiConns) > 0 {
					res.APIClientsAtStop += len(apiConns)
				}
			}
			t1 := time.Now()
			var ok bool
			func() {
				defer func() {
					if p := recover(); p != nil {
						fail("stop-panic", "router %s: Stop panicked: %v", name, p)
					}
				}()
				ok = in.Stop()
			}()
			for _, c := range apiConns {
				c.Close()
			}
			res.StopMs = append(res.StopMs, time.Since(t1).Milliseconds())
			if !ok {
				fail("stop-returned-false", "router %s: Stop() returned false", name)
			}
			if mn := workersAfterStop(in); ok && mn != "" {
				fail("worker-left-running:"+mn, "router %s: module %s has running workers after Stop returned success", name, mn)
			}
		}
		// Listener closed?
		if c, err := net.DialTimeout("tcp", fmt.Sprintf("%s:%d", g.loopHost(), portA), 300*time.Millisecond); err == nil {
			c.Close()
			fail("listener-open-after-stop", "router A: listener 127.0.0.1:%d still accepts connections after Stop", portA)
		}
		// Goroutines of the router left?
		var left []string
		for try := 0; try < 100; try++ {
			runtime.GC()
			runtime.Gosched()
			left = mycoriaGoroutines()
			if len(left) == 0 {
				break
			}
			time.Sleep(100 * time.Millisecond)
		}
		res.Goroutines = append(res.Goroutines, runtime.NumGoroutine())
		for _, g := range left {
			first := strings.SplitN(g, "\n", 2)[0]
			fail("goroutine-left-after-stop:"+sigOf(g), "cycle %d: a goroutine of the router is still alive 10s after Stop: %s in %s", cycle, first, sigOf(g))
			if len(res.Violations) > 6 {
				break
			}
		}
		res.Cycles++
		if len(res.Violations) > 0 {
			break
		}
	}
	return emit()
}

var panicRe = regexp.MustCompile(`===== PANIC =====\n([^\n]*)`)

func parallel(n int, fn func(w int)) { core.Parallel(n, fn) }

func run(c *core.Ctx) {
	res := c.Res
	exe, err := os.Executable()
	if err != nil {
		res.Inconcl("os.Executable: %v", err)
		return
	}
	n := c.Q(16, 312)
	maxCycles := c.Q(2, 5)
	par := 16
	prefix := ""
	if c.RaceBuild {
		n = c.Q(6, 60)
		prefix = "race:"
		par = 6
	}
	groupLifecycle(res, core.RNG("c20/lifecycle"), c.Q(3000, 60000)/map[bool]int{false: 1, true: 4}[c.RaceBuild], prefix)
	seed := uint64(core.Seed())
	sem := make(chan struct{}, par)
	var wg sync.WaitGroup
	for i := 0; i < n; i++ {
		wg.Add(1)
		sem <- struct{}{}
		go func(i int) {
			defer func() { <-sem; wg.Done() }()
			cycles := 1 + i%maxCycles
			dir := filepath.Join(c.WorkDir, fmt.Sprintf("c%d", i))
			ctx, cancel := context.WithTimeout(context.Background(), 8*time.Minute)
			defer cancel()
			mode := []string{"normal", "flood-stop", "stop-with-inflight-frame", "immediate", "single-cpu", "lonely-first", "noisy-listener", "survivor"}[i%8]
			if mode == "lonely-first" && cycles < 2 {
				cycles = 2
			}
			cmd := exec.CommandContext(ctx, exe, "child", "c20run", strconv.FormatUint(seed, 10), strconv.Itoa(i), strconv.Itoa(cycles), dir, mode)
			if mode == "single-cpu" {
				// one usable CPU (a 1-vCPU VM, a cpuset): runtime.NumCPU() is 1 in the child
				if ts, err := exec.LookPath("taskset"); err == nil {
					cmd = exec.CommandContext(ctx, ts, "-c", strconv.Itoa(i%runtime.NumCPU()), exe, "child", "c20run", strconv.FormatUint(seed, 10), strconv.Itoa(i), strconv.Itoa(cycles), dir, "normal")
				}
			}
			cmd.Env = append(os.Environ(), "GOTRACEBACK=all")
			if mode == "immediate" {
				cmd.Env = append(cmd.Env, "GOMAXPROCS=1")
			}
			out, err := cmd.CombinedOutput()
			_ = os.RemoveAll(dir)
			text := string(out)
			for attempt := 0; attempt < 3 && strings.Contains(text, "address already in use"); attempt++ {
				// somebody else took a port between the probe and the bind (another process on this machine): that
				// is not a configuration "on free loopback ports" any more - the child is run again on other ports
				res.Count("children_rerun_after_port_collision", 1)
				again := exec.CommandContext(ctx, cmd.Path, cmd.Args[1:]...)
				again.Env = cmd.Env
				out, err = again.CombinedOutput()
				_ = os.RemoveAll(dir)
				text = string(out)
			}
			if strings.Contains(text, "address already in use") {
				res.Count("children_skipped_port_collision", 1)
				return
			}
			var cr childResult
			got := false
			for _, l := range strings.Split(text, "\n") {
				if strings.HasPrefix(l, "C20RESULT ") {
					if json.Unmarshal([]byte(strings.TrimPrefix(l, "C20RESULT ")), &cr) == nil {
						got = true
					}
				}
			}
			wit := map[string]any{"config_index": i, "seed": seed, "cycles": cycles, "case_id": fmt.Sprintf("%d", i)}
			if mm := panicRe.FindStringSubmatch(text); mm != nil {
				wit["output_tail"] = tail(text, 4000)
				res.Violate("worker-panic", fmt.Sprintf("config #%d: a router worker panicked: %s", i, mm[1]), wit)
			}
			if !got {
				if ctx.Err() != nil {
					res.Inconcl("child %d: watchdog fired", i)
					return
				}
				wit["output_tail"] = tail(text, 6000)
				sig := "process-died"
				if strings.Contains(text, "mgr.NewGroup") {
					sig = "process-died:NewGroup"
				}
				res.Violate(sig, fmt.Sprintf("config #%d: the router process died (%v): %s", i, err, firstPanicLine(text)), wit)
				return
			}
			wit["config"] = cr.ConfigDesc
			for _, inc := range cr.Inconcl {
				res.Inconcl("child %d: %s", i, inc)
			}
			for k, v := range cr.Violations {
				res.Violate(cr.Sigs[k], fmt.Sprintf("config #%d (%s): %s", i, cr.ConfigDesc, v), wit)
			}
			if cr.OK && len(cr.Inconcl) == 0 {
				res.Count("routers_started_peered_stopped_cycles", int64(cr.Cycles))
				res.Count("configs_clean", 1)
				res.Count("cycles_mode_"+mode, int64(cr.Cycles))
				res.Count("pong_exchanges_ok", int64(cr.PongOK))
				res.Count("pong_exchanges_timed_out", int64(cr.PongTimeout))
				res.Count("api_client_connections_open_while_stopping", int64(cr.APIClientsAtStop))
				if i < 3 {
					res.Sample(map[string]any{"config": cr.ConfigDesc, "cycles": cr.Cycles, "link_wait_ms": cr.LinkWaitMs, "stop_ms": cr.StopMs, "goroutines_after_cycle": cr.Goroutines})
				}
				res.CaseN(prefix+cr.ConfigHash, true, int64(cr.Cycles))
			}
		}(i)
	}
	wg.Wait()
	res.Assume("free loopback ports are probed before use; a lost port race shows as inconclusive, not as a violation")
	res.Assume("a goroutine with a mycoria frame that is still alive 10s after Stop() is reported as left running")
	res.Require(res.Counter("configs_clean") >= int64(n*7/10) || res.ViolationCount() > 0, "too few configurations completed")
}

func tail(s string, n int) string {
	if len(s) > n {
		return s[len(s)-n:]
	}
	return s
}

func firstPanicLine(s string) string {
	for _, l := range strings.Split(s, "\n") {
		if strings.HasPrefix(l, "panic:") || strings.HasPrefix(l, "fatal error:") {
			return l
		}
	}
	return tail(s, 200)
}
