// Package c09: gossip reach and termination in honest meshes.
package c09

import (
	"fmt"
	"math/rand/v2"
	"net/netip"
	"sort"
	"strings"
	"sync/atomic"
	"sync"
	"time"

	"github.com/fxamacker/cbor/v2"

	"github.com/mycoria/mycoria/frame"
	"github.com/mycoria/mycoria/m"
	"github.com/mycoria/mycoria/router"

	"verifharness/core"
	"verifharness/env"
	"verifharness/vmesh"
)

func init() {
	core.Register(&core.Prop{
		ID:    "C09",
		Level: "exploration",
		Rule: "connected topologies of 2..16 non-stub routers (lines, rings, stars, binary trees, grids, seeded sparse random graphs) x link label size classes x router-info sizes; " +
			"every router announces itself to every peer with the real code; the network is drained FIFO, under seeded random delivery orders and, for 2- and 3-router meshes, under a budgeted exhaustive DFS over all delivery orders; " +
			"at quiescence reach (exact-destination route whose forward labels lead there over the real link registries + label-switched probe) and the flooding clauses are evaluated on the frame log; " +
			"non-trivial = topology with diameter >= 4 or a cycle; distinct by (topology, labels, info size, order hash)",
		Run:              run,
		CrashIsViolation: true,
	})
}

// IdentityPool hands out seeded identities (cached per process).
type idPool struct {
	mu  sync.Mutex
	ids []*m.Address
	r   *rand.Rand
}

func (p *idPool) get(n int) []*m.Address {
	p.mu.Lock()
	defer p.mu.Unlock()
	for len(p.ids) < n {
		p.ids = append(p.ids, env.NewIdentity(p.r, nil))
	}
	out := make([]*m.Address, n)
	copy(out, p.ids[:n])
	return out
}

type annInfo struct {
	origin netip.Addr
	hops   []netip.Addr // outermost (latest signer) first
}

// decodeAnnouncement extracts origin and hop list of an announce frame (nil if not one).
func decodeAnnouncement(data []byte) *annInfo {
	if len(data) < 60 || (data[4] != byte(frame.RouterHopPing) && data[4] != byte(frame.RouterHopPingDeprecated)) {
		return nil
	}
	sw := int(data[48])
	mi := 49 + sw
	if len(data) < mi+2 {
		return nil
	}
	ml := int(data[mi])<<8 | int(data[mi+1])
	apxStart := mi + 2 + ml + 64
	if apxStart > len(data) {
		return nil
	}
	msg := data[mi+2 : mi+2+ml]
	if len(msg) < 3 || !strings.Contains(string(msg[:min(len(msg), 200)]), "announce") {
		return nil
	}
	info := &annInfo{origin: netip.AddrFrom16([16]byte(data[16:32]))}
	apx := data[apxStart:]
	for len(apx) > 64 {
		var att router.AnnouncePingAttachment
		if err := cbor.Unmarshal(apx[:len(apx)-64], &att); err != nil {
			break
		}
		info.hops = append(info.hops, att.Router.IP)
		apx = att.NextAttachment
	}
	return info
}

type runCfg struct {
	topo      *vmesh.Topology
	labels    vmesh.LabelMode
	infoBytes int
	order     string // "fifo", "random:<n>", "dfs"
}

func (rc runCfg) String() string {
	return fmt.Sprintf("%s labels=%d info=%d order=%s", rc.topo.Canon(), rc.labels, rc.infoBytes, rc.order)
}

// checkFlooding evaluates the flooding clauses for one send event.
func checkFlooding(ms *vmesh.Mesh, t *vmesh.Topology, p *vmesh.Packet, seen map[string]bool) (sig, msg string) {
	info := decodeAnnouncement(p.Data)
	if info == nil {
		return "", ""
	}
	o := ms.IndexOf(info.origin)
	path := []int{o}
	for i := len(info.hops) - 1; i >= 0; i-- {
		path = append(path, ms.IndexOf(info.hops[i]))
	}
	path = append(path, p.To)
	desc := fmt.Sprintf("announcement of node %d, hop list %v, sent %d->%d", o, path[1:len(path)-1], p.From, p.To)
	if p.To == o {
		return "announcement-sent-to-origin", desc
	}
	for _, h := range path[1 : len(path)-1] {
		if h == p.To {
			return "announcement-sent-to-hop-list-member", desc
		}
		if h < 0 {
			return "announcement-names-unknown-router", desc
		}
	}
	// the sender must be the outermost signer (or the origin)
	if path[len(path)-2] != p.From {
		return "announcement-sender-not-outermost-signer", desc
	}
	set := map[int]bool{}
	for _, x := range path {
		if set[x] {
			return "announcement-path-not-simple", desc
		}
		set[x] = true
	}
	for i := 0; i+1 < len(path); i++ {
		if !t.Adjacent(path[i], path[i+1]) {
			return "announcement-path-not-in-topology", desc
		}
	}
	k := vmesh.Key(p.Data) + fmt.Sprint(path)
	if seen[k] {
		return "announcement-travelled-path-twice", desc
	}
	seen[k] = true
	return "", ""
}

// checkReach evaluates the reach clause at quiescence.
func checkReach(ms *vmesh.Mesh, t *vmesh.Topology) (sig, msg string, probes int) {
	for a := 0; a < t.N; a++ {
		A := ms.Nodes[a]
		tbl := A.Inst.RouterV.Table()
		for b := 0; b < t.N; b++ {
			if a == b {
				continue
			}
			B := ms.Nodes[b]
			e, isDst := tbl.LookupNearest(B.ID.IP)
			if e == nil || !isDst || e.DstIP != B.ID.IP {
				return "no-exact-route", fmt.Sprintf("node %d has no exact-destination route to node %d (distance %d) after the network drained", a, b, t.BFS(a)[b]), probes
			}
			// Walk the forward labels over the real registries.
			cur := A
			if len(e.Path.Hops) == 0 {
				l := cur.Inst.PeeringV.GetLink(e.NextHop)
				if l == nil || e.NextHop != B.ID.IP {
					return "route-does-not-lead-to-destination", fmt.Sprintf("node %d: path-less route to node %d has next hop %s without a link", a, b, e.NextHop), probes
				}
				continue
			}
			if e.Path.Hops[0].Router != A.ID.IP {
				return "route-does-not-lead-to-destination", fmt.Sprintf("node %d: route to node %d does not start at this router", a, b), probes
			}
			for i := 0; i+1 < len(e.Path.Hops); i++ {
				l := cur.Inst.PeeringV.GetLinkByLabel(e.Path.Hops[i].ForwardLabel)
				if l == nil {
					return "route-does-not-lead-to-destination", fmt.Sprintf("node %d: route to node %d: hop %d (node %d) has no link with forward label %d", a, b, i, cur.Idx, e.Path.Hops[i].ForwardLabel), probes
				}
				if l.Peer() != e.Path.Hops[i+1].Router {
					return "route-does-not-lead-to-destination", fmt.Sprintf("node %d: route to node %d: forward label %d at node %d leads to %s, the route names %s", a, b, e.Path.Hops[i].ForwardLabel, cur.Idx, l.Peer(), e.Path.Hops[i+1].Router), probes
				}
				cur = ms.Nodes[ms.IndexOf(l.Peer())]
			}
			if cur.Idx != b {
				return "route-does-not-lead-to-destination", fmt.Sprintf("node %d: following the route to node %d ends at node %d", a, b, cur.Idx), probes
			}
			// Label-switched probe through the real switches.
			if s, mm := switchedProbe(ms, a, b, e); s != "" {
				return s, mm, probes
			}
			probes++
		}
	}
	return "", "", probes
}

// switchedProbe sends a frame with the route's forward block through the real switches.
func switchedProbe(ms *vmesh.Mesh, a, b int, e *m.RoutingTableEntry) (sig, msg string) {
	if len(e.Path.ForwardBlock) == 0 || len(e.Path.Hops) < 2 {
		return "", ""
	}
	A, B := ms.Nodes[a], ms.Nodes[b]
	block := append([]byte(nil), e.Path.ForwardBlock...)
	first, err := m.NextRotateSwitchBlock(block, 0)
	if err != nil || first == 0 {
		return "probe-block-invalid", fmt.Sprintf("node %d: forward block %x of the route to node %d cannot be rotated at the origin: %v", a, e.Path.ForwardBlock, b, err)
	}
	f, err := A.Inst.BuilderV.NewFrameV1(A.ID.IP, B.ID.IP, frame.SessionData, block, []byte("c09-probe-payload"), nil)
	if err != nil {
		return "probe-build-failed", err.Error()
	}
	data, _ := f.FrameDataWithMargins(0, 0)
	key := vmesh.Key(data)
	escalatedAt := []int{}
	prev := ms.OnEscalate
	ms.OnEscalate = func(node int, d []byte) {
		if vmesh.Key(d) == key {
			escalatedAt = append(escalatedAt, node)
		}
	}
	defer func() { ms.OnEscalate = prev }()
	if err := A.Inst.SwitchV.ForwardByLabel(f, first); err != nil {
		return "probe-lost", fmt.Sprintf("node %d: first label %d of the route to node %d: %v", a, first, b, err)
	}
	ms.Drain(vmesh.FIFO, 200)
	if len(escalatedAt) != 1 || escalatedAt[0] != b {
		return "probe-misdelivered", fmt.Sprintf("label-switched probe %d->%d over forward block %x was escalated at nodes %v", a, b, e.Path.ForwardBlock, escalatedAt)
	}
	return "", ""
}

// oneRun builds the mesh, floods and evaluates. choices (optional) drives a DFS schedule:
// it returns the branching factors seen, for the DFS driver.
func oneRun(res *core.Result, pool *idPool, r *rand.Rand, rc runCfg, choices []int) (branch []int, ok bool) {
	t := rc.topo
	ms, err := vmesh.Build(r, t, pool.get(t.N), vmesh.BuildOpts{Labels: rc.labels, InfoBytes: rc.infoBytes})
	if err != nil {
		res.Inconcl("mesh build: %v", err)
		return nil, false
	}
	wit := func(extra string) map[string]any {
		return map[string]any{"run": rc.String(), "edges": t.Edges, "choices": choices, "detail": extra, "case_id": rc.String()}
	}
	seen := map[string]bool{}
	var floodSig, floodMsg string
	var handlerErrs []string
	ms.OnSend = func(p *vmesh.Packet) {
		if floodSig == "" {
			floodSig, floodMsg = checkFlooding(ms, t, p, seen)
		}
	}
	ms.OnHandled = func(node int, p *vmesh.Packet, swErr, rErr, pErr error) {
		if rErr != nil && len(handlerErrs) < 20 {
			handlerErrs = append(handlerErrs, fmt.Sprintf("node %d: %v", node, rErr))
		}
	}
	var annErr error
	if pv := vmesh.Safely(func() { annErr = ms.AnnounceAll() }); pv != nil {
		res.Violate("announce-panic", fmt.Sprintf("%s: announcing panicked: %v", rc, pv), wit(""))
		return nil, false
	}
	if annErr != nil {
		res.Violate("announce-failed", fmt.Sprintf("%s: %v", rc, annErr), wit(""))
		return nil, false
	}
	// Drain.
	steps := 0
	const maxSteps = 300000
	var orderHash uint64 = 1469598103934665603
	for steps < maxSteps {
		if ms.Pending() == 0 {
			ms.Settle() // forwarding that a handler left to a goroutine of its own
			if ms.Pending() == 0 {
				break
			}
		}
		n := ms.Pending()
		idx := 0
		switch {
		case rc.order == "dfs":
			if steps < len(choices) {
				idx = choices[steps]
			}
			if idx >= n {
				// the re-execution branched differently at this step (announcements carry wall-clock millisecond
				// timestamps, and equal ones are dropped as duplicates): take the last in-flight frame instead
				idx = n - 1
				res.Count("dfs_schedules_diverged_on_replay", 1)
			}
			branch = append(branch, n)
		case strings.HasPrefix(rc.order, "random"):
			idx = r.IntN(n)
		}
		p := ms.Take(idx)
		orderHash = (orderHash ^ uint64(p.From*131+p.To)) * 1099511628211
		ms.Deliver(p)
		steps++
	}
	if ms.Pending() > 0 {
		res.Violate("flooding-does-not-terminate", fmt.Sprintf("%s: %d frames still in flight after %d deliveries", rc, ms.Pending(), steps), wit(""))
		return branch, false
	}
	if len(ms.Panics) > 0 {
		res.Violate("handler-panic", fmt.Sprintf("%s: %v", rc, ms.Panics[0]), wit(""))
		return branch, false
	}
	if floodSig != "" {
		res.Violate(floodSig, fmt.Sprintf("%s: %s", rc, floodMsg), wit(floodMsg))
		return branch, false
	}
	sig, msg, probes := checkReach(ms, t)
	if sig != "" {
		extra := ""
		if len(handlerErrs) > 0 {
			extra = " [handler errors seen: " + strings.Join(handlerErrs[:min(3, len(handlerErrs))], "; ") + "]"
		}
		if ms.LostForMargins > 0 {
			extra += fmt.Sprintf(" [%d frames lacked the link margins]", ms.LostForMargins)
		}
		res.Violate(sig, fmt.Sprintf("%s: %s%s", rc, msg, extra), wit(msg))
		return branch, false
	}
	res.Count("deliveries", int64(steps))
	res.Count("reach_pairs_checked", int64(t.N*(t.N-1)))
	res.Count("switched_probes_delivered", int64(probes))
	res.Case(fmt.Sprintf("%s/%x", rc, orderHash), t.Diameter() >= 4 || t.HasCycle())
	return branch, true
}

// multiRound: a mesh lives through several announcement rounds, and between rounds things change the way they do
// in a running network: measured link latencies move (the delay every relay signs) and new routers join.
// (Links that go down and come back with other labels are not part of it: the statement quantifies over fixed
// topologies, and on the pinned tree third routers keep routes with the old labels - see DESIGN.md 9.6.) After every round (everybody announced, network drained) the reach clauses must hold for the topology
// as it is then - in particular following the forward labels of every route over the links that exist now.
func multiRound(res *core.Result, pool *idPool, r *rand.Rand, t0 *vmesh.Topology, labels vmesh.LabelMode, rounds int) {
	t := &vmesh.Topology{Name: t0.Name + "+changes", N: t0.N, Edges: append([][2]int(nil), t0.Edges...)}
	ids := pool.get(t.N + 2)
	ms, err := vmesh.Build(r, t, ids[:t.N], vmesh.BuildOpts{Labels: labels})
	if err != nil {
		res.Inconcl("mesh build: %v", err)
		return
	}
	desc := fmt.Sprintf("%s labels=%d rounds=%d", t0.Canon(), labels, rounds)
	var history []string
	wit := func() map[string]any {
		return map[string]any{"run": desc, "history": history, "case_id": "multi-round/" + desc}
	}
	nextLabel := m.SwitchLabel(20000)
	joined := 0
	for round := 0; round < rounds; round++ {
		if round > 0 {
			// latencies: each link gets a new value with probability 1/2; one link moves monotonically down and
			// then up again (a route that keeps getting better, then worse)
			for k, e := range t.Edges {
				if k == 0 {
					lat := uint16(max(5, 50-10*round))
					if round == rounds-1 {
						lat = 60
					}
					ms.SetLatency(e[0], e[1], lat, lat)
					history = append(history, fmt.Sprintf("round %d: latency %d-%d = %d", round+1, e[0], e[1], lat))
				} else if r.IntN(2) == 0 {
					a, b := uint16(1+r.IntN(80)), uint16(1+r.IntN(80))
					ms.SetLatency(e[0], e[1], a, b)
				}
			}
			// a router joins
			if round >= 2 && joined < 2 && r.IntN(2) == 0 {
				at := r.IntN(t.N)
				if _, err := ms.AddNode(ids[t0.N+joined], vmesh.NodeOpts{}); err != nil {
					res.Inconcl("join: %v", err)
					return
				}
				nextLabel += 2
				if err := ms.Connect(at, t.N, nextLabel, nextLabel+1); err != nil {
					res.Inconcl("join connect: %v", err)
					return
				}
				t.Edges = append(t.Edges, [2]int{at, t.N})
				history = append(history, fmt.Sprintf("round %d: node %d joined at node %d", round+1, t.N, at))
				t.N++
				joined++
			}
			time.Sleep(2 * time.Millisecond) // a later announcement time
		}
		if err := ms.Converge(r, round%2 == 1); err != nil {
			res.Violate("flooding-does-not-terminate", fmt.Sprintf("%s: round %d: %v", desc, round+1, err), wit())
			return
		}
		if len(ms.Panics) > 0 {
			res.Violate("handler-panic", fmt.Sprintf("%s: round %d: %v", desc, round+1, ms.Panics[0]), wit())
			return
		}
		if sig, msg, _ := checkReach(ms, t); sig != "" {
			res.Violate(sig+":after-changes", fmt.Sprintf("%s: after round %d (%s): %s", desc, round+1, strings.Join(history, "; "), msg), wit())
			return
		}
		res.Count("multi_round_rounds_checked", 1)
	}
	res.Count("multi_round_runs", 1)
	res.Case("multi-round/"+desc+"/"+strings.Join(history, ";"), true)
}

// forwardLoopChurn: a router's link set changes while one of its workers is in the middle of forwarding an
// announcement (links come and go on other goroutines; here the change is made from inside a link's Send, i.e.
// exactly between two iterations of the forwarding loop). Whatever happens to the link that changed, every peer
// whose link was there before and after the handling of that frame - and that is not the origin, the peer the
// frame came from, or named in its hop list - must get the forwarded announcement exactly once.
func forwardLoopChurn(res *core.Result, pool *idPool, r *rand.Rand, leaves int, addLink bool) {
	t := vmesh.Star(leaves + 1)
	ids := pool.get(t.N + 1)
	ms, err := vmesh.Build(r, t, ids[:t.N], vmesh.BuildOpts{Labels: vmesh.LabelMode(r.IntN(3))})
	if err != nil {
		res.Inconcl("mesh build: %v", err)
		return
	}
	hub := 0
	for i := 0; i < t.N; i++ {
		if len(ms.Nodes[i].Links) > len(ms.Nodes[hub].Links) {
			hub = i
		}
	}
	if err := ms.Converge(r, false); err != nil {
		res.Inconcl("converge: %v", err)
		return
	}
	time.Sleep(2 * time.Millisecond)
	desc := fmt.Sprintf("star with %d leaves, hub node %d, link %s during a forward", leaves, hub, map[bool]string{true: "added", false: "removed"}[addLink])
	armed := true
	change := ""
	ms.OnLinkSend = func(l *vmesh.VLink, data []byte) {
		if !armed || l.FromIdx() != hub {
			return
		}
		info := decodeAnnouncement(data)
		if info == nil || info.origin == ms.Nodes[hub].ID.IP {
			return
		}
		armed = false
		if addLink {
			if _, err := ms.AddNode(ids[t.N], vmesh.NodeOpts{}); err == nil {
				_ = ms.Connect(hub, len(ms.Nodes)-1, 30001, 30002)
				change = fmt.Sprintf("node %d linked to the hub while the hub was sending to node %d", len(ms.Nodes)-1, l.ToIdx())
			}
			return
		}
		// remove the link to some other leaf (not the one being sent to, not the origin's)
		var cands []int
		for x := range ms.Nodes[hub].Links {
			if x != l.ToIdx() && ms.Nodes[x].ID.IP != info.origin {
				cands = append(cands, x)
			}
		}
		if len(cands) == 0 {
			return
		}
		sort.Ints(cands)
		x := cands[r.IntN(len(cands))]
		ms.Disconnect(hub, x)
		change = fmt.Sprintf("link hub-%d went down while the hub was sending to node %d", x, l.ToIdx())
	}
	var sends []*vmesh.Packet
	ms.OnSend = func(p *vmesh.Packet) {
		if p.From == hub {
			sends = append(sends, p)
		}
	}
	if err := ms.AnnounceAll(); err != nil {
		res.Inconcl("announce: %v", err)
		return
	}
	linkSet := func() map[int]bool {
		out := map[int]bool{}
		for _, l := range ms.Nodes[hub].Inst.PeeringV.GetLinks() {
			out[ms.IndexOf(l.Peer())] = true
		}
		return out
	}
	for steps := 0; ms.Pending() > 0 && steps < 100000; steps++ {
		p := ms.Take(0)
		if p.To != hub {
			ms.Deliver(p)
			continue
		}
		info := decodeAnnouncement(p.Data)
		before := linkSet()
		sends = sends[:0]
		ms.Deliver(p)
		if info == nil {
			continue
		}
		after := linkSet()
		key := vmesh.Key(p.Data)
		got := map[int]int{}
		total := 0
		for _, sp := range sends {
			if vmesh.Key(sp.Data) == key && decodeAnnouncement(sp.Data) != nil {
				got[sp.To]++
				total++
			}
		}
		if total == 0 {
			continue // not forwarded at all (not added): nothing to cover
		}
		named := map[int]bool{ms.IndexOf(info.origin): true, p.From: true}
		for _, h := range info.hops {
			named[ms.IndexOf(h)] = true
		}
		wit := map[string]any{"run": desc, "change": change, "case_id": "forward-loop-churn"}
		for x := range before {
			if !after[x] || named[x] {
				continue
			}
			if got[x] == 0 {
				res.Violate("announcement-forward-skipped-a-peer", fmt.Sprintf("%s: the hub forwarded the announcement of node %d to %d peer(s) but not to node %d, whose link was up before and after (%s)", desc, ms.IndexOf(info.origin), total, x, orNone(change)), wit)
				return
			}
			if got[x] > 1 {
				res.Violate("announcement-forwarded-twice-to-a-peer", fmt.Sprintf("%s: the hub sent the announcement of node %d %d times to node %d while handling it once (%s)", desc, ms.IndexOf(info.origin), got[x], x, orNone(change)), wit)
				return
			}
		}
		res.Count("forward_fanouts_checked", 1)
	}
	if len(ms.Panics) > 0 {
		res.Violate("handler-panic", fmt.Sprintf("%s: %v", desc, ms.Panics[0]), nil)
		return
	}
	if change != "" {
		res.Count("forward_loops_with_link_change", 1)
	}
	res.Case("forward-loop-churn/"+desc, change != "")
}

// overlappedHandling: a router runs one frame handler per CPU, so two announcements that reach a router at about the
// same time are handled at the same time. Here a second announcement waiting for router n is handled at the moment a
// worker of n hands a forwarded copy of the first one to a link (inside the link's Send - an existing suspension
// point; the second handling runs on another goroutine and the first one waits for it, bounded). Which announcements
// overlap is seeded. When the network has drained the usual reach oracle applies: the delivery order and the overlap
// of handlings are part of "all schedules".
func overlappedHandling(res *core.Result, pool *idPool, r *rand.Rand, t *vmesh.Topology) {
	ms, err := vmesh.Build(r, t, pool.get(t.N), vmesh.BuildOpts{Labels: vmesh.LabelMode(r.IntN(3))})
	if err != nil {
		res.Inconcl("mesh build: %v", err)
		return
	}
	desc := t.Canon() + " overlapped-handlings"
	var inside atomic.Bool
	overlaps := 0
	ms.OnLinkSend = func(l *vmesh.VLink, data []byte) {
		if core.FromForeignGoroutine() {
			return // a tree that hands frames to its links from a worker of its own: that worker is not the handler
		}
		if decodeAnnouncement(data) == nil || r.IntN(2) == 0 || !inside.CompareAndSwap(false, true) {
			return
		}
		defer inside.Store(false)
		n := l.FromIdx()
		var p *vmesh.Packet
		for i, q := range ms.InFlight {
			if q.To == n && vmesh.Key(q.Data) != vmesh.Key(data) && decodeAnnouncement(q.Data) != nil {
				p = ms.Take(i)
				break
			}
		}
		if p == nil {
			return
		}
		overlaps++
		done := core.OnHelper(func() { ms.Deliver(p) })
		select {
		case <-done:
		case <-time.After(10 * time.Millisecond):
			<-done // a tree that serialises its handlers: the second one ran after the first
		}
	}
	if err := ms.AnnounceAll(); err != nil {
		res.Inconcl("announce: %v", err)
		return
	}
	if _, drained := ms.Drain(vmesh.FIFO, 400000); !drained {
		res.Violate("flooding-does-not-terminate:overlapped", desc+": the network did not drain", map[string]any{"case_id": "overlapped"})
		return
	}
	ms.OnLinkSend = nil
	if len(ms.Panics) > 0 {
		res.Violate("handler-panic", fmt.Sprintf("%s: %v", desc, ms.Panics[0]), nil)
		return
	}
	if sig, msg, _ := checkReach(ms, t); sig != "" {
		res.Violate(sig+":overlapped-handlings", fmt.Sprintf("%s (%d announcements were handled by a router while it was forwarding another one): %s", desc, overlaps, msg), map[string]any{"case_id": "overlapped", "topology": t.Canon()})
		return
	}
	res.Count("overlapped_handling_runs", 1)
	res.Count("announcements_handled_while_another_was_being_forwarded", int64(overlaps))
	res.Case("overlapped/"+desc+fmt.Sprintf("/%d", overlaps), overlaps > 0)
}

func orNone(s string) string {
	if s == "" {
		return "no link changed during this handling"
	}
	return s
}

// dfs explores all delivery orders of a tiny mesh up to a schedule budget.
func dfs(res *core.Result, pool *idPool, r *rand.Rand, rc runCfg, budget int) {
	rc.order = "dfs"
	var choices []int
	count := 0
	exhausted := false
	for count < budget {
		branch, ok := oneRun(res, pool, r, rc, choices)
		count++
		if !ok {
			return
		}
		// next schedule: increment the last choice that can be incremented
		full := make([]int, len(branch))
		copy(full, choices)
		i := len(branch) - 1
		for i >= 0 {
			if full[i]+1 < branch[i] {
				break
			}
			i--
		}
		if i < 0 {
			exhausted = true
			break
		}
		choices = append(append([]int{}, full[:i]...), full[i]+1)
	}
	res.Count("dfs_schedules", int64(count))
	if exhausted {
		res.Count("dfs_meshes_exhausted", 1)
	} else {
		res.Count("dfs_meshes_budget_reached", 1)
	}
}

func parallel(n int, fn func(w int)) { core.Parallel(n, fn) }

func topologies(r *rand.Rand, n int) []*vmesh.Topology {
	out := []*vmesh.Topology{
		vmesh.Line(2), vmesh.Line(3), vmesh.Line(5), vmesh.Line(6), vmesh.Line(8), vmesh.Line(12), vmesh.Line(16),
		vmesh.Ring(3), vmesh.Ring(4), vmesh.Ring(7), vmesh.Ring(12), vmesh.Ring(16),
		vmesh.Star(4), vmesh.Star(9), vmesh.Star(16),
		vmesh.Tree(7), vmesh.Tree(12), vmesh.Tree(16),
		vmesh.Grid(2, 2), vmesh.Grid(3, 3), vmesh.Grid(4, 3), vmesh.Grid(4, 4), vmesh.Grid(8, 2),
	}
	for len(out) < n {
		out = append(out, vmesh.RandomSparse(r, 2+r.IntN(15)))
	}
	return out[:n]
}

// limitSweep: router infos growing byte by byte up to the largest announcement a frame can carry (a 10000-byte
// message). Every size whose message fits must be announced and must reach the other end of a line of three; the
// first size that is refused must be one whose message would really exceed 10000 bytes.
func limitSweep(res *core.Result, pool *idPool, r *rand.Rand, from, to int) {
	t := vmesh.Line(3)
	prevLen, prevOK := 0, false
	for s := from; s <= to; s++ {
		ms, err := vmesh.Build(r, t, pool.get(3), vmesh.BuildOpts{Labels: vmesh.LabelMode(1), InfoBytes: s})
		if err != nil {
			res.Inconcl("mesh build: %v", err)
			return
		}
		msgLen := 0
		ms.OnSend = func(p *vmesh.Packet) {
			if p.From == 0 && len(p.Data) > 52 && (p.Data[4] == byte(frame.RouterHopPing) || p.Data[4] == byte(frame.RouterHopPingDeprecated)) {
				mi := 49 + int(p.Data[48])
				msgLen = int(p.Data[mi])<<8 | int(p.Data[mi+1])
			}
		}
		var sendErr error
		if pv := vmesh.Safely(func() {
			for _, l := range ms.Nodes[0].Inst.PeeringV.GetLinks() {
				if err := ms.Nodes[0].Inst.RouterV.AnnouncePing.Send(l.Peer()); err != nil {
					sendErr = err
				}
			}
		}); pv != nil {
			res.Violate("announce-panic", fmt.Sprintf("line of 3, router info %d bytes: announcing panicked: %v", s, pv), map[string]any{"info": s, "case_id": fmt.Sprintf("limit|%d", s)})
			return
		}
		wit := map[string]any{"info": s, "previous_message_len": prevLen, "case_id": fmt.Sprintf("limit|%d", s)}
		if sendErr != nil || msgLen == 0 {
			// refused: legitimate only if the message would exceed 10000 bytes. One more info byte makes the message
			// one byte longer unless it starts a new 200-byte string or pushes a string length over a CBOR header step.
			if prevOK && prevLen < 10000 && s%200 != 1 && s%200 != 24 && s%200 != 0 {
				res.Violate("legal-announcement-refused", fmt.Sprintf("a router whose info is one byte bigger than one that announced itself with a %d-byte message (limit 10000) cannot announce itself: %v", prevLen, sendErr), wit)
				return
			}
			res.Count("limit_sweep_sizes_refused", 1)
			prevOK = false
			continue
		}
		ms.Drain(vmesh.FIFO, 200)
		if len(ms.Panics) > 0 {
			res.Violate("handler-panic", fmt.Sprintf("line of 3, router info %d bytes: %v", s, ms.Panics[0]), wit)
			return
		}
		has := false
		for _, e := range ms.Nodes[2].Inst.RouterV.Table().VerifEntries() {
			if e.DstIP == ms.Nodes[0].ID.IP {
				has = true
			}
		}
		if !has {
			res.Violate("no-exact-route:limit-sweep", fmt.Sprintf("line of 3: router 0 announced itself with a %d-byte message (info %d bytes), but router 2 has no route to it after the network drained", msgLen, s), wit)
			return
		}
		prevLen, prevOK = msgLen, true
		res.Count("limit_sweep_sizes_reached", 1)
		if msgLen == 10000 {
			res.Count("limit_sweep_exactly_10000", 1)
		}
		res.Case(fmt.Sprintf("limit|%d", msgLen), true)
	}
}

func run(c *core.Ctx) {
	res := c.Res
	const W = 16
	rTop := core.RNG("c09/topologies")
	topos := topologies(rTop, c.Q(40, 1500))
	orders := c.Q(4, 20)
	type job struct {
		rc runCfg
	}
	var jobs []job
	for i, t := range topos {
		labels := vmesh.LabelMode(i % 3)
		info := []int{0, 0, 300, 1500}[i%4]
		jobs = append(jobs, job{runCfg{t, labels, info, "fifo"}})
		for k := 0; k < orders; k++ {
			jobs = append(jobs, job{runCfg{t, labels, info, fmt.Sprintf("random:%d", k)}})
		}
	}
	// sweep of router-info sizes on a line: forwarded announcements cross every pooled size class byte by byte
	for pad := 0; pad < c.Q(200, 1500); pad++ {
		jobs = append(jobs, job{runCfg{vmesh.Line(6), vmesh.LabelMode(pad % 3), pad, "fifo"}})
	}
	// big router infos (announcement frames in the largest regular buffer class) through routers that forward
	// on several links: stars and small trees
	for i, sz := range []int{8800, 9000, 9100, 9200, 9250, 9300, 9350, 9400} {
		jobs = append(jobs, job{runCfg{[]*vmesh.Topology{vmesh.Star(5), vmesh.Tree(7), vmesh.Star(4)}[i%3], vmesh.LabelMode(i % 3), sz, "fifo"}})
	}
	parallel(W, func(w int) {
		r := core.RNG(fmt.Sprintf("c09/worker/%d", w))
		pool := &idPool{r: core.RNG(fmt.Sprintf("c09/ids/%d", w))}
		for i := w; i < len(jobs); i += W {
			oneRun(res, pool, r, jobs[i].rc, nil)
		}
	})
	// meshes that live through several rounds with changes in between
	mr := []*vmesh.Topology{vmesh.Line(3), vmesh.Line(5), vmesh.Ring(4), vmesh.Star(4), vmesh.Tree(7), vmesh.Grid(2, 3), vmesh.Line(4), vmesh.Ring(6)}
	parallel(len(mr), func(w int) {
		r := core.RNG(fmt.Sprintf("c09/multiround/%d", w))
		pool := &idPool{r: core.RNG(fmt.Sprintf("c09/mrids/%d", w))}
		for i := 0; i < c.Q(2, 20); i++ {
			multiRound(res, pool, r, mr[w], vmesh.LabelMode((w+i)%3), 5+i%2)
		}
	})
	// link sets that change in the middle of a forwarding loop
	parallel(4, func(w int) {
		r := core.RNG(fmt.Sprintf("c09/fwdchurn/%d", w))
		pool := &idPool{r: core.RNG(fmt.Sprintf("c09/fcids/%d", w))}
		for i := 0; i < c.Q(6, 60); i++ {
			forwardLoopChurn(res, pool, r, 3+(w+i)%5, i%2 == 1)
		}
	})
	res.Require(res.Counter("forward_loops_with_link_change") >= 8 || res.ViolationCount() > 0, "too few forwarding loops with a link change in the middle")
	// two announcements handled by one router at the same time
	parallel(4, func(w int) {
		r := core.RNG(fmt.Sprintf("c09/overlap/%d", w))
		pool := &idPool{r: core.RNG(fmt.Sprintf("c09/ovids/%d", w))}
		for i := 0; i < c.Q(6, 80); i++ {
			var t *vmesh.Topology
			switch (w + i) % 4 {
			case 0:
				t = vmesh.Star(4 + r.IntN(5))
			case 1:
				t = vmesh.Tree(5 + r.IntN(8))
			case 2:
				t = vmesh.Ring(4 + r.IntN(5))
			default:
				t = vmesh.RandomSparse(r, 5+r.IntN(7))
			}
			overlappedHandling(res, pool, r, t)
		}
	})
	res.Require(res.Counter("announcements_handled_while_another_was_being_forwarded") >= 50 || res.ViolationCount() > 0 || core.AsyncTree.Load(), "fewer than 50 overlapping handlings of announcements at one router")
	// the largest announcements a frame can carry
	parallel(4, func(w int) {
		lo := 9700 + w*45
		limitSweep(res, &idPool{r: core.RNG(fmt.Sprintf("c09/limitids/%d", w))}, core.RNG(fmt.Sprintf("c09/limit/%d", w)), lo, lo+46)
	})
	// Budgeted exhaustive exploration of delivery orders for tiny meshes.
	tiny := []*vmesh.Topology{vmesh.Line(2), vmesh.Line(3), vmesh.Ring(3)}
	budget := c.Q(1500, 60000)
	parallel(len(tiny)*2, func(w int) {
		r := core.RNG(fmt.Sprintf("c09/dfs/%d", w))
		pool := &idPool{r: core.RNG(fmt.Sprintf("c09/dfsids/%d", w))}
		dfs(res, pool, r, runCfg{topo: tiny[w%len(tiny)], labels: vmesh.LabelMode(w / len(tiny)), infoBytes: 0}, budget)
	})
	res.Sample(map[string]any{"topology": "line of 16", "labels": "2-byte", "router_info_bytes": 1500, "order": "seeded random"})
	res.Sample(map[string]any{"topology": "grid4x4", "labels": "mixed", "order": "fifo"})
	res.Sample(map[string]any{"topology": "ring of 3", "order": "exhaustive DFS over delivery orders (budgeted)"})
	res.Assume("links are lossless and routers honest; the harness owns the delivery order (single-threaded), so quiescence is a fact")
	res.Assume("a variant of an announcement that loses the per-origin timestamp race at some router is legitimately dropped there; reach is asserted on routing tables")
	res.Require(res.Counter("reach_pairs_checked") >= 1000, "too few (A,B) pairs checked")
}
