// Package c18: stored router and mapping state survives crashes and
// round-trips exactly.
package c18

import (
	"encoding/hex"
	"fmt"
	"github.com/mycoria/mycoria"
	"github.com/mycoria/mycoria/config"
	"math/rand/v2"
	"net"
	"net/netip"
	"os"
	"os/exec"
	"path/filepath"
	"regexp"
	"runtime"
	"sort"
	"strconv"
	"strings"
	"sync"
	"sync/atomic"
	"syscall"
	"time"
	"verifharness/env"

	"github.com/mycoria/crop"
	"github.com/mycoria/mycoria/m"
	"github.com/mycoria/mycoria/storage"

	"verifharness/core"
)

func init() {
	// The save child keeps its main goroutine on the main thread, so that strace's
	// per-thread "when=N" counter addresses its file syscalls deterministically.
	if len(os.Args) > 2 && os.Args[1] == "child" && strings.HasPrefix(os.Args[2], "c18") {
		runtime.LockOSThread()
	}
	core.RegisterChild("c18save", childSave)
	core.RegisterChild("c18inst", childInstance)
	core.Register(&core.Prop{
		ID:    "C18",
		Level: "fault_enumeration",
		Rule: "pairs of states (S0 on disk or no file, S1 installed through the storage API; 0..200 routers/mappings with unicode, empty and long fields); a child process runs the real JSONFileStorage.Stop and is killed " +
			"(a) with exactly k bytes of the file being written on disk (RLIMIT_FSIZE=k + SIGKILL at the entry of the next file syscall) for k over 0..len, " +
			"(b) at the entry of every file-mutating syscall of the save (strace inject SIGKILL when=N), (c) with ENOSPC/EIO on every write; afterwards a fresh load must succeed and equal S0 or S1 exactly; " +
			"non-trivial = crash strictly inside the save (something of it already on disk); distinct by (state pair, mechanism, k or syscall ordinal)",
		Run: run,
	})
}

const traceSet = "openat,write,pwrite64,writev,fsync,fdatasync,rename,renameat,renameat2,unlink,unlinkat,ftruncate,fchmod,fchmodat,fchown,link,linkat,close"
const marker = "/verif-c18-marker-begin-save"

// ---- state generation

var stringPool = []string{"", "a", "test", "Universe-Ä", "日本語のテキスト", "emoji 😀 ok", "tab\tnew\nline", "quote\"back\\slash", "<html>&amp;", "null", " lead trail ", "  ", "x\u0000y"}

func randString(r *rand.Rand) string {
	switch r.IntN(12) {
	case 0:
		long := strings.Repeat("long-"+stringPool[r.IntN(len(stringPool))], 1+r.IntN(2000))
		return long[:min(len(long), 10000)]
	default:
		return stringPool[r.IntN(len(stringPool))]
	}
}

func validUTF8Prefix(s string) string {
	// cut at a rune boundary
	for len(s) > 0 && !strings.HasPrefix(strings.ToValidUTF8(s, "\xff"), s) {
		s = s[:len(s)-1]
	}
	return strings.ToValidUTF8(s, "")
}

func randTime(r *rand.Rand) time.Time {
	switch r.IntN(6) {
	case 0:
		return time.Time{}
	case 1:
		return time.Unix(int64(r.IntN(2000000000)), int64(r.IntN(1000000000))).UTC()
	case 2:
		return time.Unix(int64(r.IntN(2000000000)), 0).In(time.FixedZone("x", 3600*(r.IntN(24)-12)))
	default:
		return time.Unix(1700000000+int64(r.IntN(100000000)), int64(r.IntN(1000000000)))
	}
}

type genState struct {
	routers  []*storage.StoredRouter
	mappings map[string]netip.Addr
}

func genAddr(r *rand.Rand) netip.Addr {
	var a [16]byte
	copy(a[:], core.RandBytes(r, 16))
	a[0] = 0xfd
	return netip.AddrFrom16(a)
}

func generate(seed uint64, size int) *genState {
	r := rand.New(rand.NewPCG(seed, 0xC18))
	gs := &genState{mappings: map[string]netip.Addr{}}
	seen := map[netip.Addr]bool{}
	for i := 0; i < size; i++ {
		ip := genAddr(r)
		if seen[ip] {
			continue
		}
		seen[ip] = true
		sr := &storage.StoredRouter{
			Address: &m.PublicAddress{
				IP: ip, Hash: crop.Hash([]string{"BLAKE3", "SHA2_256", "SHA3_512"}[r.IntN(3)]), Type: crop.KeyPairTypeEd25519,
				PublicKey: core.RandBytes(r, 32), Easing: []uint64{0, 0, 1, 50, 1 << 60}[r.IntN(5)],
			},
			Universe:  validUTF8Prefix(randString(r)),
			Offline:   r.IntN(3) == 0,
			CreatedAt: randTime(r),
			UpdatedAt: randTime(r),
		}
		if r.IntN(3) > 0 {
			t := randTime(r)
			sr.UsedAt = &t
		}
		switch r.IntN(4) {
		case 0: // nil info
		case 1:
			sr.PublicInfo = &m.RouterInfo{}
		default:
			info := &m.RouterInfo{Version: validUTF8Prefix(randString(r))}
			for k := r.IntN(4); k > 0; k-- {
				info.Listeners = append(info.Listeners, validUTF8Prefix(randString(r)))
			}
			for k := r.IntN(3); k > 0; k-- {
				info.IANA = append(info.IANA, validUTF8Prefix(randString(r)))
			}
			for k := r.IntN(3); k > 0; k-- {
				info.PublicServices = append(info.PublicServices, m.RouterService{
					Name: validUTF8Prefix(randString(r)), Description: validUTF8Prefix(randString(r)), Domain: validUTF8Prefix(randString(r)), URL: validUTF8Prefix(randString(r)),
				})
			}
			sr.PublicInfo = info
		}
		gs.routers = append(gs.routers, sr)
	}
	nm := size / 2
	if size > 0 && r.IntN(2) == 0 {
		nm = r.IntN(size + 1)
	}
	labels := []string{"alice", "bob", "nas", "xn--bcher-kva", "a.b", "printer", "x-y_z"}
	for i := 0; i < nm; i++ {
		d := fmt.Sprintf("%s%d.myco", labels[r.IntN(len(labels))], r.IntN(100000))
		gs.mappings[d] = genAddr(r)
	}
	return gs
}

// install turns the storage content into gs through the storage API, the way a running router does: only what
// differs is deleted or saved (a state that already equals gs sees no modifying call at all).
func install(st *storage.JSONFileStorage, gs *genState) error {
	want := map[netip.Addr]bool{}
	for _, sr := range gs.routers {
		want[sr.Address.IP] = true
	}
	for _, ip := range haveRouters(st) {
		if !want[ip] {
			if err := st.DeleteRouter(ip); err != nil {
				return err
			}
		}
	}
	maps, err := st.QueryMappings("")
	if err != nil {
		return err
	}
	haveMap := map[string]netip.Addr{}
	for _, mp := range maps {
		if _, ok := gs.mappings[mp.Domain]; !ok {
			if err := st.DeleteMapping(mp.Domain); err != nil {
				return err
			}
			continue
		}
		haveMap[mp.Domain] = mp.Router
	}
	for _, sr := range gs.routers {
		cp := *sr
		if err := st.SaveRouter(&cp); err != nil {
			return err
		}
	}
	for d, ip := range gs.mappings {
		if haveMap[d] == ip {
			continue
		}
		if err := st.SaveMapping(d, ip); err != nil {
			return err
		}
	}
	return nil
}

func haveRouters(st *storage.JSONFileStorage) []netip.Addr {
	var ips []netip.Addr
	q := storage.NewRouterQuery(func(a *storage.StoredRouter) bool {
		ips = append(ips, a.Address.IP)
		return false
	}, nil, 1)
	_ = st.QueryRouters(q)
	return ips
}

func tstr(t time.Time) string {
	if t.IsZero() {
		return "zero"
	}
	return strconv.FormatInt(t.UnixNano(), 10)
}

// dump is the canonical content of a storage (what a reload must reproduce).
func dump(st *storage.JSONFileStorage) string {
	var lines []string
	q := storage.NewRouterQuery(func(a *storage.StoredRouter) bool {
		var b strings.Builder
		if a.Address == nil {
			b.WriteString("R|<nil address>")
		} else {
			fmt.Fprintf(&b, "R|%s|%s|%s|%s|%d", a.Address.IP, a.Address.Hash, a.Address.Type, hex.EncodeToString(a.Address.PublicKey), a.Address.Easing)
		}
		fmt.Fprintf(&b, "|u=%q|off=%v|c=%s|u=%s|", a.Universe, a.Offline, tstr(a.CreatedAt), tstr(a.UpdatedAt))
		if a.UsedAt == nil {
			b.WriteString("used=nil")
		} else {
			b.WriteString("used=" + tstr(*a.UsedAt))
		}
		if a.PublicInfo == nil {
			b.WriteString("|info=nil")
		} else {
			fmt.Fprintf(&b, "|info=v%q|l%q|i%q|", a.PublicInfo.Version, a.PublicInfo.Listeners, a.PublicInfo.IANA)
			for _, s := range a.PublicInfo.PublicServices {
				fmt.Fprintf(&b, "svc(%q,%q,%q,%q)", s.Name, s.Description, s.Domain, s.URL)
			}
		}
		lines = append(lines, b.String())
		return false
	}, nil, 1)
	_ = st.QueryRouters(q)
	maps, _ := st.QueryMappings("")
	for _, mp := range maps {
		lines = append(lines, fmt.Sprintf("M|%s|%s|%s", mp.Domain, mp.Router, tstr(mp.Created)))
	}
	sort.Strings(lines)
	return strings.Join(lines, "\n")
}

// childSave: vcheck child c18save <statefile> <seed> <size> <fsize|-1> <dumpfile>
func childSave(args []string) int {
	if len(args) < 5 {
		return 3
	}
	path := args[0]
	seed, _ := strconv.ParseUint(args[1], 10, 64)
	size, _ := strconv.Atoi(args[2])
	fsize, _ := strconv.ParseInt(args[3], 10, 64)
	st, err := storage.NewJSONFileStorage(path)
	if err != nil {
		fmt.Fprintln(os.Stderr, "load:", err)
		return 5
	}
	if err := install(st, generate(seed, size)); err != nil {
		fmt.Fprintln(os.Stderr, "install:", err)
		return 6
	}
	if err := os.WriteFile(args[4], []byte(dump(st)), 0o644); err != nil {
		return 6
	}
	if fsize >= 0 {
		lim := syscall.Rlimit{Cur: uint64(fsize), Max: uint64(fsize)}
		if err := syscall.Setrlimit(syscall.RLIMIT_FSIZE, &lim); err != nil {
			return 6
		}
	}
	// Marker: everything after this openat belongs to the save.
	if f, err := os.Open(marker); err == nil {
		f.Close()
	}
	if err := st.Stop(); err != nil {
		return 7
	}
	return 0
}

// childInstance: vcheck child c18inst <statefile> <seed> <size> <how> <dumpfile> <port>
// A whole relay-only router runs on the state file (mycoria.New + Start, the way the state file is really used),
// the new state is installed through the instance's storage, and then the process dies:
//
//	how = "kill-before-stop": SIGKILL before the shutdown begins (a crash at byte offset 0 of the save)
//	how = "fsize:<k>":        shutdown with RLIMIT_FSIZE=k (the save is cut after k bytes), then exit
//	how = "clean":            clean shutdown
func childInstance(args []string) int {
	if len(args) < 6 {
		return 3
	}
	path := args[0]
	seed, _ := strconv.ParseUint(args[1], 10, 64)
	size, _ := strconv.Atoi(args[2])
	how := args[3]
	r := rand.New(rand.NewPCG(seed, 0xC181))
	id := env.NewIdentity(r, nil)
	cfg, err := config.Store{
		Router: config.Router{Address: id.Store(), Listen: []string{"tcp://127.0.0.1:" + args[5]}},
		System: config.System{DisableTun: true, StatePath: path},
	}.Parse()
	if err != nil {
		fmt.Fprintln(os.Stderr, "config:", err)
		return 4
	}
	inst, err := mycoria.New("v0.0.0-verif", cfg)
	if err != nil {
		fmt.Fprintln(os.Stderr, "new:", err)
		return 5 // the router refuses to start on this state file
	}
	if err := inst.Start(); err != nil {
		fmt.Fprintln(os.Stderr, "start:", err)
		return 5
	}
	st, ok := inst.Storage().(*storage.JSONFileStorage)
	if !ok {
		return 6
	}
	if err := install(st, generate(seed, size)); err != nil {
		return 6
	}
	if err := os.WriteFile(args[4], []byte(dump(st)), 0o644); err != nil {
		return 6
	}
	switch {
	case how == "kill-before-stop":
		_ = syscall.Kill(os.Getpid(), syscall.SIGKILL)
		time.Sleep(10 * time.Second)
		return 7
	case strings.HasPrefix(how, "fsize:"):
		k, _ := strconv.ParseUint(how[6:], 10, 64)
		lim := syscall.Rlimit{Cur: k, Max: k}
		if err := syscall.Setrlimit(syscall.RLIMIT_FSIZE, &lim); err != nil {
			return 6
		}
	}
	inst.Stop()
	return 0
}

// instanceCases: the crash experiments of pairCase, on a whole router process (see childInstance).
func (rn *runner) instanceCases(workDir string, seedBase uint64) {
	res := rn.res
	type ic struct {
		s0size int // -1: no state file yet (first run of this router)
		how    string
	}
	cases := []ic{{-1, "kill-before-stop"}, {3, "kill-before-stop"}, {-1, "fsize:0"}, {-1, "fsize:1"}, {3, "fsize:0"}, {3, "fsize:200"}, {-1, "clean"}, {3, "clean"}}
	var wg sync.WaitGroup
	for i, c := range cases {
		wg.Add(1)
		go func(i int, c ic) {
			defer wg.Done()
			dir := filepath.Join(workDir, fmt.Sprintf("inst%d", i))
			_ = os.RemoveAll(dir)
			_ = os.MkdirAll(dir, 0o755)
			defer os.RemoveAll(dir)
			path := filepath.Join(dir, "state.json")
			desc := fmt.Sprintf("whole router process, previous state: %s, %s", map[bool]string{true: "none (first run)", false: fmt.Sprintf("%d routers", c.s0size)}[c.s0size < 0], c.how)
			wit := map[string]any{"case": desc, "case_id": "instance|" + desc}
			s0dump := ""
			if c.s0size >= 0 {
				st, err := storage.NewJSONFileStorage(path)
				if err == nil {
					err = install(st, generate(seedBase+uint64(i), c.s0size))
				}
				if err != nil {
					res.Inconcl("instance case setup: %v", err)
					return
				}
				s0dump = dump(st)
				if err := st.Stop(); err != nil {
					res.Inconcl("instance case setup save: %v", err)
					return
				}
			}
			port := freeTCPPort()
			cmd := exec.Command(rn.exe, "child", "c18inst", path, strconv.FormatUint(seedBase+100+uint64(i), 10), "4", c.how, filepath.Join(dir, "s1.dump"), strconv.Itoa(port))
			out, _ := cmd.CombinedOutput()
			code := cmd.ProcessState.ExitCode()
			if code == 5 {
				res.Violate("start-refused:instance", fmt.Sprintf("%s: the router refused to start on a state file a clean save had written: %s", desc, tailStr(string(out), 300)), wit)
				return
			}
			if code != 0 && code != -1 && !(c.how == "kill-before-stop") {
				res.Count("instance_children_unusable", 1)
				return
			}
			// the next start
			got, err := loadDump(path)
			if err != nil {
				res.Violate("start-refused-after-crash:instance", fmt.Sprintf("%s: the next start fails: %v", desc, err), wit)
				return
			}
			s1 := ""
			if b, e := os.ReadFile(filepath.Join(dir, "s1.dump")); e == nil {
				s1 = string(b)
			}
			if got != s0dump && got != s1 {
				res.Violate("mixed-state-after-crash:instance", fmt.Sprintf("%s: the loaded state is neither the previous nor the new one: %s", desc, firstDiff(s1, got)), wit)
				return
			}
			if c.how == "clean" && got != s1 {
				res.Violate("roundtrip-differs:instance", fmt.Sprintf("%s: after a clean shutdown the next start loads something else than the router held: %s", desc, firstDiff(s1, got)), wit)
				return
			}
			// ... and the router itself starts on that file
			cmd2 := exec.Command(rn.exe, "child", "c18inst", path, strconv.FormatUint(seedBase+200+uint64(i), 10), "1", "kill-before-stop", filepath.Join(dir, "s2.dump"), strconv.Itoa(freeTCPPort()))
			out2, _ := cmd2.CombinedOutput()
			if cmd2.ProcessState.ExitCode() == 5 {
				res.Violate("start-refused-after-crash:instance", fmt.Sprintf("%s: mycoria.New/Start fails on the state file left behind: %s", desc, tailStr(string(out2), 300)), wit)
				return
			}
			res.Count("instance_crash_cases", 1)
			res.Case("instance|"+desc, true)
		}(i, c)
	}
	wg.Wait()
}

func tailStr(s string, n int) string {
	if len(s) > n {
		return s[len(s)-n:]
	}
	return s
}

func freeTCPPort() int {
	l, err := net.Listen("tcp", "127.0.0.1:0")
	if err != nil {
		return 0
	}
	defer l.Close()
	return l.Addr().(*net.TCPAddr).Port
}

// ---- parent side

type sysLine struct {
	name string
	ret  string
	args string
}

var lineRe = regexp.MustCompile(`^(\d+)\s+([a-z0-9_]+)\((.*)\)\s+= (.+)$`)

// parseTrace returns the traced syscalls of the main thread (pid == first pid in the log).
func parseTrace(path string) (calls []sysLine, killed bool) {
	data, err := os.ReadFile(path)
	if err != nil {
		return nil, false
	}
	mainPid := ""
	for _, l := range strings.Split(string(data), "\n") {
		if strings.Contains(l, "+++ killed by SIGKILL +++") {
			killed = true
		}
		mm := lineRe.FindStringSubmatch(l)
		if mm == nil {
			continue
		}
		if mainPid == "" {
			mainPid = mm[1]
		}
		if mm[1] != mainPid {
			continue
		}
		calls = append(calls, sysLine{name: mm[2], args: mm[3], ret: mm[4]})
	}
	return calls, killed
}

type runner struct {
	exe string
	res *core.Result
}

func (rn *runner) save(dir string, seed uint64, size int, fsize int64, inject string, logName string) (exit int, log string) {
	state := filepath.Join(dir, "state.json")
	dumpf := filepath.Join(dir, "s1.dump")
	log = filepath.Join(dir, logName)
	args := []string{"-f", "-o", log, "-e", "trace=" + traceSet}
	if inject != "" {
		args = append(args, "-e", inject)
	}
	args = append(args, rn.exe, "child", "c18save", state, strconv.FormatUint(seed, 10), strconv.Itoa(size), strconv.FormatInt(fsize, 10), dumpf)
	cmd := exec.Command("strace", args...)
	cmd.Stdout = nil
	cmd.Stderr = nil
	err := cmd.Run()
	if err == nil {
		return 0, log
	}
	if ee, ok := err.(*exec.ExitError); ok {
		return ee.ExitCode(), log
	}
	return -1, log
}

func loadDump(path string) (d string, err error) {
	defer func() {
		if r := recover(); r != nil {
			err = fmt.Errorf("panic while loading: %v", r)
		}
	}()
	st, err := storage.NewJSONFileStorage(path)
	if err != nil {
		return "", err
	}
	return dump(st), nil
}

// pairCase runs all crash experiments for one (S0, S1) pair.
func (rn *runner) pairCase(workDir string, id int, s0seed uint64, s0size int, s1seed uint64, s1size int, tier core.Tier, kStride int) {
	res := rn.res
	base := filepath.Join(workDir, fmt.Sprintf("pair%d", id))
	_ = os.MkdirAll(base, 0o755)
	defer os.RemoveAll(base)
	pairDesc := fmt.Sprintf("S0(seed=%d,size=%d) S1(seed=%d,size=%d)", s0seed, s0size, s1seed, s1size)

	// Template directory with S0 on disk (or no file when s0size < 0).
	tmpl := filepath.Join(base, "tmpl")
	_ = os.MkdirAll(tmpl, 0o755)
	s0dump := ""
	if s0size >= 0 {
		st, err := storage.NewJSONFileStorage(filepath.Join(tmpl, "state.json"))
		if err != nil {
			res.Inconcl("template: %v", err)
			return
		}
		if err := install(st, generate(s0seed, s0size)); err != nil {
			res.Inconcl("template install: %v", err)
			return
		}
		want := dump(st)
		if err := st.Stop(); err != nil {
			res.Violate("save-failed", fmt.Sprintf("saving a valid state failed: %v", err), map[string]any{"pair": pairDesc})
			return
		}
		got, err := loadDump(filepath.Join(tmpl, "state.json"))
		if err != nil {
			res.Violate("reload-failed", fmt.Sprintf("reloading a freshly saved state failed: %v", err), map[string]any{"pair": pairDesc})
			return
		}
		if got != want {
			res.Violate("roundtrip-differs", "reloaded state differs from the saved one: "+firstDiff(want, got), map[string]any{"pair": pairDesc})
			return
		}
		s0dump = got
		res.Count("roundtrips_exact", 1)
		res.Case("roundtrip:"+pairDesc, s0size > 0)
	} else {
		st, _ := storage.NewJSONFileStorage(filepath.Join(tmpl, "absent.json"))
		s0dump = dump(st)
	}
	s0bytes, s0err := os.ReadFile(filepath.Join(tmpl, "state.json"))
	if s0err != nil {
		// nothing was written for S0 (no file is a valid form of the empty state): start the experiments without one
		s0size = -1
	}

	fresh := func(name string) string {
		d := filepath.Join(base, name)
		_ = os.RemoveAll(d)
		_ = os.MkdirAll(d, 0o755)
		if s0size >= 0 {
			_ = os.WriteFile(filepath.Join(d, "state.json"), s0bytes, 0o644)
		}
		return d
	}

	// Calibration: uninjected save under the same trace filter.
	cal := fresh("cal")
	exit, log := rn.save(cal, s1seed, s1size, -1, "", "trace.log")
	if exit != 0 {
		res.Inconcl("calibration save exited %d for %s", exit, pairDesc)
		return
	}
	calls, _ := parseTrace(log)
	mi := -1
	for i, c := range calls {
		if c.name == "openat" && strings.Contains(c.args, marker) {
			mi = i
		}
	}
	if mi < 0 {
		res.Inconcl("marker not found in calibration trace (%d calls)", len(calls))
		return
	}
	s1dumpB, _ := os.ReadFile(filepath.Join(cal, "s1.dump"))
	s1dump := string(s1dumpB)
	got, err := loadDump(filepath.Join(cal, "state.json"))
	if err != nil || got != s1dump {
		res.Violate("roundtrip-differs", fmt.Sprintf("state written by the save child does not reload to what was installed (err %v): %s", err, firstDiff(s1dump, got)), map[string]any{"pair": pairDesc})
		return
	}
	res.Count("roundtrips_exact", 1)
	saveCalls := calls[mi+1:]
	// the save's syscalls end where the process exits; drop trailing closes of std fds if any
	var total int64
	type wr struct {
		idx   int // index in saveCalls
		start int64
		n     int64
	}
	var writes []wr
	for i, c := range saveCalls {
		if c.name == "write" || c.name == "pwrite64" || c.name == "writev" {
			n, _ := strconv.ParseInt(strings.Fields(c.ret)[0], 10, 64)
			if n > 0 {
				writes = append(writes, wr{idx: i, start: total, n: n})
				total += n
			}
		}
	}
	if len(writes) == 0 {
		res.Inconcl("no write syscall seen in the save of %s", pairDesc)
		return
	}
	names := make([]string, len(saveCalls))
	for i, c := range saveCalls {
		names[i] = c.name
	}
	res.SetExtra("save_syscall_sequence_example", strings.Join(names, ","))

	// occurrence returns the 1-based per-name ordinal (on the main thread) of saveCalls[i].
	occurrence := func(name string, i int) int {
		n := 0
		for _, c := range calls[:mi+1] {
			if c.name == name {
				n++
			}
		}
		for _, c := range saveCalls[:i] {
			if c.name == name {
				n++
			}
		}
		return n + 1
	}

	judge := func(dir, mech, point string, nontrivial bool) bool {
		got, err := loadDump(filepath.Join(dir, "state.json"))
		wit := map[string]any{"pair": pairDesc, "mechanism": mech, "crash_point": point, "case_id": pairDesc + "|" + mech + "|" + point}
		files, _ := os.ReadDir(dir)
		var listing []string
		for _, f := range files {
			if fi, e := f.Info(); e == nil {
				listing = append(listing, fmt.Sprintf("%s(%d)", f.Name(), fi.Size()))
			}
		}
		wit["files_after_crash"] = listing
		if err != nil {
			res.Violate("start-refused-after-crash:"+mech, fmt.Sprintf("after a crash (%s at %s) the next start fails: %v", mech, point, err), wit)
			return false
		}
		// the new state of THIS run: the crashed child installed S1 itself (the storage stamps saves with its own
		// clock), and wrote what its storage held to s1.dump before it began to save
		s1dump := s1dump
		if own, e := os.ReadFile(filepath.Join(dir, "s1.dump")); e == nil {
			s1dump = string(own)
		}
		if got != s0dump && got != s1dump {
			which := firstDiff(s1dump, got)
			res.Violate("mixed-state-after-crash:"+mech, fmt.Sprintf("after a crash (%s at %s) the loaded state is neither the previous nor the new one: %s", mech, point, which), wit)
			return false
		}
		if got == s0dump {
			res.Count("crash_left_previous_state", 1)
		} else {
			res.Count("crash_left_new_state", 1)
		}
		res.Case(pairDesc+"|"+mech+"|"+point, nontrivial)
		return true
	}

	// (a) exactly k bytes of the written file on disk.
	var ks []int64
	if tier == core.Thorough && total <= 70000 && kStride == 1 {
		for k := int64(0); k <= total; k++ {
			ks = append(ks, k)
		}
	} else {
		for k := int64(0); k <= total; k++ {
			if k < 64 || k > total-64 || k%int64(kStride) == 0 {
				ks = append(ks, k)
			}
		}
	}
	var failed atomic.Bool
	var kwg sync.WaitGroup
	ksem := make(chan struct{}, 6)
	for ki, k := range ks {
		if failed.Load() {
			break
		}
		kwg.Add(1)
		ksem <- struct{}{}
		go func(ki int, k int64) {
			defer func() { <-ksem; kwg.Done() }()
			// find the write during which offset k is reached
			w := writes[len(writes)-1]
			for _, x := range writes {
				if k < x.start+x.n {
					w = x
					break
				}
			}
			if k >= total {
				return // nothing is cut: covered by (b)
			}
			d := fresh(fmt.Sprintf("k%d", ki))
			defer os.RemoveAll(d)
			// strace counts "when" per syscall name: address the write that follows the
			// short write (Go retries a short write at once), or the write itself when the
			// limit is reached exactly at its start.
			occ := occurrence("write", w.idx)
			if k > w.start {
				occ++
			}
			inject := fmt.Sprintf("inject=write:signal=SIGKILL:when=%d", occ)
			_, log := rn.save(d, s1seed, s1size, k, inject, "trace.log")
			cl, killed := parseTrace(log)
			if !killed || len(cl) <= mi || !(cl[mi].name == "openat" && strings.Contains(cl[mi].args, marker)) {
				res.Count("crash_runs_not_aligned", 1)
				return
			}
			// confirm from the directory that some file was cut at exactly k bytes
			cut := false
			if files, err := os.ReadDir(d); err == nil {
				for _, f := range files {
					if fi, e := f.Info(); e == nil && fi.Size() == k && f.Name() != "s1.dump" && f.Name() != "trace.log" {
						cut = true
					}
				}
			}
			if cut {
				res.Count("crash_with_file_cut_at_exactly_k", 1)
			}
			if !judge(d, "cut-at-byte", fmt.Sprintf("k=%d of %d", k, total), cut) {
				failed.Store(true)
				return
			}
			// Leftovers of the crashed save must not break a later clean save of a SMALLER state.
			if ki%5 == 0 || k > total-64 {
				small := s1size / 4
				cmd := exec.Command(rn.exe, "child", "c18save", filepath.Join(d, "state.json"), strconv.FormatUint(s1seed+7, 10), strconv.Itoa(small), "-1", filepath.Join(d, "s2.dump"))
				err := cmd.Run()
				got, lerr := loadDump(filepath.Join(d, "state.json"))
				want, _ := os.ReadFile(filepath.Join(d, "s2.dump"))
				if err != nil || lerr != nil || got != string(want) {
					res.Violate("save-after-crash-broken", fmt.Sprintf("after a crash with %d of %d bytes written, a clean save of a smaller state (child err %v) does not load as that state (load err %v)", k, total, err, lerr),
						map[string]any{"pair": pairDesc, "k": k, "case_id": pairDesc + "|later-smaller-save"})
					failed.Store(true)
					return
				}
				res.Count("clean_smaller_saves_after_crash", 1)
			}
		}(ki, k)
	}
	kwg.Wait()
	if failed.Load() {
		return
	}

	// (b) SIGKILL at the entry of every file syscall of the save.
	for i := range saveCalls {
		d := fresh("n")
		inject := fmt.Sprintf("inject=%s:signal=SIGKILL:when=%d", saveCalls[i].name, occurrence(saveCalls[i].name, i))
		_, log := rn.save(d, s1seed, s1size, -1, inject, "trace.log")
		cl, killed := parseTrace(log)
		if !killed || len(cl) <= mi {
			res.Count("crash_runs_not_aligned", 1)
			continue
		}
		res.Count("crash_at_syscall_entry:"+saveCalls[i].name, 1)
		if !judge(d, "kill-at-syscall-entry", fmt.Sprintf("#%d %s", i, saveCalls[i].name), i > 0) {
			return
		}
	}

	// (c) write errors.
	wcountBefore := 0
	for _, c := range calls[:mi+1] {
		if c.name == "write" {
			wcountBefore++
		}
	}
	nw := 0
	for _, c := range saveCalls {
		if c.name == "write" {
			nw++
		}
	}
	for i := 0; i < nw; i++ {
		for _, errno := range []string{"ENOSPC", "EIO"} {
			d := fresh("e")
			inject := fmt.Sprintf("inject=write:error=%s:when=%d", errno, wcountBefore+i+1)
			exit, _ := rn.save(d, s1seed, s1size, -1, inject, "trace.log")
			res.Count("write_error_runs", 1)
			if exit == 0 {
				res.Count("write_error_not_reported_by_stop", 1)
			}
			if !judge(d, "write-error-"+errno, fmt.Sprintf("write #%d", i), true) {
				return
			}
			// a later clean save in the same directory (leftovers present) must work
			exit, _ = rn.save(d, s1seed, s1size, -1, "", "trace2.log")
			got, err := loadDump(filepath.Join(d, "state.json"))
			want, _ := os.ReadFile(filepath.Join(d, "s1.dump"))
			if exit != 0 || err != nil || got != string(want) {
				res.Violate("save-after-failed-save-broken", fmt.Sprintf("a clean save after a failed one (exit %d, load err %v) does not produce the new state", exit, err), map[string]any{"pair": pairDesc})
				return
			}
		}
	}
	res.Count("state_pairs_completed", 1)
}

// generations: see run.
func generations(res *core.Result, r *rand.Rand, dir string) {
	_ = os.MkdirAll(dir, 0o755)
	defer os.RemoveAll(dir)
	path := filepath.Join(dir, "state.json")
	size := 1 + r.IntN(30)
	seed := r.Uint64()
	gs := generate(seed, size)
	if len(gs.mappings) == 0 {
		gs.mappings["gen0.myco"] = genAddr(r)
	}
	st, err := storage.NewJSONFileStorage(path)
	if err == nil {
		err = install(st, gs)
	}
	if err != nil {
		res.Inconcl("generations setup: %v", err)
		return
	}
	if err := st.Stop(); err != nil {
		res.Violate("save-failed", fmt.Sprintf("saving a valid state failed: %v", err), map[string]any{"seed": seed, "size": size})
		return
	}
	steps := []string{"lookups-only", "delete-one-mapping", "no-change", "delete-one-router", "save-one-mapping", "lookups-only", "save-one-router", "prune"}
	r.Shuffle(len(steps), func(a, b int) { steps[a], steps[b] = steps[b], steps[a] })
	history := []string{fmt.Sprintf("first run saves %d routers, %d mappings", len(gs.routers), len(gs.mappings))}
	for _, step := range steps {
		st, err := storage.NewJSONFileStorage(path)
		if err != nil {
			res.Violate("reload-failed", fmt.Sprintf("state file of the previous run does not load: %v (history: %s)", err, strings.Join(history, "; ")), map[string]any{"seed": seed, "size": size, "case_id": "generations"})
			return
		}
		ips := haveRouters(st)
		maps, _ := st.QueryMappings("")
		switch step {
		case "lookups-only":
			for _, ip := range ips {
				if r.IntN(2) == 0 {
					_, _ = st.GetRouter(ip)
				}
			}
			if len(ips) > 0 {
				_, _ = st.GetRouter(ips[0])
			}
			for _, mp := range maps {
				_, _ = st.GetMapping(mp.Domain)
			}
		case "delete-one-mapping":
			if len(maps) > 0 {
				_ = st.DeleteMapping(maps[r.IntN(len(maps))].Domain)
			}
		case "delete-one-router":
			if len(ips) > 0 {
				_ = st.DeleteRouter(ips[r.IntN(len(ips))])
			}
		case "save-one-mapping":
			_ = st.SaveMapping(fmt.Sprintf("gen%d.myco", r.IntN(1000000)), genAddr(r))
		case "save-one-router":
			extra := generate(r.Uint64(), 1)
			if len(extra.routers) > 0 {
				cp := *extra.routers[0]
				_ = st.SaveRouter(&cp)
			}
		case "prune":
			st.Prune(len(ips) / 2)
		}
		history = append(history, step)
		want := dump(st)
		if err := st.Stop(); err != nil {
			res.Violate("save-failed", fmt.Sprintf("saving failed: %v (history: %s)", err, strings.Join(history, "; ")), map[string]any{"seed": seed, "size": size, "case_id": "generations"})
			return
		}
		got, err := loadDump(path)
		if err != nil || got != want {
			res.Violate("roundtrip-differs:after-"+step, fmt.Sprintf("what the next start loads (err %v) differs from what the storage held at shutdown: %s (history of runs on this file: %s)", err, firstDiff(want, got), strings.Join(history, "; ")), map[string]any{"seed": seed, "size": size, "case_id": "generations"})
			return
		}
		res.Count("generation_roundtrips:"+step, 1)
	}
	res.Case(fmt.Sprintf("generations:%d:%d:%s", seed, size, strings.Join(steps, ",")), true)
}

func firstDiff(a, b string) string {
	la, lb := strings.Split(a, "\n"), strings.Split(b, "\n")
	for i := 0; i < len(la) || i < len(lb); i++ {
		var x, y string
		if i < len(la) {
			x = la[i]
		}
		if i < len(lb) {
			y = lb[i]
		}
		if x != y {
			if len(x) > 200 {
				x = x[:200] + "…"
			}
			if len(y) > 200 {
				y = y[:200] + "…"
			}
			return fmt.Sprintf("line %d: want %q got %q (%d vs %d records)", i, x, y, len(la), len(lb))
		}
	}
	return "identical"
}

func parallel(n int, fn func(w int)) { core.Parallel(n, fn) }

func run(c *core.Ctx) {
	res := c.Res
	exe, err := os.Executable()
	if err != nil {
		res.Inconcl("os.Executable: %v", err)
		return
	}
	if _, err := exec.LookPath("strace"); err != nil {
		res.Inconcl("strace not available: %v", err)
		return
	}
	rn := &runner{exe: exe, res: res}
	r := core.RNG("c18/pairs")
	type pc struct {
		s0seed         uint64
		s0size         int
		s1seed         uint64
		s1size, stride int
	}
	var pairs []pc
	sizes := [][2]int{{-1, 3}, {0, 1}, {2, 0}, {3, 5}, {10, 8}, {40, 60}}
	strides := []int{1, 1, 1, 16, 64, 512}
	if c.Tier == core.Thorough {
		for i := 0; i < 30; i++ {
			a, b := r.IntN(202)-1, r.IntN(201)
			// every offset for small new states, coprime strides for bigger ones (so that different pairs cover
			// different residues); ~2000-6000 crash points per pair
			st := 1
			switch {
			case b > 60:
				st = 61
			case b > 8:
				st = 7
			}
			sizes = append(sizes, [2]int{a, b})
			strides = append(strides, st)
		}
	}
	for i, s := range sizes {
		pairs = append(pairs, pc{r.Uint64(), s[0], r.Uint64(), s[1], strides[i]})
	}
	// in-process round trips of many more states (no crash)
	nrt := c.Q(40, 400)
	parallel(8, func(w int) {
		rr := core.RNG(fmt.Sprintf("c18/rt/%d", w))
		for i := w; i < nrt; i += 8 {
			dir := filepath.Join(c.WorkDir, fmt.Sprintf("rt%d", i))
			_ = os.MkdirAll(dir, 0o755)
			path := filepath.Join(dir, "state.json")
			size := rr.IntN(201)
			seed := rr.Uint64()
			st, err := storage.NewJSONFileStorage(path)
			if err == nil {
				err = install(st, generate(seed, size))
			}
			if err != nil {
				res.Inconcl("roundtrip setup: %v", err)
				continue
			}
			want := dump(st)
			if err := st.Stop(); err != nil {
				res.Violate("save-failed", fmt.Sprintf("saving a valid state failed: %v", err), map[string]any{"seed": seed, "size": size})
				continue
			}
			got, err := loadDump(path)
			if err != nil || got != want {
				res.Violate("roundtrip-differs", fmt.Sprintf("reload (err %v) differs: %s", err, firstDiff(want, got)), map[string]any{"seed": seed, "size": size})
				continue
			}
			// second generation on top: save again from the loaded state
			st2, _ := storage.NewJSONFileStorage(path)
			if err := st2.Stop(); err == nil {
				if got2, err := loadDump(path); err != nil || got2 != want {
					res.Violate("roundtrip-differs", fmt.Sprintf("load-save-load is not stable (err %v): %s", err, firstDiff(want, got2)), map[string]any{"seed": seed, "size": size})
				}
			}
			res.Count("roundtrips_exact", 1)
			res.Case(fmt.Sprintf("roundtrip:%d:%d", seed, size), size > 0)
			_ = os.RemoveAll(dir)
		}
	})
	// generations: one state file lives through several runs of the router, and each run changes the state through
	// exactly one kind of storage call (or none): whatever the storage reports right before Stop must be what the
	// next start loads.
	ngen := c.Q(24, 240)
	parallel(8, func(w int) {
		rr := core.RNG(fmt.Sprintf("c18/gen/%d", w))
		for i := w; i < ngen; i += 8 {
			generations(res, rr, filepath.Join(c.WorkDir, fmt.Sprintf("gen%d", i)))
		}
	})
	rn.instanceCases(c.WorkDir, r.Uint64())
	parallel(len(pairs), func(w int) {
		p := pairs[w]
		rn.pairCase(c.WorkDir, w, p.s0seed, p.s0size, p.s1seed, p.s1size, c.Tier, p.stride)
	})
	res.Sample(map[string]any{"pair": "S0 = no file, S1 = 3 routers", "mechanisms": []string{"cut-at-byte k (RLIMIT_FSIZE=k + SIGKILL at next syscall entry)", "kill-at-syscall-entry #i", "write-error ENOSPC/EIO"}})
	res.Sample(map[string]any{"router_fields": []string{"Universe=\"日本語のテキスト\"", "Listeners=[\"\", \"tab\\tnew\\nline\"]", "CreatedAt=zero", "UsedAt=nil"}})
	res.Assume("SIGKILL does not drop the page cache: a missing fsync/ordering problem that only shows after power loss is not observable here")
	res.Assume("strings are valid UTF-8 (CBOR and CleanDomain reject anything else before it reaches the storage)")
	res.Assume("UpdatedAt/Created are set by the storage on save; the expected new state is what the storage API reports before the save")
	res.Require(res.Counter("instance_crash_cases") >= 6 || res.ViolationCount() > 0, "too few whole-router crash cases completed")
	res.Require(res.Counter("state_pairs_completed") >= int64(len(pairs)*8/10), "too few state pairs completed all crash experiments")
	res.Require(res.Counter("crash_with_file_cut_at_exactly_k") >= 50, "fewer than 50 crashes confirmed with a file cut at exactly k bytes")
}
