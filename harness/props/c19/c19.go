// Package c19: name resolution — .myco only, fixed precedence, learned
// mappings cannot shadow.
package c19

import (
	"errors"
	"fmt"
	"math/rand/v2"
	"net"
	"net/netip"
	"os"
	"path/filepath"
	"sort"
	"strings"
	"sync"
	"sync/atomic"
	"time"

	mdns "github.com/miekg/dns"

	"github.com/mycoria/mycoria/api/dns"
	"github.com/mycoria/mycoria/config"
	"github.com/mycoria/mycoria/m"
	"github.com/mycoria/mycoria/mgr"
	"github.com/mycoria/mycoria/storage"

	"verifharness/core"
	"verifharness/env"
)

func init() {
	core.Register(&core.Prop{
		ID:    "C19",
		Level: "exploration",
		Rule: "seeded configurations with deliberately colliding names across the five sources (built-in, resolve entries, forbidden, friends, stored mappings); " +
			"every configured name x case variants x trailing dot x 45 query types x 6 classes plus names outside .myco and look-alikes, through Server.Lookup, ServeDNS with a recording writer and the real miekg server on a loopback UDP socket (incl. malformed packets and empty question sections); " +
			"non-trivial = name present in >= 2 sources or a look-alike/filtered query; distinct by (set of sources containing the name, query variant class)",
		Run:              run,
		CrashIsViolation: true,
		HasRacePart:      true,
		RaceAnchors:      []string{`storage\.\(\*MemStorage\)`, `dns\.\(\*Server\)`, `storage\.\(\*JSONFileStorage\)`},
	})
}

// concurrent: questions are answered while mappings and routers are stored and removed (a router learns
// mappings while it serves DNS). Answers for names that no writer touches must stay what the reference says; the
// race-detector build reports unsynchronised access to the store; a fatal "concurrent map" error kills the worker.
func concurrent(res *core.Result, r *rand.Rand, rounds int) {
	w, err := buildWorld(r)
	if err != nil {
		return
	}
	defer w.conn.Close()
	var stable []string
	for _, n := range w.names {
		if _, src := w.rc.refLookup(n); src != "" {
			stable = append(stable, n)
		}
	}
	stable = append(stable, "unknown-name.myco")
	var wg sync.WaitGroup
	stop := make(chan struct{})
	var bad atomic.Int64
	for g := 0; g < 3; g++ {
		wg.Add(1)
		go func(g int) {
			defer wg.Done()
			for i := 0; ; i++ {
				select {
				case <-stop:
					return
				default:
				}
				n := fmt.Sprintf("churn-%d-%d.myco", g, i%40)
				ip := netip.AddrFrom16([16]byte{0xfd, 1, byte(g), byte(i), 5: 1})
				_ = w.store.SaveMapping(n, ip)
				if i%3 == 0 {
					_ = w.store.DeleteMapping(n)
				}
				_, _ = w.store.GetMapping(n)
			}
		}(g)
	}
	var readers sync.WaitGroup
	for g := 0; g < 4; g++ {
		readers.Add(1)
		go func(g int) {
			defer readers.Done()
			for i := 0; i < rounds; i++ {
				n := stable[(i*7+g)%len(stable)]
				wantIP, wantSrc := w.rc.refLookup(n)
				ip, src := w.srv.Lookup(n)
				if wantSrc == "" || wantSrc == "forbidden" {
					if ip.IsValid() {
						bad.Add(1)
					}
				} else if ip != wantIP || string(src) == "" {
					bad.Add(1)
				}
				rec := &recorder{}
				q := new(mdns.Msg)
				q.Question = []mdns.Question{{Name: n + ".", Qtype: mdns.TypeAAAA, Qclass: mdns.ClassINET}}
				w.srv.ServeDNS(rec, q)
			}
		}(g)
	}
	// the readers finish their rounds, then the writers are stopped
	readers.Wait()
	close(stop)
	wg.Wait()
	if bad.Load() > 0 {
		w.violate(res, "answer-changed-under-concurrent-mapping-updates", fmt.Sprintf("%d lookups of names no writer touched returned something else than the reference while mappings of other names were stored and removed", bad.Load()), nil)
		return
	}
	if w.panicAlerts() > 0 {
		w.violate(res, "resolver-panic", "the resolver panicked while mappings were stored concurrently", nil)
		return
	}
	res.Count("concurrent_rounds", int64(rounds*4))
	res.Case(fmt.Sprintf("concurrent|%d", r.IntN(1<<30)), true)
}

// concurrentRemap: learned names are asked for all the time while they are mapped, re-mapped and deleted (the
// dashboard edits mappings while the resolver serves). When writers and readers have finished, every name must
// answer exactly what its last write left: the last address, or a name error after a delete.
func concurrentRemap(res *core.Result, r *rand.Rand, names int) {
	w, err := buildWorld(r)
	if err != nil {
		return
	}
	defer w.conn.Close()
	type final struct {
		ip      netip.Addr
		deleted bool
	}
	moving := make([]string, names)
	last := make([]final, names)
	for i := range moving {
		moving[i] = fmt.Sprintf("moving-%d-%d.myco", i, r.IntN(1000000))
	}
	var stop atomic.Bool
	var wg sync.WaitGroup
	for g := 0; g < 6; g++ {
		wg.Add(1)
		go func(g int) {
			defer wg.Done()
			for i := g; !stop.Load(); i++ {
				n := moving[i%len(moving)]
				_, _ = w.srv.Lookup(n)
				if i%5 == 0 {
					rec := &recorder{}
					q := new(mdns.Msg)
					q.Question = []mdns.Question{{Name: n + ".", Qtype: mdns.TypeAAAA, Qclass: mdns.ClassINET}}
					w.srv.ServeDNS(rec, q)
				}
			}
		}(g)
	}
	for round := 0; round < 6; round++ {
		for i, n := range moving {
			ip := routable(r)
			if round == 5 && i%3 == 0 {
				_ = w.store.DeleteMapping(n)
				last[i] = final{deleted: true}
			} else {
				_ = w.store.SaveMapping(n, ip)
				last[i] = final{ip: ip}
			}
			if i%4 == 0 {
				time.Sleep(20 * time.Microsecond)
			}
		}
	}
	time.Sleep(2 * time.Millisecond)
	stop.Store(true)
	wg.Wait()
	for i, n := range moving {
		ip, src := w.srv.Lookup(n)
		switch {
		case last[i].deleted && ip.IsValid():
			w.violate(res, "deleted-mapping-answers:after-concurrent-lookups", fmt.Sprintf("%s was deleted (the last change to it), but after lookups ran concurrently with the changes it still resolves to %s (source %q)", n, ip, src), map[string]any{"case_id": "concurrent-remap"})
			return
		case !last[i].deleted && ip != last[i].ip:
			w.violate(res, "stale-mapping-answers:after-concurrent-lookups", fmt.Sprintf("%s was last mapped to %s, but after lookups ran concurrently with the changes it resolves to %v (source %q)", n, last[i].ip, ip, src), map[string]any{"case_id": "concurrent-remap"})
			return
		}
	}
	if w.panicAlerts() > 0 {
		w.violate(res, "resolver-panic", "the resolver panicked while mappings were changed concurrently", nil)
		return
	}
	res.Count("concurrent_remap_names_checked", int64(names))
	res.Case(fmt.Sprintf("concurrent-remap|%d", r.IntN(1<<30)), true)
}

// restarts: learned mappings live in the state file. A router runs, changes exactly one thing about its mappings
// (deletes one, re-maps one, adds one, or nothing), stops (state saved), and starts again: the resolver of the
// next run must answer from exactly the mappings the previous run ended with - a deleted name gets a name error.
func restarts(res *core.Result, r *rand.Rand, dir string) {
	_ = os.MkdirAll(dir, 0o755)
	defer os.RemoveAll(dir)
	path := filepath.Join(dir, "state.json")
	cfg := config.MakeTestConfig(config.Store{System: config.System{DisableTun: true}, Router: config.Router{Listen: []string{"tcp://127.0.0.1:47369"}}})
	want := map[string]netip.Addr{}
	steps := []string{"fill", "delete-one", "remap-one", "nothing", "add-one", "delete-one", "nothing"}
	var history []string
	for gen, step := range steps {
		st, err := storage.NewJSONFileStorage(path)
		if err != nil {
			res.Violate("state-file-does-not-load", fmt.Sprintf("the state file of the previous run does not load: %v (runs so far: %s)", err, strings.Join(history, "; ")), map[string]any{"case_id": "restarts"})
			return
		}
		conn, err := net.ListenPacket("udp", "127.0.0.1:0")
		if err != nil {
			res.Inconcl("listen: %v", err)
			return
		}
		srv, err := dns.New(env.NewBareInstance(env.NewIdentity(r, nil), cfg), conn, st)
		if err != nil {
			conn.Close()
			res.Inconcl("dns.New: %v", err)
			return
		}
		// the resolver of this run answers from what the previous run left
		names := make([]string, 0, len(want)+2)
		for n := range want {
			names = append(names, n)
		}
		sort.Strings(names)
		for _, n := range append(names, history2names(history)...) {
			ip, src := srv.Lookup(n)
			exp, ok := want[n]
			if ok && ip != exp {
				conn.Close()
				res.Violate("mapping-lost-or-changed-by-restart", fmt.Sprintf("run %d: %s should resolve to %s (as at the end of the previous run), got %v (source %q); runs so far: %s", gen+1, n, exp, ip, src, strings.Join(history, "; ")), map[string]any{"case_id": "restarts"})
				return
			}
			if !ok && ip.IsValid() {
				conn.Close()
				res.Violate("deleted-mapping-answers:after-restart", fmt.Sprintf("run %d: %s was deleted in an earlier run and must get a name error, but resolves to %s (source %q); runs so far: %s", gen+1, n, ip, src, strings.Join(history, "; ")), map[string]any{"case_id": "restarts"})
				return
			}
		}
		switch step {
		case "fill":
			for i := 0; i < 5; i++ {
				n := fmt.Sprintf("learned-%d-%d.myco", i, r.IntN(100000))
				ip := routable(r)
				_ = st.SaveMapping(n, ip)
				want[n] = ip
			}
			history = append(history, "run 1 learns 5 mappings")
		case "delete-one":
			if len(names) > 0 {
				n := names[r.IntN(len(names))]
				_ = st.DeleteMapping(n)
				delete(want, n)
				history = append(history, fmt.Sprintf("run %d only deletes %s", gen+1, n))
			}
		case "remap-one":
			if len(names) > 0 {
				n := names[r.IntN(len(names))]
				ip := routable(r)
				_ = st.SaveMapping(n, ip)
				want[n] = ip
				history = append(history, fmt.Sprintf("run %d only re-maps %s", gen+1, n))
			}
		case "add-one":
			n := fmt.Sprintf("learned-late-%d.myco", r.IntN(100000))
			ip := routable(r)
			_ = st.SaveMapping(n, ip)
			want[n] = ip
			history = append(history, fmt.Sprintf("run %d only adds %s", gen+1, n))
		default:
			history = append(history, fmt.Sprintf("run %d changes nothing", gen+1))
		}
		conn.Close()
		if err := st.Stop(); err != nil {
			res.Violate("state-save-failed", fmt.Sprintf("saving the state failed: %v", err), map[string]any{"case_id": "restarts"})
			return
		}
		res.Count("restart_generations", 1)
	}
	res.Case(fmt.Sprintf("restarts|%d", r.IntN(1<<30)), true)
}

// history2names extracts the names mentioned in "only deletes <name>" entries (they must stay unresolvable).
func history2names(history []string) []string {
	var out []string
	for _, h := range history {
		if i := strings.Index(h, "only deletes "); i >= 0 {
			out = append(out, h[i+len("only deletes "):])
		}
	}
	return out
}

// handlerEdgeCases: what reaches ServeDNS without the miekg accept filter in front (another transport, a newer
// library version with a laxer filter): messages with no question, with several questions. They must not bring
// the calling goroutine down (a panic that escapes ServeDNS ends the whole process in the real server) and must
// not be answered positively.
func handlerEdgeCases(res *core.Result, r *rand.Rand) {
	w, err := buildWorld(r)
	if err != nil {
		return
	}
	defer w.conn.Close()
	msgs := []*mdns.Msg{new(mdns.Msg), new(mdns.Msg), new(mdns.Msg)}
	msgs[1].Response = true
	msgs[2].Question = []mdns.Question{{Name: "router.myco.", Qtype: mdns.TypeAAAA, Qclass: mdns.ClassINET}, {Name: "open.myco.", Qtype: mdns.TypeAAAA, Qclass: mdns.ClassINET}}
	for i, q := range msgs {
		q.Id = uint16(r.IntN(65536))
		rec := &recorder{}
		if pv := func() (pv any) {
			defer func() { pv = recover() }()
			w.srv.ServeDNS(rec, q)
			return nil
		}(); pv != nil {
			w.violate(res, "resolver-crash:handler-edge-case", fmt.Sprintf("ServeDNS let a panic escape to its caller for a message with %d questions: %v", len(q.Question), pv), map[string]any{"case_id": "handler-edge"})
			return
		}
		if i < 2 && rec.msg != nil {
			if _, addrs := replyAddrs(rec.msg); len(addrs) > 0 {
				w.violate(res, "answered-what-must-be-name-error:no-question", fmt.Sprintf("a message without a question got addresses %v", addrs), map[string]any{"case_id": "handler-edge"})
				return
			}
		}
		res.Count("handler_edge_cases", 1)
	}
}

// burst: many questions arrive at once while replies cannot be written for a moment (the socket is busy): the
// resolver may drop or delay what it likes meanwhile, but once the burst is over every name must be answered from
// its source again (bounded progress: the probe queries come one at a time after everything has drained).
func burst(res *core.Result, r *rand.Rand, n int) {
	w, err := buildWorld(r)
	if err != nil {
		return
	}
	defer w.conn.Close()
	gate := make(chan struct{})
	var wg sync.WaitGroup
	for i := 0; i < n; i++ {
		wg.Add(1)
		go func(i int) {
			defer wg.Done()
			q := new(mdns.Msg)
			q.Question = []mdns.Question{{Name: "router.myco.", Qtype: mdns.TypeAAAA, Qclass: mdns.ClassINET}}
			w.srv.ServeDNS(&gatedWriter{gate: gate}, q)
		}(i)
	}
	time.Sleep(30 * time.Millisecond)
	close(gate)
	done := make(chan struct{})
	go func() { wg.Wait(); close(done) }()
	select {
	case <-done:
	case <-time.After(30 * time.Second):
		res.Inconcl("burst: handlers did not return within 30s after the writer was released")
		return
	}
	for _, n := range append([]string{"router.myco", "unknown-name.myco"}, w.names[:min(len(w.names), 12)]...) {
		if !w.checkQuery(res, n+".", mdns.TypeAAAA, mdns.ClassINET) {
			return
		}
	}
	res.Count("bursts_survived", 1)
	res.Case(fmt.Sprintf("burst|%d", n), true)
}

// gatedWriter blocks every write until the gate opens.
type gatedWriter struct {
	recorder
	gate chan struct{}
}

func (g *gatedWriter) WriteMsg(m *mdns.Msg) error { <-g.gate; return nil }
func (g *gatedWriter) Write(b []byte) (int, error) {
	<-g.gate
	return len(b), nil
}

var apiAddr = netip.MustParseAddr("fd00::b909")

type refCfg struct {
	resolve  map[string]netip.Addr
	friends  map[string]netip.Addr
	mappings map[string]netip.Addr
}

type source string

// refLookup is the reference written from the statement (internal name: lower-case, no trailing dot).
func (rc *refCfg) refLookup(n string) (netip.Addr, source) {
	if n == "router.myco" || n == "open.myco" {
		return apiAddr, "internal"
	}
	if ip, ok := rc.resolve[n]; ok {
		return ip, "resolve-config"
	}
	if n == "wpad.myco" || n == "myco.myco" {
		return netip.Addr{}, "forbidden"
	}
	if fn, ok := strings.CutSuffix(n, ".myco"); ok {
		if ip, ok := rc.friends[fn]; ok {
			return ip, "friend"
		}
	}
	if ip, ok := rc.mappings[n]; ok {
		return ip, "mapping"
	}
	return netip.Addr{}, ""
}

func (rc *refCfg) sourcesOf(n string) string {
	var s []string
	if n == "router.myco" || n == "open.myco" {
		s = append(s, "internal")
	}
	if _, ok := rc.resolve[n]; ok {
		s = append(s, "resolve")
	}
	if n == "wpad.myco" || n == "myco.myco" {
		s = append(s, "forbidden")
	}
	if fn, ok := strings.CutSuffix(n, ".myco"); ok {
		if _, ok := rc.friends[fn]; ok {
			s = append(s, "friend")
		}
	}
	if _, ok := rc.mappings[n]; ok {
		s = append(s, "mapping")
	}
	return strings.Join(s, "+")
}

func asciiLower(s string) string {
	b := []byte(s)
	for i, c := range b {
		if c >= 'A' && c <= 'Z' {
			b[i] = c + 32
		}
	}
	return string(b)
}

// refQuery is the reference for a DNS question: (answer address, positive?).
func (rc *refCfg) refQuery(qname string, qtype, qclass uint16) (netip.Addr, bool) {
	l := asciiLower(qname)
	if !strings.HasSuffix(l, ".myco.") {
		return netip.Addr{}, false
	}
	switch qtype {
	case mdns.TypeA, mdns.TypeAAAA, mdns.TypeSVCB, mdns.TypeHTTPS, mdns.TypeANY:
	default:
		return netip.Addr{}, false
	}
	switch qclass {
	case mdns.ClassINET, mdns.ClassANY:
	default:
		return netip.Addr{}, false
	}
	ip, src := rc.refLookup(strings.TrimSuffix(l, "."))
	switch src {
	case "internal", "resolve-config", "friend", "mapping":
		return ip, true
	}
	return netip.Addr{}, false
}

func routable(r *rand.Rand) netip.Addr {
	for {
		var a [16]byte
		copy(a[:], core.RandBytes(r, 16))
		a[0] = 0xfd
		a[1] &= 0x7f
		ip := netip.AddrFrom16(a)
		switch m.GetAddressType(ip) {
		case m.TypeGeoMarked, m.TypeRoaming, m.TypeOrganization, m.TypeAnycast, m.TypeExperiment:
			return ip
		}
	}
}

// idnPool: Unicode forms as an operator would configure them and the ASCII form a resolver is asked for
// (RFC 3492 examples; the table keeps the reference independent of the code's own normalisation).
var idnPool = []struct{ unicode, ascii string }{
	{"Bücher.myco", "xn--bcher-kva.myco"},
	{"münchen.myco.", "xn--mnchen-3ya.myco"},
	{"日本.myco", "xn--wgv71a.myco"},
	{"straße.myco", "xn--strae-oqa.myco"},
}

var labelPool = []string{"router", "open", "wpad", "myco", "alice", "bob", "printer", "nas", "a.b", "x-y_z", "xn--bcher-kva", "www.alice", "0", "very-long-label-aaaaaaaaaaaaaaaaaaaaaaaaaaaaaaaaaaaaaaaaaaaaaaa"}

// faultyConn is the resolver's socket with one injectable fault: the next SetWriteDeadline fails once.
type faultyConn struct {
	net.PacketConn
	failNext atomic.Bool
	failed   atomic.Int64
}

func (c *faultyConn) SetWriteDeadline(t time.Time) error {
	if c.failNext.CompareAndSwap(true, false) {
		c.failed.Add(1)
		return errors.New("injected: set write deadline failed")
	}
	return c.PacketConn.SetWriteDeadline(t)
}

type world struct {
	rc    *refCfg
	cfg   *config.Config
	store *storage.MemStorage
	srv   *dns.Server
	conn  net.PacketConn
	fc    *faultyConn
	am    *mgr.AlertMgr
	names []string // internal names of interest
	desc  string
	// aliases: friend names that are second names of a router that already is a friend
	aliases int
}

func buildWorld(r *rand.Rand) (*world, error) {
	rc := &refCfg{resolve: map[string]netip.Addr{}, friends: map[string]netip.Addr{}, mappings: map[string]netip.Addr{}}
	st := config.Store{System: config.System{DisableTun: true}, Router: config.Router{Listen: []string{"tcp://127.0.0.1:47369"}}}
	pick := func() string { return labelPool[r.IntN(len(labelPool))] }
	nf, nr, nm := r.IntN(5), r.IntN(6), r.IntN(6)
	aliases := 0
	for i := 0; i < nf; i++ {
		name := pick()
		if _, dup := rc.friends[name]; dup {
			continue
		}
		ip := routable(r)
		if len(st.FriendConfigs) > 0 && r.IntN(3) == 0 {
			// an alias: a second name for a router that already is a friend (every name is a name of its own)
			ip = netip.MustParseAddr(st.FriendConfigs[r.IntN(len(st.FriendConfigs))].IP)
			aliases++
		}
		rc.friends[name] = ip
		st.FriendConfigs = append(st.FriendConfigs, config.FriendConfig{Name: name, IP: ip.String()})
	}
	st.ResolveConfig = map[string]string{}
	for i := 0; i < nr; i++ {
		name := pick() + ".myco"
		variant := name
		switch r.IntN(3) {
		case 0:
			variant = strings.ToUpper(name[:1]) + name[1:]
		case 1:
			variant = name + "."
		}
		// the reference normalises by itself: ASCII lower case, no trailing dot (labels of the pool are valid)
		cleaned := strings.TrimSuffix(asciiLower(variant), ".")
		if _, dup := rc.resolve[cleaned]; dup {
			continue
		}
		ip := routable(r)
		rc.resolve[cleaned] = ip
		st.ResolveConfig[variant] = ip.String()
	}
	// internationalised names are configured in Unicode and asked for in their ASCII (punycode) form
	for _, idn := range idnPool {
		if r.IntN(3) != 0 {
			continue
		}
		if _, dup := rc.resolve[idn.ascii]; dup {
			continue
		}
		ip := routable(r)
		rc.resolve[idn.ascii] = ip
		st.ResolveConfig[idn.unicode] = ip.String()
	}
	cfg, err := st.Parse()
	if err != nil {
		return nil, err
	}
	w := &world{rc: rc, cfg: cfg, store: storage.NewMemStorage()}
	for i := 0; i < nm; i++ {
		cleaned := pick() + ".myco"
		if r.IntN(6) == 0 {
			cleaned = idnPool[r.IntN(len(idnPool))].ascii
		}
		ip := routable(r)
		rc.mappings[cleaned] = ip
		if err := w.store.SaveMapping(cleaned, ip); err != nil {
			return nil, err
		}
	}
	for _, o := range storedOutsiders {
		if r.IntN(2) == 0 {
			_ = w.store.SaveMapping(o, routable(r))
		}
	}
	inst := env.NewBareInstance(env.NewIdentity(r, nil), cfg)
	w.conn, err = net.ListenPacket("udp", "127.0.0.1:0")
	if err != nil {
		return nil, err
	}
	w.fc = &faultyConn{PacketConn: w.conn}
	w.srv, err = dns.New(inst, w.fc, w.store)
	if err != nil {
		return nil, err
	}
	w.am = mgr.NewAlertMgr(w.srv.Manager())
	seen := map[string]bool{}
	add := func(n string) {
		if !seen[n] {
			seen[n] = true
			w.names = append(w.names, n)
		}
	}
	for _, l := range labelPool {
		add(l + ".myco")
	}
	for n := range rc.resolve {
		add(n)
	}
	for n := range rc.mappings {
		add(n)
	}
	add("unknown-name.myco")
	add("sub.router.myco")
	w.desc = fmt.Sprintf("friends=%v (%d of them second names of a friend) resolve=%v mappings=%v", keys(rc.friends), aliases, keys(rc.resolve), keys(rc.mappings))
	w.aliases = aliases
	return w, nil
}

func keys(mp map[string]netip.Addr) []string {
	out := make([]string, 0, len(mp))
	for k := range mp {
		out = append(out, k)
	}
	return out
}

// recorder is a dns.ResponseWriter that records the reply.
type recorder struct {
	msg *mdns.Msg
}

func (r *recorder) LocalAddr() net.Addr         { return &net.UDPAddr{IP: net.IPv4(127, 0, 0, 1), Port: 53} }
func (r *recorder) RemoteAddr() net.Addr        { return &net.UDPAddr{IP: net.IPv4(127, 0, 0, 1), Port: 5353} }
func (r *recorder) WriteMsg(m *mdns.Msg) error  { r.msg = m; return nil }
func (r *recorder) Write(b []byte) (int, error) { return len(b), nil }
func (r *recorder) Close() error                { return nil }
func (r *recorder) TsigStatus() error           { return nil }
func (r *recorder) TsigTimersOnly(bool)         {}
func (r *recorder) Hijack()                     {}

func (w *world) panicAlerts() int {
	n := 0
	for _, a := range w.am.Export().Alerts {
		if strings.HasPrefix(a.ID, "worker-panic") {
			n++
		}
	}
	return n
}

// replyAddrs extracts rcode and every AAAA / ipv6hint address from a reply.
func replyAddrs(msg *mdns.Msg) (rcode int, addrs []netip.Addr) {
	rcode = msg.Rcode
	for _, sec := range [][]mdns.RR{msg.Answer, msg.Extra, msg.Ns} {
		for _, rr := range sec {
			switch v := rr.(type) {
			case *mdns.AAAA:
				if a, ok := netip.AddrFromSlice(v.AAAA); ok {
					addrs = append(addrs, a)
				}
			case *mdns.A:
				if a, ok := netip.AddrFromSlice(v.A); ok {
					addrs = append(addrs, a)
				}
			case *mdns.SVCB:
				for _, kv := range v.Value {
					if h, ok := kv.(*mdns.SVCBIPv6Hint); ok {
						for _, ipb := range h.Hint {
							if a, ok := netip.AddrFromSlice(ipb); ok {
								addrs = append(addrs, a)
							}
						}
					}
				}
			case *mdns.HTTPS:
				for _, kv := range v.Value {
					if h, ok := kv.(*mdns.SVCBIPv6Hint); ok {
						for _, ipb := range h.Hint {
							if a, ok := netip.AddrFromSlice(ipb); ok {
								addrs = append(addrs, a)
							}
						}
					}
				}
			}
		}
	}
	return
}

func caseVariants(r *rand.Rand, n string) []string {
	up := strings.ToUpper(n)
	mixed := []byte(n)
	for i := range mixed {
		if r.IntN(2) == 0 && mixed[i] >= 'a' && mixed[i] <= 'z' {
			mixed[i] -= 32
		}
	}
	return []string{n, up, string(mixed)}
}

var qtypes = func() []uint16 {
	base := []uint16{mdns.TypeA, mdns.TypeAAAA, mdns.TypeSVCB, mdns.TypeHTTPS, mdns.TypeANY}
	others := []uint16{mdns.TypeNS, mdns.TypeCNAME, mdns.TypeSOA, mdns.TypePTR, mdns.TypeMX, mdns.TypeTXT, mdns.TypeSRV, mdns.TypeNAPTR,
		mdns.TypeDS, mdns.TypeDNSKEY, mdns.TypeRRSIG, mdns.TypeNSEC, mdns.TypeTLSA, mdns.TypeCAA, mdns.TypeAXFR, mdns.TypeIXFR, mdns.TypeOPT,
		mdns.TypeHINFO, mdns.TypeLOC, mdns.TypeSSHFP, mdns.TypeSPF, mdns.TypeURI, mdns.TypeNone, 0xFFFE, 0x1234, 65, 64, 28, 1, 255, 254, 253, 252, 251, 250, 249, 100, 200, 300, 400}
	return append(base, others...)
}()

var qclasses = []uint16{mdns.ClassINET, mdns.ClassANY, mdns.ClassCHAOS, mdns.ClassHESIOD, mdns.ClassNONE, 0x4242}

func (w *world) violate(res *core.Result, sig, msg string, extra map[string]any) {
	wit := map[string]any{"config": w.desc}
	for k, v := range extra {
		wit[k] = v
	}
	res.Violate(sig, msg+" ["+w.desc+"]", wit)
}

// checkLookup compares Server.Lookup with the reference for one internal name.
func (w *world) checkLookup(res *core.Result, n string) bool {
	ip, src := w.srv.Lookup(n)
	wantIP, wantSrc := w.rc.refLookup(n)
	if string(src) != string(wantSrc) || ip != wantIP {
		w.violate(res, fmt.Sprintf("lookup-wrong-source:%s-instead-of-%s", orNone(string(src)), orNone(string(wantSrc))),
			fmt.Sprintf("Lookup(%q) = (%v, %q), reference (%v, %q); sources holding the name: %s", n, ip, src, wantIP, wantSrc, w.rc.sourcesOf(n)),
			map[string]any{"name": n})
		return false
	}
	return true
}

func orNone(s string) string {
	if s == "" {
		return "none"
	}
	return s
}

// checkQuery sends one question through ServeDNS with a recording writer.
func (w *world) checkQuery(res *core.Result, qname string, qtype, qclass uint16) bool {
	q := new(mdns.Msg)
	q.Id = mdns.Id()
	q.Question = []mdns.Question{{Name: qname, Qtype: qtype, Qclass: qclass}}
	rec := &recorder{}
	before := w.panicAlerts()
	w.srv.ServeDNS(rec, q)
	if w.panicAlerts() != before {
		w.violate(res, "serve-panic", fmt.Sprintf("ServeDNS panicked on question (%q, type %d, class %d)", qname, qtype, qclass), map[string]any{"qname": qname, "qtype": qtype, "qclass": qclass})
		return false
	}
	if rec.msg == nil {
		w.violate(res, "no-reply", fmt.Sprintf("no reply to question (%q, type %d, class %d)", qname, qtype, qclass), map[string]any{"qname": qname})
		return false
	}
	return w.judge(res, "direct", rec.msg, qname, qtype, qclass)
}

func (w *world) judge(res *core.Result, via string, reply *mdns.Msg, qname string, qtype, qclass uint16) bool {
	wantIP, positive := w.rc.refQuery(qname, qtype, qclass)
	rcode, addrs := replyAddrs(reply)
	ex := map[string]any{"qname": qname, "qtype": qtype, "qclass": qclass, "via": via}
	if !positive {
		if rcode != mdns.RcodeNameError || len(addrs) > 0 {
			w.violate(res, "answered-what-must-be-name-error", fmt.Sprintf("%s: question (%q, type %d, class %d) got rcode %d with addresses %v, reference: name error", via, qname, qtype, qclass, rcode, addrs), ex)
			return false
		}
		return true
	}
	if rcode != mdns.RcodeSuccess || len(addrs) == 0 {
		w.violate(res, "name-error-for-known-name", fmt.Sprintf("%s: question (%q, type %d, class %d) got rcode %d / no address, reference answer %v", via, qname, qtype, qclass, rcode, wantIP), ex)
		return false
	}
	for _, a := range addrs {
		if a != wantIP {
			w.violate(res, "wrong-address-returned", fmt.Sprintf("%s: question (%q, type %d) answered %v, the first matching source holds %v (sources: %s)", via, qname, qtype, a, wantIP,
				w.rc.sourcesOf(strings.TrimSuffix(asciiLower(qname), "."))), ex)
			return false
		}
	}
	return true
}

var outsiders = []string{"example.com.", "x.myco.evil.", "xmyco.", "myco.", ".", "router.myco.evil.", "router.mycoo.", "router.myc.", "myco.router.", "router\\.myco.",
	"a.b.c.d.e.f.myco.com.", "MYCO.", "router.myco.myco.x.", "intranet.notmyco.", "notmyco.", "www.example.xmyco.", "Intranet.NotMyco.", "a.b.amyco."}

// storedOutsiders: names outside .myco for which a mapping is stored (the store does not validate keys; they can
// arrive through SaveMapping or a loaded state file). A stored mapping never makes such a name answerable.
var storedOutsiders = []string{"example.com", "xmyco", "myco", "intranet.notmyco", "notmyco", "www.example.xmyco", "a.b.amyco", "x.myco.evil"}

func runWorld(res *core.Result, r *rand.Rand, wire bool, tier core.Tier) {
	w, err := buildWorld(r)
	if err != nil {
		res.Count("configs_rejected_by_parser", 1)
		return
	}
	defer w.conn.Close()
	if w.aliases > 0 {
		res.Count("configs_with_two_names_for_one_friend", 1)
	}
	ok := true
	// (1) Lookup for every name of interest.
	for _, n := range w.names {
		if !w.checkLookup(res, n) {
			return
		}
		res.Case("lookup:"+w.rc.sourcesOf(n)+":"+n, strings.Contains(w.rc.sourcesOf(n), "+"))
	}
	// (2) Metamorphic: adding/removing a mapping never changes the answer when a higher source matches.
	for _, n := range w.names {
		_, src := w.rc.refLookup(n)
		if src == "" || src == "mapping" {
			continue
		}
		ipBefore, srcBefore := w.srv.Lookup(n)
		had, hadOK := w.rc.mappings[n]
		_ = w.store.SaveMapping(n, routable(r))
		ip1, src1 := w.srv.Lookup(n)
		_ = w.store.DeleteMapping(n)
		ip2, src2 := w.srv.Lookup(n)
		if hadOK {
			_ = w.store.SaveMapping(n, had)
		}
		if ip1 != ipBefore || src1 != srcBefore || ip2 != ipBefore || src2 != srcBefore {
			w.violate(res, "mapping-shadows-higher-source", fmt.Sprintf("storing/removing a mapping for %q changed its answer from (%v,%s) to (%v,%s)/(%v,%s)", n, ipBefore, srcBefore, ip1, src1, ip2, src2), map[string]any{"name": n})
			return
		}
		res.Case("metamorphic:"+string(src)+":"+n, true)
	}
	// (2b) The same through the DNS handler: a name answered from a stored mapping is asked, the mapping is changed
	// to another router, the name is asked again (same spelling), the mapping is removed, asked again.
	for _, n := range w.names {
		if _, src := w.rc.refLookup(n); src != "mapping" {
			continue
		}
		orig := w.rc.mappings[n]
		if !w.checkQuery(res, n+".", mdns.TypeAAAA, mdns.ClassINET) {
			return
		}
		next := routable(r)
		w.rc.mappings[n] = next
		_ = w.store.SaveMapping(n, next)
		if !w.checkQuery(res, n+".", mdns.TypeAAAA, mdns.ClassINET) || !w.checkQuery(res, n+".", mdns.TypeANY, mdns.ClassINET) {
			return
		}
		delete(w.rc.mappings, n)
		_ = w.store.DeleteMapping(n)
		if !w.checkQuery(res, n+".", mdns.TypeAAAA, mdns.ClassINET) {
			return
		}
		w.rc.mappings[n] = orig
		_ = w.store.SaveMapping(n, orig)
		if !w.checkQuery(res, n+".", mdns.TypeAAAA, mdns.ClassINET) {
			return
		}
		res.Case("remap-through-handler:"+n, true)
		res.Count("mappings_changed_between_queries", 1)
	}
	// (3) Questions through ServeDNS.
	for _, n := range w.names {
		for vi, v := range caseVariants(r, n) {
			qname := v + "."
			types := qtypes
			if tier == core.Quick && vi > 0 {
				types = qtypes[:8]
			}
			for _, qt := range types {
				classes := qclasses
				if qt != mdns.TypeAAAA && qt != mdns.TypeNS {
					classes = qclasses[:3]
				}
				for _, qc := range classes {
					if !w.checkQuery(res, qname, qt, qc) {
						return
					}
					cls := "pos"
					if _, p := w.rc.refQuery(qname, qt, qc); !p {
						cls = "filtered"
					}
					res.Case(fmt.Sprintf("q:%s:%s:%d:%d:%d", w.rc.sourcesOf(n), cls, vi, qt, qc), strings.Contains(w.rc.sourcesOf(n), "+") || cls == "filtered")
				}
			}
		}
	}
	for _, o := range outsiders {
		for _, qt := range []uint16{mdns.TypeA, mdns.TypeAAAA, mdns.TypeANY, mdns.TypeTXT} {
			if _, isName := mdns.IsDomainName(o); !isName {
				continue
			}
			if !w.checkQuery(res, o, qt, mdns.ClassINET) {
				return
			}
			res.Case("outsider:"+o+fmt.Sprint(qt), true)
		}
	}
	// (4) Over the wire: real miekg server on the loopback socket.
	if wire {
		if err := w.srv.Start(); err != nil {
			res.Inconcl("dns server start: %v", err)
			return
		}
		defer func() {
			stopped := make(chan struct{})
			go func() { _ = w.srv.Stop(); close(stopped) }()
			select {
			case <-stopped:
			case <-time.After(15 * time.Second):
				w.violate(res, "resolver-does-not-stop", "the resolver did not stop within 15s (a worker is stuck)", nil)
			}
		}()
		addr := w.conn.LocalAddr().String()
		cl := &mdns.Client{Net: "udp", Timeout: 2 * time.Second}
		probe := func(qname string) bool {
			q := new(mdns.Msg)
			q.Id = mdns.Id()
			q.Question = []mdns.Question{{Name: qname, Qtype: mdns.TypeAAAA, Qclass: mdns.ClassINET}}
			pc := &mdns.Client{Net: "udp", Timeout: 700 * time.Millisecond}
			for try := 0; try < 3; try++ {
				if _, _, err := pc.Exchange(q, addr); err == nil {
					return true
				}
			}
			return false
		}
		send := func(qname string, qt, qc uint16) bool {
			q := new(mdns.Msg)
			q.Id = mdns.Id()
			q.Question = []mdns.Question{{Name: qname, Qtype: qt, Qclass: qc}}
			var reply *mdns.Msg
			var err error
			for try := 0; try < 3; try++ {
				reply, _, err = cl.Exchange(q, addr)
				if err == nil {
					break
				}
			}
			if err != nil {
				res.Count("wire_exchange_errors", 1)
				res.Count("wire_exchange_errors:"+qname, 1)
				return true // inconclusive for this query (watchdog-like), not a verdict
			}
			res.Count("wire_queries_answered", 1)
			return w.judge(res, "wire", reply, qname, qt, qc)
		}
		for _, n := range w.names {
			for _, qt := range []uint16{mdns.TypeAAAA, mdns.TypeA, mdns.TypeHTTPS, mdns.TypeTXT} {
				if !send(strings.ToUpper(n[:1])+n[1:]+".", qt, mdns.ClassINET) {
					ok = false
					break
				}
			}
			if !ok {
				return
			}
		}
		for _, o := range outsiders {
			if _, isName := mdns.IsDomainName(o); !isName {
				continue
			}
			if !send(o, mdns.TypeAAAA, mdns.ClassINET) {
				return
			}
		}
		// Raw packets: malformed, empty question section, multiple questions.
		raw, err := net.Dial("udp", addr)
		if err == nil {
			before := w.panicAlerts()
			pkts := [][]byte{
				{}, {0}, core.RandBytes(r, 11), core.RandBytes(r, 12), core.RandBytes(r, 40), core.RandBytes(r, 600),
				{0x12, 0x34, 0x01, 0x00, 0, 0, 0, 0, 0, 0, 0, 0}, // header only, QDCOUNT=0
				{0x12, 0x35, 0x01, 0x00, 0, 2, 0, 0, 0, 0, 0, 0, 6, 'r', 'o', 'u', 't', 'e', 'r', 4, 'm', 'y', 'c', 'o', 0, 0, 28, 0, 1, 4, 'o', 'p', 'e', 'n', 4, 'm', 'y', 'c', 'o', 0, 0, 28, 0, 1},
				{0x12, 0x36, 0x01, 0x00, 0, 1, 0, 0, 0, 0, 0, 0, 6, 'r', 'o', 'u', 't'},                                                  // truncated question
				{0x12, 0x37, 0x81, 0x80, 0, 1, 0, 0, 0, 0, 0, 0, 6, 'r', 'o', 'u', 't', 'e', 'r', 4, 'm', 'y', 'c', 'o', 0, 0, 28, 0, 1}, // a response, not a query
			}
			for _, p := range pkts {
				_, _ = raw.Write(p)
				_ = raw.SetReadDeadline(time.Now().Add(150 * time.Millisecond))
				buf := make([]byte, 2048)
				n, rerr := raw.Read(buf)
				if rerr == nil {
					reply := new(mdns.Msg)
					if reply.Unpack(buf[:n]) == nil {
						if _, addrs := replyAddrs(reply); reply.Rcode == mdns.RcodeSuccess && len(addrs) > 0 && len(p) >= 12 && p[5] != 1 {
							w.violate(res, "positive-answer-to-malformed-packet", fmt.Sprintf("raw packet %x got a positive answer %v", p, addrs), map[string]any{"packet": fmt.Sprintf("%x", p)})
							return
						}
					}
				}
				res.Count("wire_raw_packets", 1)
			}
			// A well-formed query afterwards must still be served.
			if !send("router.myco.", mdns.TypeAAAA, mdns.ClassINET) {
				return
			}
			// A one-off I/O fault while answering (the socket refuses one write deadline): that answer may be
			// lost, later queries must be answered again (bounded progress: 1 of the next 4, 3 tries each).
			w.fc.failNext.Store(true)
			_ = probe("open.myco.")
			if w.fc.failed.Load() > 0 {
				answered := 0
				for k := 0; k < 4; k++ {
					if probe("router.myco.") {
						answered++
					}
				}
				if answered == 0 {
					w.violate(res, "resolver-silent-after-reply-fault", "after one failed reply (the socket refused a write deadline once) the resolver answered none of the next 4 queries (3 tries of 0.7 s each)", nil)
					return
				}
				res.Count("reply_faults_survived", 1)
			}
			if w.panicAlerts() != before {
				w.violate(res, "serve-panic", "the DNS worker panicked on a raw packet from the wire", nil)
				return
			}
			raw.Close()
		}
	}
	res.Count("configs_explored", 1)
}

func parallel(n int, fn func(w int)) { core.Parallel(n, fn) }

func run(c *core.Ctx) {
	res := c.Res
	if c.RaceBuild {
		for i := 0; i < c.Q(6, 60); i++ {
			concurrent(res, core.RNG(fmt.Sprintf("c19/race/%d", i)), 400)
			concurrentRemap(res, core.RNG(fmt.Sprintf("c19/race-remap/%d", i)), 12)
		}
		return
	}
	for i := 0; i < c.Q(6, 60); i++ {
		concurrent(res, core.RNG(fmt.Sprintf("c19/conc/%d", i)), 3000)
	}
	for i := 0; i < c.Q(6, 60); i++ {
		concurrentRemap(res, core.RNG(fmt.Sprintf("c19/remap/%d", i)), 40)
	}
	parallel(4, func(wi int) {
		for i := 0; i < c.Q(3, 30); i++ {
			restarts(res, core.RNG(fmt.Sprintf("c19/restarts/%d/%d", wi, i)), filepath.Join(c.WorkDir, fmt.Sprintf("restarts-%d-%d", wi, i)))
		}
	})
	for i := 0; i < c.Q(2, 10); i++ {
		handlerEdgeCases(res, core.RNG(fmt.Sprintf("c19/edge/%d", i)))
		burst(res, core.RNG(fmt.Sprintf("c19/burst/%d", i)), 150+150*i)
	}
	n := c.Q(200, 5000)
	const W = 16
	parallel(W, func(wi int) {
		r := core.RNG(fmt.Sprintf("c19/%d", wi))
		for i := wi; i < n; i += W {
			runWorld(res, r, i%10 == 0, c.Tier)
		}
	})
	res.Sample(map[string]any{"friends": []string{"router", "wpad", "alice"}, "resolve": []string{"alice.myco", "wpad.myco"}, "mappings": []string{"router.myco", "alice.myco", "nas.myco"},
		"queries": "every name x {lower,UPPER,mIxEd} x trailing dot x 45 types x classes; outsiders like x.myco.evil."})
	res.Assume("friend names are configured in lower case (queries are lower-cased before the friend lookup; the statement does not say how mixed-case friend names resolve)")
	res.Assume("empty-question and malformed packets only reach the handler through the miekg server, whose accept filter answers them itself; for those only 'no positive answer, no panic' is asserted")
	res.Require(res.Counter("configs_explored") >= int64(n*8/10), "too few configurations explored")
	res.Require(res.Counter("wire_queries_answered") >= 100, "too few wire queries answered")
}
