// Package c16: link registry, switch labels and peer routes stay consistent
// through churn.
package c16

import (
	"errors"
	"fmt"
	"math/rand/v2"
	"net/netip"
	"runtime"
	"strings"
	"sync"
	"sync/atomic"
	"time"

	"github.com/mycoria/mycoria/config"
	"github.com/mycoria/mycoria/frame"
	"github.com/mycoria/mycoria/m"
	"github.com/mycoria/mycoria/peering"

	"verifharness/core"
	"verifharness/env"
	"verifharness/wire"
)

func init() {
	core.Register(&core.Prop{
		ID:    "C16",
		Level: "exploration",
		Rule: "2..5 real peering managers with routing tables; seeded event sequences (length 6..40) over connect(i->j), cross-connect(i,j) with seeded message delays and the directed message order that lets both handshakes pass the 'already connected' test, " +
			"close-local (Link.Close / Peering.CloseLink), close-remote, break (I/O error, EOF mid-handshake); after every event the harness waits for a structural quiescent point and compares GetLink/GetLinkByLabel/GetLinks and the routing table with the set of link objects it knows to be alive; " +
			"also under the race detector; non-trivial = sequence with a cross-connect or a close racing a setup; distinct by event sequence + observed completion pattern",
		Run:         run,
		HasRacePart: true,
		RaceAnchors: []string{`peering\.\(\*Peering\)\.(AddLink|RemoveLink|GetLink|GetLinks|GetLinkByLabel|LinkCnt|CloseLink|closeAllLinks|copyLinksWithLocking|IsStub)`, `m\.\(\*RoutingTable\)`, `peering\.\(\*LinkBase\)\.(Close|assignSwitchLabel)`},
	})
}

type node struct {
	idx   int
	id    *m.Address
	r     *wire.Router
	links []*tracked // every link object a successful setup returned at this node
}

type tracked struct {
	link   peering.Link
	peer   int
	w      *wire.Wire
	end    *wire.Conn // this link's end of the connection (nil for fake links)
	closed bool       // the harness closed it / its connection (must end up closing)
	// abandoned: the link set its closing flag but never finished Close (see quiesce): judged as it stands
	abandoned bool
}

// closeFinished: LinkBase.Close sets the closing flag first, then unregisters the link and the peer route, and
// closes its connection last. The registry may legitimately still hold a link between the first and the last
// step, so "closing" alone is not a quiescent point; "closing and the link has closed its connection" is.
func (t *tracked) closeFinished() bool {
	return t.link.IsClosing() && (t.abandoned || t.end == nil || t.end.OwnerClosed())
}

type world struct {
	res   *core.Result
	r     *rand.Rand
	nodes []*node
	trace []string
	fail  bool
	// lastHandshake: duration of the last completed handshake (sizes the window in which concurrent closes land)
	lastHandshake time.Duration
}

func (w *world) violate(sig, msg string) {
	if w.fail {
		return
	}
	w.fail = true
	w.res.Violate(sig, msg+" (events: "+strings.Join(w.trace[max(0, len(w.trace)-8):], "; ")+")", map[string]any{"events": w.trace, "case_id": strings.Join(w.trace, ";")})
}

func newWorld(res *core.Result, r *rand.Rand, ids []*m.Address, n int) *world {
	w := &world{res: res, r: r}
	for i := 0; i < n; i++ {
		w.nodes = append(w.nodes, &node{idx: i, id: ids[i], r: wire.NewRouter(ids[i], config.Router{Universe: "c16"})})
	}
	return w
}

func (w *world) record(n *node, res wire.SetupResult, peer int, wr *wire.Wire, end *wire.Conn) *tracked {
	if res.Err != nil || res.Link == nil {
		return nil
	}
	t := &tracked{link: res.Link, peer: peer, w: wr, end: end}
	n.links = append(n.links, t)
	return t
}

// connect runs one connection i -> j (i dials).
func (w *world) connect(i, j int) {
	w.trace = append(w.trace, fmt.Sprintf("connect(%d->%d)", i, j))
	wr := wire.New()
	t0 := time.Now()
	ra, rb, ok := wire.Handshake(wr, w.nodes[i].r, w.nodes[j].r, 20*time.Second)
	if ok && ra.Err == nil && rb.Err == nil {
		w.lastHandshake = time.Since(t0)
	}
	if !ok {
		w.res.Inconcl("handshake watchdog")
		w.fail = true
		return
	}
	w.record(w.nodes[i], ra, j, wr, wr.A)
	w.record(w.nodes[j], rb, i, wr, wr.B)
	if ra.Err == nil && rb.Err == nil {
		w.res.Count("connects_completed", 1)
	} else {
		w.res.Count("connects_refused", 1)
	}
}

func waitFor(cond func() bool, d time.Duration) bool {
	deadline := time.Now().Add(d)
	for time.Now().Before(deadline) {
		if cond() {
			return true
		}
		time.Sleep(200 * time.Microsecond)
	}
	return cond()
}

// crossDirected runs two connections i->j and j->i in the message order that satisfies the
// per-peer timestamp filter and lets the second request pass the "already connected" test.
func (w *world) crossDirected(i, j int) {
	w.trace = append(w.trace, fmt.Sprintf("cross-connect-directed(%d,%d)", i, j))
	w1, w2 := wire.New(), wire.New()
	for d := wire.AtoB; d <= wire.BtoA; d++ {
		w1.Hold(d, 1)
		w1.Hold(d, 2)
		w2.Hold(d, 0)
		w2.Hold(d, 1)
		w2.Hold(d, 2)
	}
	type out struct{ ra, rb wire.SetupResult }
	c1, c2 := make(chan out, 1), make(chan out, 1)
	var fin1, fin2 atomic.Bool
	go func() {
		ra, rb, _ := wire.Handshake(w1, w.nodes[i].r, w.nodes[j].r, 30*time.Second)
		fin1.Store(true)
		c1 <- out{ra, rb}
	}()
	both := func(wr *wire.Wire, idx int) func() bool {
		return func() bool { return wr.Parked(wire.AtoB, idx) && wr.Parked(wire.BtoA, idx) }
	}
	// a handshake that ends early (e.g. refused: already connected) ends the waiting
	waitFor := func(cond func() bool, d time.Duration) bool {
		waitFor(func() bool { return cond() || fin1.Load() || fin2.Load() }, d)
		return cond()
	}
	okSched := waitFor(both(w1, 1), 10*time.Second) // both responses of connection 1 created and parked
	time.Sleep(3 * time.Millisecond)                // the second requests get a later timestamp
	go func() {
		ra, rb, _ := wire.Handshake(w2, w.nodes[j].r, w.nodes[i].r, 30*time.Second)
		fin2.Store(true)
		c2 <- out{ra, rb}
	}()
	okSched = okSched && waitFor(both(w2, 0), 10*time.Second)
	time.Sleep(2 * time.Millisecond)
	w1.Release(wire.AtoB, 1)
	w1.Release(wire.BtoA, 1)
	okSched = okSched && waitFor(both(w1, 2), 10*time.Second) // acks of connection 1 created
	w2.Release(wire.AtoB, 0)
	w2.Release(wire.BtoA, 0)
	okSched = okSched && waitFor(both(w2, 1), 10*time.Second) // requests of connection 2 accepted, responses created
	w1.Release(wire.AtoB, 2)
	w1.Release(wire.BtoA, 2)
	var o1, o2 out
	select {
	case o1 = <-c1:
	case <-time.After(30 * time.Second):
		w.res.Inconcl("cross-connect: connection 1 watchdog")
		w.fail = true
	}
	w2.Release(wire.AtoB, 1)
	w2.Release(wire.BtoA, 1)
	waitFor(both(w2, 2), 5*time.Second)
	w2.ReleaseAll()
	w1.ReleaseAll()
	select {
	case o2 = <-c2:
	case <-time.After(30 * time.Second):
		w.res.Inconcl("cross-connect: connection 2 watchdog")
		w.fail = true
	}
	if w.fail {
		return
	}
	w.record(w.nodes[i], o1.ra, j, w1, w1.A)
	w.record(w.nodes[j], o1.rb, i, w1, w1.B)
	w.record(w.nodes[j], o2.ra, i, w2, w2.A)
	w.record(w.nodes[i], o2.rb, j, w2, w2.B)
	n := 0
	for _, r := range []wire.SetupResult{o1.ra, o1.rb, o2.ra, o2.rb} {
		if r.Err == nil && r.Link != nil {
			n++
		}
	}
	if !okSched {
		w.res.Count("cross_connect_directed_schedule_not_reached", 1)
	}
	w.res.Count(fmt.Sprintf("cross_connect_directed_%d_of_4_setups_succeeded", n), 1)
}

// crossRandom dials both ways at the same time with seeded per-message delays.
func (w *world) crossRandom(i, j int) {
	w.trace = append(w.trace, fmt.Sprintf("cross-connect(%d,%d)", i, j))
	w1, w2 := wire.New(), wire.New()
	delays := make([]time.Duration, 12)
	for k := range delays {
		delays[k] = time.Duration(w.r.IntN(1500)) * time.Microsecond
	}
	mk := func(off int) func(d wire.Dir, idx int, _ []byte) {
		return func(d wire.Dir, idx int, _ []byte) {
			if idx < 3 {
				time.Sleep(delays[off+int(d)*3+idx])
			}
		}
	}
	w1.Gate, w2.Gate = mk(0), mk(6)
	var wg sync.WaitGroup
	var a1, b1, a2, b2 wire.SetupResult
	wg.Add(2)
	go func() { defer wg.Done(); a1, b1, _ = wire.Handshake(w1, w.nodes[i].r, w.nodes[j].r, 30*time.Second) }()
	if w.r.IntN(2) == 0 {
		time.Sleep(time.Duration(w.r.IntN(3000)) * time.Microsecond)
	}
	go func() { defer wg.Done(); a2, b2, _ = wire.Handshake(w2, w.nodes[j].r, w.nodes[i].r, 30*time.Second) }()
	wg.Wait()
	w.record(w.nodes[i], a1, j, w1, w1.A)
	w.record(w.nodes[j], b1, i, w1, w1.B)
	w.record(w.nodes[j], a2, i, w2, w2.A)
	w.record(w.nodes[i], b2, j, w2, w2.B)
	n := 0
	for _, r := range []wire.SetupResult{a1, b1, a2, b2} {
		if r.Err == nil && r.Link != nil {
			n++
		}
	}
	w.res.Count(fmt.Sprintf("cross_connect_random_%d_of_4_setups_succeeded", n), 1)
}

func (w *world) liveLinks(n *node) []*tracked {
	var out []*tracked
	for _, t := range n.links {
		if !t.link.IsClosing() {
			out = append(out, t)
		}
	}
	return out
}

// closeSome closes a live link in one of several ways.
func (w *world) closeSome() {
	var cands []*node
	for _, n := range w.nodes {
		if len(w.liveLinks(n)) > 0 {
			cands = append(cands, n)
		}
	}
	if len(cands) == 0 {
		return
	}
	n := cands[w.r.IntN(len(cands))]
	ll := w.liveLinks(n)
	t := ll[w.r.IntN(len(ll))]
	markBoth := func() {
		for _, o := range w.nodes[t.peer].links {
			if o.w == t.w {
				o.closed = true
			}
		}
		t.closed = true
	}
	switch w.r.IntN(6) {
	case 5:
		// the connection dies silently: reads go on waiting, the next write fails - and both ends do write (a
		// keep-alive, a forwarded frame)
		w.trace = append(w.trace, fmt.Sprintf("writes-fail(%d<->%d: reads keep waiting)", n.idx, t.peer))
		markBoth()
		t.w.BreakWrites(errors.New("injected write error: connection timed out"))
		ends := []*tracked{t}
		for _, o := range w.nodes[t.peer].links {
			if o.w == t.w {
				ends = append(ends, o)
			}
		}
		for k, e := range ends {
			from := n
			if k > 0 {
				from = w.nodes[t.peer]
			}
			for j := 0; j < 2; j++ {
				f, err := from.r.Inst.BuilderV.NewFrameV1(from.id.IP, e.link.Peer(), frame.RouterPing, nil, []byte("c16 frame for a dead connection"), nil)
				if err == nil {
					_ = e.link.Send(f)
				}
			}
		}
		w.res.Count("connections_that_died_silently", 1)
	case 0:
		w.trace = append(w.trace, fmt.Sprintf("close-local(%d: link to %d)", n.idx, t.peer))
		markBoth()
		t.link.Close(nil)
	case 1:
		w.trace = append(w.trace, fmt.Sprintf("close-by-manager(%d: peer %d)", n.idx, t.peer))
		// CloseLink closes whatever is registered for that peer
		reg := n.r.Inst.PeeringV.GetLink(w.nodes[t.peer].id.IP)
		for _, o := range n.links {
			if o.link == reg {
				o.closed = true
				for _, p := range w.nodes[o.peer].links {
					if p.w == o.w {
						p.closed = true
					}
				}
			}
		}
		n.r.Inst.PeeringV.CloseLink(w.nodes[t.peer].id.IP)
	case 2:
		w.trace = append(w.trace, fmt.Sprintf("close-remote(%d: the far end %d closes)", n.idx, t.peer))
		markBoth()
		for _, o := range w.nodes[t.peer].links {
			if o.w == t.w {
				o.link.Close(nil)
			}
		}
	case 3:
		w.trace = append(w.trace, fmt.Sprintf("break(%d<->%d: I/O error)", n.idx, t.peer))
		markBoth()
		t.w.Break(errors.New("injected i/o error"))
	default:
		w.trace = append(w.trace, fmt.Sprintf("eof(%d<->%d)", n.idx, t.peer))
		markBoth()
		t.w.A.Cut()
		t.w.B.Cut()
	}
}

// gossipRoute: a node with live links to P and Q learns a gossip route "P via Q" (Q announces its peer P), as
// the announcement handler would store it. The direct-peer route for the live link to P must stay.
func (w *world) gossipRoute() {
	for _, n := range w.nodes {
		ll := w.liveLinks(n)
		if len(ll) < 2 {
			continue
		}
		a, b := w.r.IntN(len(ll)), w.r.IntN(len(ll)-1)
		if b >= a {
			b++
		}
		P, Q := w.nodes[ll[a].peer], w.nodes[ll[b].peer]
		if P.id.IP == Q.id.IP {
			continue
		}
		w.trace = append(w.trace, fmt.Sprintf("gossip-route(%d: %d via %d)", n.idx, P.idx, Q.idx))
		_, _ = n.r.Inst.RoutingTable().AddRoute(m.RoutingTableEntry{
			DstIP: P.id.IP, NextHop: Q.id.IP, Source: m.RouteSourceGossip, Expires: time.Now().Add(time.Hour),
			Path: m.SwitchPath{Hops: []m.SwitchHop{
				{Router: n.id.IP, ForwardLabel: ll[b].link.SwitchLabel()},
				{Router: Q.id.IP, ForwardLabel: 77, ReturnLabel: 78, Delay: 3},
				{Router: P.id.IP, ReturnLabel: 79, Delay: 4},
			}},
		})
		w.res.Count("gossip_routes_added", 1)
		return
	}
}

// housekeepingDuring: the routing table's housekeeping (Clean: expiry, per-prefix trimming, re-sorting) runs on
// its own timer, i.e. concurrently with links coming and going. Node i holds a few thousand gossip routes via one
// of its live peers (so that a cleaning pass takes long enough to overlap anything), a goroutine cleans the table
// over and over, and meanwhile a link of node i is set up or closed. The registry/route invariants are checked at
// the following quiescent point as after any other event.
func (w *world) housekeepingDuring(i, j int) {
	n := w.nodes[i]
	ll := w.liveLinks(n)
	if len(ll) == 0 {
		w.connect(i, j)
		if w.fail || !w.quiesce() {
			return
		}
		ll = w.liveLinks(n)
		if len(ll) == 0 {
			return
		}
	}
	via := ll[w.r.IntN(len(ll))]
	viaIP := w.nodes[via.peer].id.IP
	tbl := n.r.Inst.RoutingTable()
	for k := 0; k < 4000; k++ {
		var a [16]byte
		copy(a[:], core.RandBytes(w.r, 16))
		a[0], a[1] = 0xfd, byte(0x10+w.r.IntN(0x60))
		dst := netip.AddrFrom16(a)
		_, _ = tbl.AddRoute(m.RoutingTableEntry{
			DstIP: dst, NextHop: viaIP, Source: m.RouteSourceGossip, Expires: time.Now().Add(time.Hour),
			Path: m.SwitchPath{Hops: []m.SwitchHop{
				{Router: n.id.IP, ForwardLabel: via.link.SwitchLabel()},
				{Router: viaIP, ForwardLabel: 77, ReturnLabel: 78, Delay: 3},
				{Router: dst, ReturnLabel: 79, Delay: 4},
			}},
		})
	}
	w.res.Count("housekeeping_table_entries", int64(len(tbl.VerifEntries())))
	var stop atomic.Bool
	var wg sync.WaitGroup
	wg.Add(1)
	cleans := 0
	go func() {
		defer wg.Done()
		for !stop.Load() {
			tbl.Clean()
			cleans++
		}
	}()
	time.Sleep(time.Duration(200+w.r.IntN(800)) * time.Microsecond)
	// the link event that overlaps the cleaning: a new link of node i, or one of its links goes away
	others := []int{}
	for k := range w.nodes {
		if k != i {
			others = append(others, k)
		}
	}
	k := others[w.r.IntN(len(others))]
	if w.r.IntN(3) > 0 {
		w.trace = append(w.trace, fmt.Sprintf("table-housekeeping(%d)-during:", i))
		w.connect(i, k)
	} else {
		victim := ll[w.r.IntN(len(ll))]
		w.trace = append(w.trace, fmt.Sprintf("table-housekeeping(%d)-during-close-local(%d: link to %d)", i, i, victim.peer))
		for _, o := range w.nodes[victim.peer].links {
			if o.w == victim.w {
				o.closed = true
			}
		}
		victim.closed = true
		victim.link.Close(nil)
	}
	time.Sleep(time.Duration(200+w.r.IntN(800)) * time.Microsecond)
	stop.Store(true)
	wg.Wait()
	w.res.Count("housekeeping_passes_during_link_events", int64(cleans))
	w.res.Count("link_events_during_housekeeping", 1)
}

// closeDuringConnect: the manager closes the link to one peer while a connection to another peer is being set up.
func (w *world) closeDuringConnect(i, j int) {
	n := w.nodes[i]
	var victim *tracked
	for _, t := range w.liveLinks(n) {
		if t.peer != j {
			victim = t
			break
		}
	}
	if victim == nil {
		w.connect(i, j)
		return
	}
	w.trace = append(w.trace, fmt.Sprintf("close-by-manager(%d: peer %d)-during-connect(%d->%d)", i, victim.peer, i, j))
	reg := n.r.Inst.PeeringV.GetLink(w.nodes[victim.peer].id.IP)
	for _, o := range n.links {
		if o.link == reg {
			o.closed = true
			for _, p := range w.nodes[o.peer].links {
				if p.w == o.w {
					p.closed = true
				}
			}
		}
	}
	// the close lands anywhere from the start of the handshake to shortly after it usually ends
	span := w.lastHandshake*3/2 + 200*time.Microsecond
	delay := time.Duration(w.r.Int64N(int64(span)))
	t0 := time.Now()
	done := make(chan struct{})
	go func() {
		defer close(done)
		time.Sleep(delay)
		n.r.Inst.PeeringV.CloseLink(w.nodes[victim.peer].id.IP)
	}()
	wr := wire.New()
	ra, rb, ok := wire.Handshake(wr, n.r, w.nodes[j].r, 20*time.Second)
	if ra.Err == nil && rb.Err == nil {
		w.lastHandshake = time.Since(t0)
	}
	<-done
	if !ok {
		w.res.Inconcl("handshake watchdog")
		w.fail = true
		return
	}
	w.record(n, ra, j, wr, wr.A)
	w.record(w.nodes[j], rb, i, wr, wr.B)
	w.res.Count("closes_during_connect", 1)
}

// brokenSetup starts a connection and kills it mid-handshake.
func (w *world) brokenSetup(i, j int) {
	at := w.r.IntN(3)
	dir := wire.Dir(w.r.IntN(2))
	w.trace = append(w.trace, fmt.Sprintf("connect-broken(%d->%d at message %d %s)", i, j, at, dir))
	wr := wire.New()
	var once sync.Once
	wr.Gate = func(d wire.Dir, idx int, _ []byte) {
		if idx == at && d == dir {
			once.Do(func() { wr.Break(errors.New("injected i/o error during setup")) })
		}
	}
	ra, rb, ok := wire.Handshake(wr, w.nodes[i].r, w.nodes[j].r, 20*time.Second)
	if !ok {
		w.res.Inconcl("handshake watchdog")
		w.fail = true
		return
	}
	if t := w.record(w.nodes[i], ra, j, wr, wr.A); t != nil {
		t.closed = true
	}
	if t := w.record(w.nodes[j], rb, i, wr, wr.B); t != nil {
		t.closed = true
	}
}

// fakeLink is a harness-made link object (what a setup holds between choosing its label and registering).
type fakeLink struct {
	peering.Link // nil: only the methods below are used by the registry
	peer         netip.Addr
	label        m.SwitchLabel
	closing      bool
}

func (f *fakeLink) Peer() netip.Addr           { return f.peer }
func (f *fakeLink) SwitchLabel() m.SwitchLabel { return f.label }
func (f *fakeLink) IsClosing() bool            { return f.closing }
func (f *fakeLink) Lite() bool                 { return false }
func (f *fakeLink) String() string             { return "fake link" }
func (f *fakeLink) Close(func())               { f.closing = true }

// labelCollision emulates the interleaving "two setups chose the same free switch label, then both register":
// a second link object with the label of a live link is registered through the exported AddLink.
func (w *world) labelCollision() {
	var cands []*node
	for _, n := range w.nodes {
		if len(w.liveLinks(n)) > 0 {
			cands = append(cands, n)
		}
	}
	if len(cands) == 0 {
		return
	}
	n := cands[w.r.IntN(len(cands))]
	ll := w.liveLinks(n)
	t := ll[w.r.IntN(len(ll))]
	// a peer this node has no link to
	other := -1
	for _, o := range w.nodes {
		if o.idx != n.idx && n.r.Inst.PeeringV.GetLink(o.id.IP) == nil {
			other = o.idx
		}
	}
	if other < 0 {
		return
	}
	w.trace = append(w.trace, fmt.Sprintf("register-second-link-with-label-of-live-link(%d: label %d, new peer %d)", n.idx, t.link.SwitchLabel(), other))
	fl := &fakeLink{peer: w.nodes[other].id.IP, label: t.link.SwitchLabel()}
	if err := n.r.Inst.PeeringV.AddLink(fl); err != nil {
		w.res.Count("label_collisions_refused", 1)
		return
	}
	// accepted: it is now a live, registered link like any other
	n.links = append(n.links, &tracked{link: fl, peer: other, w: wire.New()})
	w.res.Count("label_collisions_accepted", 1)
}

// quiesce waits until every link the harness closed has finished closing, and until every link that reports
// closing for any other reason (refused as duplicate, closed by its reader after the far end went away) has
// finished, too. The wait is structural (see closeFinished); a Close that is still unfinished after 6 s without a process
// stall was abandoned half-way and is judged as it stands.
func (w *world) quiesce() bool {
	t0 := time.Now()
	pendingLinks := func() []*tracked {
		var out []*tracked
		for _, n := range w.nodes {
			for _, t := range n.links {
				if (t.closed || t.link.IsClosing()) && !t.closeFinished() && !t.abandoned {
					out = append(out, t)
				}
			}
		}
		return out
	}
	describe := func(ts []*tracked) string {
		d := ""
		for _, t := range ts {
			d += fmt.Sprintf("[link to %d outgoing=%v closing=%v] ", t.peer, t.link.Outgoing(), t.link.IsClosing())
		}
		return d
	}
	settle := func() bool {
		if waitFor(func() bool { return len(pendingLinks()) == 0 }, 6*time.Second) {
			return true
		}
		// Close takes microseconds. A link that has set its closing flag but has not closed its connection six
		// seconds later, on a machine that did not stand still meanwhile, is not "still closing": its Close was
		// abandoned half-way (its goroutine is gone - a recovered panic, an early return). Nothing more will
		// happen, so this IS the quiescent state, and the invariants are judged on it. A link whose connection the
		// harness cut but that never even noticed stays a watchdog matter (inconclusive).
		if core.StalledSince(t0) {
			w.res.Inconcl("links did not finish closing within 6s and the process stalled meanwhile: %s", describe(pendingLinks()))
			w.fail = true
			return false
		}
		for _, t := range pendingLinks() {
			if !t.link.IsClosing() && t.w.FailedWrites(wire.AtoB) > 0 && t.w.FailedWrites(wire.BtoA) > 0 {
				// both ends have written to the dead connection and got the I/O error back: there is nothing left
				// for a link to notice - it keeps a connection it knows to be broken
				w.res.Violate("link-keeps-registered-after-write-error", fmt.Sprintf("a link whose writes fail with an I/O error (%d and %d writes were refused) is not closing six seconds later and stays registered: %s; events: %s", t.w.FailedWrites(wire.AtoB), t.w.FailedWrites(wire.BtoA), describe(pendingLinks()), strings.Join(w.trace[max(0, len(w.trace)-5):], "; ")), map[string]any{"events": w.trace, "case_id": strings.Join(w.trace, ";")})
				w.fail = true
				return false
			}
			if !t.link.IsClosing() {
				w.res.Inconcl("a link whose connection was closed did not start closing within 6s: %s events: %s", describe(pendingLinks()), strings.Join(w.trace[max(0, len(w.trace)-5):], "; "))
				w.fail = true
				return false
			}
			t.abandoned = true
			w.res.Count("closes_abandoned_half_way", 1)
		}
		return true
	}
	if !settle() {
		return false
	}
	time.Sleep(300 * time.Microsecond)
	// a far end may have noticed the close only now: let those finish as well
	return settle()
}

// check evaluates the registry/table invariants at a quiescent point. A verdict counts only if no link changed
// its closing state while the invariants were read and no Close was in progress (closing flag set, connection
// not yet closed by the link): otherwise the point was not quiescent and the next one decides.
func (w *world) check() {
	snap := func() (string, bool) {
		st, inProgress := "", false
		for _, n := range w.nodes {
			for _, t := range n.links {
				c := t.link.IsClosing()
				if c && !t.closeFinished() {
					inProgress = true
				}
				if c {
					st += "c"
				} else {
					st += "l"
				}
			}
		}
		return st, inProgress
	}
	before, inProgress := snap()
	if inProgress {
		w.res.Count("checks_skipped_close_in_progress", 1)
		return
	}
	sig, msg := w.checkOnce()
	after, inProgress := snap()
	if sig == "" {
		return
	}
	if before != after || inProgress {
		w.res.Count("checks_skipped_state_changed_during_check", 1)
		return
	}
	w.violate(sig, msg)
}

func (w *world) checkOnce() (string, string) {
	for _, n := range w.nodes {
		p := n.r.Inst.PeeringV
		labels := map[m.SwitchLabel]*tracked{}
		livePeers := map[netip.Addr]bool{}
		for _, t := range n.links {
			peerIP := w.nodes[t.peer].id.IP
			if t.link.IsClosing() {
				if p.GetLink(peerIP) == t.link || p.GetLinkByLabel(t.link.SwitchLabel()) == t.link {
					return "closing-link-still-registered", fmt.Sprintf("node %d: a closing link to node %d can still be found in the registry", n.idx, t.peer)
				}
				continue
			}
			livePeers[peerIP] = true
			if t.link.SwitchLabel() == 0 {
				return "live-link-without-label", fmt.Sprintf("node %d: live link to node %d has switch label 0", n.idx, t.peer)
			}
			if o := labels[t.link.SwitchLabel()]; o != nil {
				return "duplicate-switch-label", fmt.Sprintf("node %d: two live links (to nodes %d and %d) share switch label %d", n.idx, o.peer, t.peer, t.link.SwitchLabel())
			}
			labels[t.link.SwitchLabel()] = t
			if p.GetLink(peerIP) != t.link {
				return "live-link-not-found-by-peer", fmt.Sprintf("node %d: an established, not-closing link to node %d is not the one GetLink returns (registry has %v)", n.idx, t.peer, p.GetLink(peerIP))
			}
			if p.GetLinkByLabel(t.link.SwitchLabel()) != t.link {
				return "live-link-not-found-by-label", fmt.Sprintf("node %d: an established, not-closing link to node %d cannot be found by its switch label %d", n.idx, t.peer, t.link.SwitchLabel())
			}
		}
		for _, l := range p.GetLinks() {
			if l.IsClosing() {
				return "closing-link-listed", fmt.Sprintf("node %d: GetLinks lists a closing link", n.idx)
			}
		}
		routes := map[netip.Addr]bool{}
		for _, e := range n.r.Inst.RoutingTable().VerifEntries() {
			if e.Source == m.RouteSourcePeer {
				routes[e.DstIP] = true
			}
			if !livePeers[e.NextHop] {
				return "route-without-live-link", fmt.Sprintf("node %d: a route to %s uses next hop %s, to which there is no live link", n.idx, e.DstIP, e.NextHop)
			}
		}
		for ip := range livePeers {
			if !routes[ip] {
				return "live-link-without-peer-route", fmt.Sprintf("node %d: there is a live link to %s but no direct-peer route", n.idx, ip)
			}
		}
		for ip := range routes {
			if !livePeers[ip] {
				return "peer-route-without-live-link", fmt.Sprintf("node %d: direct-peer route for %s but no live link", n.idx, ip)
			}
		}
	}
	return "", ""
}

func (w *world) teardown() {
	for _, n := range w.nodes {
		for _, t := range n.links {
			t.link.Close(nil)
		}
	}
	for _, n := range w.nodes {
		for _, t := range n.links {
			t.w.A.Close()
			t.w.B.Close()
		}
	}
}

func runSequence(res *core.Result, r *rand.Rand, ids []*m.Address, keyPrefix string) {
	n := 2 + r.IntN(4)
	w := newWorld(res, r, ids, n)
	defer w.teardown()
	if r.IntN(2) == 0 {
		// Readers of the registry run next to the events, as they do in a router (keep-alive, announcements, the
		// switch looking up labels): what they do must not matter for what the registry says at the next quiescent point.
		var stop atomic.Bool
		var readers sync.WaitGroup
		for g := 0; g < 2; g++ {
			readers.Add(1)
			core.OnHelper(func() {
				defer readers.Done()
				for k := 0; !stop.Load(); k++ {
					nd := w.nodes[k%len(w.nodes)]
					for _, l := range nd.r.Inst.PeeringV.GetLinks() {
						_ = nd.r.Inst.PeeringV.GetLinkByLabel(l.SwitchLabel())
						_ = nd.r.Inst.PeeringV.GetLink(l.Peer())
					}
					if k%64 == 63 {
						runtime.Gosched()
					}
				}
			})
		}
		defer func() { stop.Store(true); readers.Wait() }()
		res.Count("sequences_with_concurrent_registry_readers", 1)
	}
	nev := 6 + r.IntN(35)
	interesting := false
	lastPair := [2]int{-1, -1}
	var lastAt time.Time
	for e := 0; e < nev && !w.fail; e++ {
		i := r.IntN(n)
		j := r.IntN(n - 1)
		if j >= i {
			j++
		}
		// same-pair handshakes need >= 3 ms between them (per-peer timestamp filter): workload shaping only
		if (lastPair == [2]int{i, j} || lastPair == [2]int{j, i}) && time.Since(lastAt) < 4*time.Millisecond {
			time.Sleep(4 * time.Millisecond)
		}
		switch k := r.IntN(100); {
		case k < 35:
			w.connect(i, j)
		case k < 50:
			w.crossDirected(i, j)
			interesting = true
		case k < 62:
			w.crossRandom(i, j)
			interesting = true
		case k < 70:
			w.brokenSetup(i, j)
			interesting = true
		case k < 76:
			w.labelCollision()
			interesting = true
		case k < 82:
			w.gossipRoute()
			interesting = true
		case k < 86:
			w.closeDuringConnect(i, j)
			interesting = true
		case k < 90:
			w.housekeepingDuring(i, j)
			interesting = true
		default:
			w.closeSome()
		}
		lastPair, lastAt = [2]int{i, j}, time.Now()
		if w.fail {
			return
		}
		if !w.quiesce() {
			return
		}
		w.check()
	}
	if !w.fail {
		res.Case(keyPrefix+strings.Join(w.trace, ";"), interesting)
		res.Count("sequences_completed", 1)
		res.Count("quiescent_points_checked", int64(nev))
		if len(res.Samples) < 2 {
			res.Sample(w.trace[:min(10, len(w.trace))])
		}
	}
}

func parallel(n int, fn func(w int)) { core.Parallel(n, fn) }

func run(c *core.Ctx) {
	res := c.Res
	rid := core.RNG("c16/ids")
	// identities whose derived switch labels collide are interesting: pick a few with equal last bytes if found
	ids := make([]*m.Address, 5)
	for i := range ids {
		ids[i] = env.NewIdentity(rid, nil)
	}
	n := c.Q(150, 5000)
	prefix := ""
	W := 8
	if c.RaceBuild {
		n = c.Q(60, 1500)
		prefix = "race:"
		W = 4
	}
	parallel(W, func(w int) {
		r := core.RNG(fmt.Sprintf("c16/%s%d", prefix, w))
		// each worker uses its own identity set (sessions/timestamp filters are per identity pair)
		// Two of the five have an address from which no switch label can be derived (geo-marked with a zero low
		// label byte; privacy addresses with a small tail are the same case but cost 2^15 key generations each): their links get a random label, which must be non-zero too.
		my := make([]*m.Address, 5)
		for i := range my {
			switch {
			case (i == 1 || i == 3) && !c.RaceBuild: // (grinding such identities is too slow under the race detector)
				my[i] = env.NewIdentity(r, func(ip netip.Addr) bool {
					_, ok := m.DeriveSwitchLabelFromIP(ip)
					return !ok && m.GetAddressType(ip) == m.TypeGeoMarked
				})
			default:
				my[i] = env.NewIdentity(r, nil)
			}
		}
		for i := w; i < n; i += W {
			runSequence(res, r, my, prefix)
		}
	})
	_ = ids
	res.Assume("goroutine interleavings are sampled by the Go scheduler plus seeded delays at message boundaries, not enumerated; the directed cross-connect order is forced with message holds at the wire")
	res.Assume("same-pair handshakes are spaced by >= 4 ms (the per-peer signed-timestamp filter legitimately refuses closer ones); no oracle reads a clock")
	res.Require(res.Counter("sequences_completed") >= int64(n*7/10) || res.ViolationCount() > 0, "too few sequences completed")
}
