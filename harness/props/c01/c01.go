// Package c01: self-certifying addresses — an identity is accepted only if
// address = hash(key).
package c01

import (
	"context"
	"crypto/ed25519"
	"crypto/sha256"
	"crypto/sha512"
	"encoding/binary"
	"encoding/hex"
	"errors"
	"fmt"
	"hash"
	"math/rand/v2"
	"net/netip"
	"slices"
	"strings"
	"time"

	"github.com/fxamacker/cbor/v2"
	"github.com/zeebo/blake3"
	"golang.org/x/crypto/blake2b"
	"golang.org/x/crypto/blake2s"
	"golang.org/x/crypto/sha3"

	"github.com/mycoria/crop"
	"github.com/mycoria/mycoria/config"
	"github.com/mycoria/mycoria/frame"
	"github.com/mycoria/mycoria/m"
	"github.com/mycoria/mycoria/router"
	"github.com/mycoria/mycoria/storage"

	"verifharness/core"
	"verifharness/env"
	"verifharness/vmesh"
	"verifharness/wire"
)

func init() {
	core.Register(&core.Prop{
		ID:    "C01",
		Level: "exploration",
		Rule: "valid seeded identities plus every single-field corruption (each address bit; hash name -> every other valid name / unknown / empty / 300 bytes; key type -> unknown / empty / 300 bytes; key bytes flipped, truncated, extended; easing changed) plus ground identities (corrupt material whose digest really matches an fd00::/8 address: odd key sizes, unknown key types, other valid hash algorithms), " +
			"each presented at the four entry points (AddressFromStorage; a signed peering request over the wire; a first-contact ping header; the outermost hop record of an announcement) and compared with a reference built directly on the hash libraries; generator outputs for seeded prefix/ignore/easing sets are checked against the same reference; " +
			"non-trivial = corruption of exactly one field that still parses, or a ground identity; distinct by (entry point, field, corruption class, value)",
		Run:              run,
		HasRacePart:      true,
		RaceAnchors:      []string{`m\.generateAddressMultiCore`, `m\.tryToGenerateAddress`},
		CrashIsViolation: true,
	})
}

var hashers = map[string]func() hash.Hash{
	"SHA2_224": sha256.New224, "SHA2_256": sha256.New, "SHA2_384": sha512.New384, "SHA2_512": sha512.New,
	"SHA2_512_224": sha512.New512_224, "SHA2_512_256": sha512.New512_256,
	"SHA3_224": sha3.New224, "SHA3_256": sha3.New256, "SHA3_384": sha3.New384, "SHA3_512": sha3.New512,
	"BLAKE2s_256": func() hash.Hash { h, _ := blake2s.New256(nil); return h },
	"BLAKE2b_256": func() hash.Hash { h, _ := blake2b.New256(nil); return h },
	"BLAKE2b_384": func() hash.Hash { h, _ := blake2b.New384(nil); return h },
	"BLAKE2b_512": func() hash.Hash { h, _ := blake2b.New512(nil); return h },
	"BLAKE3":      func() hash.Hash { return blake3.New() },
}

var hashNames = []string{"SHA2_224", "SHA2_256", "SHA2_384", "SHA2_512", "SHA2_512_224", "SHA2_512_256", "SHA3_224", "SHA3_256", "SHA3_384", "SHA3_512", "BLAKE2s_256", "BLAKE2b_256", "BLAKE2b_384", "BLAKE2b_512", "BLAKE3"}

// identity is what an entry point is presented with.
type identity struct {
	ip     netip.Addr
	hash   string
	ktype  string
	key    []byte
	easing uint64
	priv   ed25519.PrivateKey // nil if nobody holds a key for it
	field  string             // which field was corrupted ("" = valid)
	class  string
}

// digest computes the reference digest; ok=false if the material cannot be encoded.
func digest(hname, ktype string, key []byte, easing uint64) ([]byte, bool) {
	mk, known := hashers[hname]
	if !known || len(ktype) > 255 || len(key) > 0xFFFF {
		return nil, false
	}
	h := mk()
	buf := []byte{1, byte(len(ktype)), byte(len(key) >> 8), byte(len(key))}
	buf = append(buf, ktype...)
	buf = append(buf, key...)
	h.Write(buf)
	if easing > 0 {
		var e [8]byte
		binary.BigEndian.PutUint64(e[:], easing)
		h.Write(e[:])
	}
	return h.Sum(nil), true
}

// refAccept is the reference written from the statement.
func refAccept(id identity) bool {
	if _, ok := hashers[id.hash]; !ok {
		return false
	}
	if id.ktype != "Ed25519" || len(id.key) != 32 {
		return false
	}
	if !id.ip.IsValid() || !id.ip.Is6() || id.ip.As16()[0] != 0xfd {
		return false
	}
	d, ok := digest(id.hash, id.ktype, id.key, id.easing)
	if !ok || len(d) < 16 {
		return false
	}
	a := id.ip.As16()
	return string(d[:16]) == string(a[:])
}

func (id identity) public() m.PublicAddress {
	return m.PublicAddress{IP: id.ip, Hash: crop.Hash(id.hash), Type: crop.KeyPairType(id.ktype), PublicKey: id.key, Easing: id.easing}
}

func (id identity) String() string {
	k := hex.EncodeToString(id.key)
	if len(k) > 24 {
		k = k[:24] + "…"
	}
	h := id.hash
	if len(h) > 20 {
		h = h[:20] + "…"
	}
	t := id.ktype
	if len(t) > 20 {
		t = t[:20] + "…"
	}
	return fmt.Sprintf("ip=%s hash=%q type=%q key[%d]=%s easing=%d (%s/%s)", id.ip, h, t, len(id.key), k, id.easing, id.field, id.class)
}

// validIdentity makes a valid identity for the given hash algorithm and easing budget.
func validIdentity(r *rand.Rand, hname string, maxEasing uint64) identity {
	for {
		seed := core.RandBytes(r, 32)
		priv := ed25519.NewKeyFromSeed(seed)
		pub := []byte(priv.Public().(ed25519.PublicKey))
		for e := uint64(0); e <= maxEasing; e++ {
			d, _ := digest(hname, "Ed25519", pub, e)
			if d[0] == 0xfd && d[1]&0x80 == 0 && !(d[1] == 0 && d[2] == 0 && d[3] == 0 && d[4] == 0 && d[5] == 0 && d[6] == 0 && d[7] == 0 && d[8] == 0 && d[9] == 0 && d[10] == 0 && d[11] == 0 && d[12] == 0 && d[13] == 0) {
				return identity{ip: netip.AddrFrom16([16]byte(d[:16])), hash: hname, ktype: "Ed25519", key: pub, easing: e, priv: priv, class: "valid"}
			}
		}
	}
}

// ground searches corrupt material whose digest really matches an fd00::/8 address.
func ground(r *rand.Rand, hname, ktype string, keyLen int) identity {
	for {
		key := core.RandBytes(r, keyLen)
		d, ok := digest(hname, ktype, key, 0)
		if !ok {
			panic("ground: bad material")
		}
		if d[0] == 0xfd && d[1]&0x80 == 0 {
			return identity{ip: netip.AddrFrom16([16]byte(d[:16])), hash: hname, ktype: ktype, key: key, field: "ground", class: fmt.Sprintf("ground:%s/%s/len%d", hname, ktype, keyLen)}
		}
	}
}

func corruptions(r *rand.Rand, v identity, all bool) []identity {
	var out []identity
	add := func(field, class string, mut func(*identity)) {
		c := v
		c.key = append([]byte(nil), v.key...)
		c.field, c.class = field, class
		mut(&c)
		out = append(out, c)
	}
	// address bits
	for bit := 0; bit < 128; bit++ {
		if !all && bit%5 != 0 && bit > 16 {
			continue
		}
		b := bit
		add("address", fmt.Sprintf("bit%d", b), func(c *identity) {
			a := c.ip.As16()
			a[b/8] ^= 0x80 >> (b % 8)
			c.ip = netip.AddrFrom16(a)
		})
	}
	// hash name
	for _, hn := range hashNames {
		if hn != v.hash {
			name := hn
			add("hash", "other-valid:"+name, func(c *identity) { c.hash = name })
		}
	}
	for _, hn := range []string{"", "blake3", "BLAKE4", "MD5", "SHA2_256 ", strings.Repeat("H", 300), "BLAKE3\x00"} {
		name := hn
		add("hash", fmt.Sprintf("unknown:%d", len(name)), func(c *identity) { c.hash = name })
	}
	// key type
	for _, kt := range []string{"", "ed25519", "Ed448", "RSA", strings.Repeat("K", 255), strings.Repeat("K", 256), strings.Repeat("K", 3000)} {
		name := kt
		add("keytype", fmt.Sprintf("unknown:%d", len(name)), func(c *identity) { c.ktype = name })
	}
	// key bytes
	for i := 0; i < 32; i++ {
		if !all && i%4 != 0 {
			continue
		}
		idx := i
		add("key", "byte-flipped", func(c *identity) { c.key[idx] ^= 1 << uint(r.IntN(8)) })
	}
	for _, n := range []int{0, 1, 5, 16, 31} {
		ln := n
		add("key", fmt.Sprintf("truncated:%d", ln), func(c *identity) { c.key = c.key[:ln] })
	}
	for _, n := range []int{33, 64, 1000, 65535, 65536, 70000} {
		ln := n
		add("key", fmt.Sprintf("extended:%d", ln), func(c *identity) { c.key = append(c.key, core.RandBytes(r, ln-32)...) })
	}
	// easing
	for _, e := range []uint64{v.easing + 1, v.easing + 2, r.Uint64(), 1<<64 - 1} {
		ev := e
		if ev == v.easing {
			continue
		}
		add("easing", fmt.Sprintf("%d", ev), func(c *identity) { c.easing = ev })
	}
	for bit := 0; bit < 64; bit++ {
		if !all && bit%3 != 0 && bit < 48 {
			continue
		}
		b := uint(bit)
		add("easing", fmt.Sprintf("bit%d", b), func(c *identity) { c.easing ^= 1 << b })
	}
	if v.easing > 0 {
		add("easing", "minus1", func(c *identity) { c.easing-- })
		add("easing", "zero", func(c *identity) { c.easing = 0 })
	}
	return out
}

// ---- entry point 1: configuration / storage

func ep1(res *core.Result, id identity) (accepted bool, detail string, ok bool) {
	priv := id.priv
	if priv == nil {
		// stored identities always come with some private key material: use an unrelated one
		priv = ed25519.NewKeyFromSeed(make([]byte, 32))
	}
	st := m.AddressStorage{IP: id.ip.String(), Hash: crop.Hash(id.hash), Type: crop.KeyPairType(id.ktype), PublicKey: hex.EncodeToString(id.key), PrivateKey: hex.EncodeToString(priv), Easing: id.easing}
	var err error
	var addr *m.Address
	if pv := vmesh.Safely(func() { addr, err = m.AddressFromStorage(st) }); pv != nil {
		res.Violate("crash:config", fmt.Sprintf("AddressFromStorage panicked (%v) on %s", pv, id), map[string]any{"identity": id.String(), "entry": "config"})
		return false, "", false
	}
	if err == nil && addr != nil {
		return true, "", true
	}
	return false, fmt.Sprint(err), true
}

// ---- entry point 3 + 4: router (ping header, hop record)

type victim struct {
	ms *vmesh.Mesh
	v  *vmesh.Node
}

func newVictim(idV *m.Address, peerIP netip.Addr) (*victim, error) {
	ms := vmesh.New()
	v, err := ms.AddNode(idV, vmesh.NodeOpts{})
	if err != nil {
		return nil, err
	}
	stub := ms.AddStub(&m.Address{PublicAddress: m.PublicAddress{IP: peerIP}})
	if err := ms.ConnectOneWay(0, stub.Idx, 41); err != nil {
		return nil, err
	}
	return &victim{ms: ms, v: v}, nil
}

func (vc *victim) knows(ip netip.Addr) (stored bool, session bool) {
	_, err := vc.v.Inst.StorageV.GetRouter(ip)
	stored = err == nil || !errors.Is(err, storage.ErrNotFound)
	session = vc.v.Inst.StateV.GetSession(ip) != nil
	return
}

func signFrame(f *frame.FrameV1, id identity, r *rand.Rand) {
	f.SetTTL(0)
	f.SetSequenceTime(time.Now().Round(time.Millisecond))
	if id.priv != nil {
		_ = f.SignRaw(id.priv)
	} else {
		copy(f.AuthData(), core.RandBytes(r, 64))
	}
	f.SetTTL(32)
}

func ep3(res *core.Result, r *rand.Rand, idV *m.Address, id identity) (accepted bool, ok bool) {
	if id.easing != 0 {
		return false, false // a ping header cannot carry an easing value
	}
	peer := id.ip
	if !peer.IsValid() {
		return false, false
	}
	vc, err := newVictim(idV, peer)
	if err != nil {
		// an identity with an address the table cannot hold (outside fd00::/8): use another link peer
		vc, err = newVictim(idV, netip.MustParseAddr("fd11::1"))
		if err != nil {
			res.Inconcl("victim: %v", err)
			return false, false
		}
	}
	hdr := router.PingHeader{PingID: r.Uint64() | 1, PingType: "pong", AddrHash: crop.Hash(id.hash), KeyType: crop.KeyPairType(id.ktype), PublicKey: id.key}
	hd, err := cbor.Marshal(&hdr)
	if err != nil || len(hd) > 255 {
		return false, false // does not fit a ping header
	}
	body, _ := cbor.Marshal(map[string]string{"msg": "ping"})
	data := append(append([]byte{1, byte(len(hd))}, hd...), body...)
	b := vc.v.Inst.BuilderV
	f, err := b.NewFrameV1(id.ip, idV.IP, frame.RouterPing, nil, data, nil)
	if err != nil {
		return false, false
	}
	signFrame(f, id, r)
	fd, _ := f.FrameDataWithMargins(0, 0)
	raw := append([]byte(nil), fd...)
	f.ReturnToPool()
	_, perr := vc.ms.HandleAtRouter(0, 1, raw)
	if perr != nil {
		res.Violate("crash:ping-header", fmt.Sprintf("first-contact ping panicked the router worker (%v): %s", perr, id), map[string]any{"identity": id.String(), "entry": "ping-header"})
		return false, false
	}
	stored, sess := vc.knows(id.ip)
	return stored || sess, true
}

// hopAnnouncement builds an authentic announcement of `origin` with one hop record carrying the identity under
// test, signed with the key the identity's presenter holds (random bytes if nobody holds one).
func hopAnnouncement(b *frame.Builder, r *rand.Rand, origin *m.Address, id identity) ([]byte, bool) {
	hdr := router.PingHeader{PingID: r.Uint64() | 1, PingType: "announce", AddrHash: origin.Hash, KeyType: origin.Type, PublicKey: origin.PublicKey}
	hd, _ := cbor.Marshal(&hdr)
	msg, _ := cbor.Marshal(&router.AnnouncePingMsg{Info: &m.RouterInfo{Version: "v"}, ReturnLabel: 5, Expires: time.Now().Add(10 * time.Minute)})
	data := append(append([]byte{1, byte(len(hd))}, hd...), msg...)
	f, err := b.NewFrameV1(origin.IP, m.RouterAddress, frame.RouterHopPing, nil, data, nil)
	if err != nil {
		return nil, false
	}
	defer f.ReturnToPool()
	f.SetTTL(0)
	f.SetSequenceTime(time.Now().Round(time.Millisecond))
	_ = f.SignRaw(origin.PrivateKey)
	f.SetTTL(30)
	ctx := make([]byte, 88)
	copy(ctx[:16], origin.IP.AsSlice())
	binary.BigEndian.PutUint64(ctx[16:24], uint64(f.SequenceTime().UnixMilli()))
	copy(ctx[24:], f.AuthData())
	att := router.AnnouncePingAttachment{Router: id.public(), Delay: 7, ForwardLabel: 9, ReturnLabel: 11}
	ab, err := cbor.Marshal(att)
	if err != nil {
		return nil, false
	}
	var sig []byte
	if id.priv != nil {
		sig, _ = id.priv.Sign(nil, ab, &ed25519.Options{Context: string(ctx)})
	}
	if len(sig) != 64 {
		sig = core.RandBytes(r, 64)
	}
	apx := append(ab, sig...)
	if len(apx) > 10000 {
		return nil, false // does not fit an appendix
	}
	if err := f.SetAppendixData(apx); err != nil {
		return nil, false
	}
	fd, _ := f.FrameDataWithMargins(0, 0)
	return append([]byte(nil), fd...), true
}

func ep4(res *core.Result, r *rand.Rand, idV *m.Address, origin *m.Address, id identity) (accepted bool, ok bool) {
	if !id.ip.IsValid() {
		return false, false
	}
	vc, err := newVictim(idV, id.ip)
	if err != nil {
		vc, err = newVictim(idV, netip.MustParseAddr("fd11::1"))
		if err != nil {
			res.Inconcl("victim: %v", err)
			return false, false
		}
	}
	raw, ok := hopAnnouncement(vc.v.Inst.BuilderV, r, origin, id)
	if !ok {
		return false, false
	}
	_, perr := vc.ms.HandleAtRouter(0, 1, raw)
	if perr != nil {
		res.Violate("crash:hop-record", fmt.Sprintf("an announcement hop record panicked the router worker (%v): %s", perr, id), map[string]any{"identity": id.String(), "entry": "hop-record"})
		return false, false
	}
	stored, sess := vc.knows(id.ip)
	return stored || sess, true
}

func (vc *victim) routeTo(ip netip.Addr) bool {
	for _, e := range vc.v.Inst.RouterV.Table().VerifEntries() {
		if e.DstIP == ip {
			return true
		}
	}
	return false
}

// peeringKnown: a router completes the first two handshake messages honestly with the victim (which thereby stores
// its record), then connects again presenting the same address with one field of its record corrupted - signed
// with its real private key, which is what the frame signature is checked against. The record is invalid, so the
// victim must answer with an error (or hang up), never with a normal response.
func peeringKnown(res *core.Result, r *rand.Rand, idV *m.Address, v identity) bool {
	if v.priv == nil || v.easing != 0 {
		return true
	}
	victimR := wire.NewRouter(idV, config.Router{})
	attacker := validIdentity(r, v.hash, 0)
	variants := []identity{v}
	for _, c := range []func(*identity){
		func(c *identity) { c.hash = "NOPE"; c.class = "hash-unknown" },
		func(c *identity) { c.hash = ""; c.class = "hash-empty" },
		func(c *identity) { c.ktype = "RSA"; c.class = "keytype-unknown" },
		func(c *identity) { c.easing = 7; c.class = "easing-changed" },
		func(c *identity) { c.key = attacker.key; c.class = "another-real-key" },
		func(c *identity) { c.key = c.key[:31]; c.class = "key-truncated" },
		func(c *identity) { c.key = nil; c.class = "no-key" },
	} {
		cv := v
		cv.key = append([]byte(nil), v.key...)
		cv.field = "known-router-record"
		c(&cv)
		variants = append(variants, cv)
	}
	for k, id := range variants {
		req := map[string]any{"v": "v0.0.0", "a": id.public(), "c": core.RandBytes(r, 32), "lv": 1, "tmtu": 9000}
		body, err := cbor.Marshal(req)
		if err != nil {
			continue
		}
		f, err := victimR.Inst.BuilderV.NewFrameV1(v.ip, m.RouterAddress, frame.RouterPing, nil, body, nil)
		if err != nil {
			continue
		}
		f.SetTTL(0)
		f.SetSequenceTime(time.Now().Round(time.Millisecond).Add(-time.Millisecond))
		_ = f.SignRaw(v.priv)
		f.SetTTL(1)
		fd, _ := f.FrameDataWithMargins(0, 0)
		msg := make([]byte, 2+len(fd))
		binary.BigEndian.PutUint16(msg, uint16(len(msg)))
		copy(msg[2:], fd)
		f.ReturnToPool()
		w := wire.New()
		done := make(chan error, 1)
		go func() {
			_, err := victimR.Inst.PeeringV.VerifSetupLink(w.B, wire.URL, false)
			done <- err
		}()
		w.Inject(wire.AtoB, msg)
		deadline := time.Now().Add(10 * time.Second)
		for w.SentCount(wire.BtoA) < 2 && time.Now().Before(deadline) && len(done) == 0 {
			time.Sleep(200 * time.Microsecond)
		}
		// the victim's second message: a response (carries a challenge echo / key material) or an error
		normal := false
		if sent := w.SentIn(wire.BtoA); len(sent) >= 2 && len(sent[1].Data) > 2+51 {
			if pf, err := victimR.Inst.BuilderV.ParseFrame(append([]byte(nil), sent[1].Data[2:]...), nil, 0); err == nil {
				var resp struct {
					C   []byte `cbor:"c,omitempty"`
					KX  []byte `cbor:"kx,omitempty"`
					Err string `cbor:"err,omitempty"`
				}
				if cbor.Unmarshal(pf.MessageData(), &resp) == nil && resp.Err == "" && len(resp.C) > 0 {
					normal = true
				}
				pf.ReturnToPool()
			}
		}
		w.A.Close()
		w.B.Close()
		var serr error
		select {
		case serr = <-done:
		case <-time.After(10 * time.Second):
		}
		if serr != nil && strings.Contains(serr.Error(), "panic") {
			res.Violate("crash:peering-request", fmt.Sprintf("a peering request of a known router panicked the setup worker (%v): %s", serr, id), map[string]any{"identity": id.String(), "entry": "peering-request-known"})
			return false
		}
		if k == 0 {
			if !normal {
				return true // honest first contact did not get a response here: nothing learned, nothing to judge
			}
			res.Count("known_victim_learned_honest_owner", 1)
		} else {
			if normal {
				res.Violate("corrupt-identity-accepted:peering-request:known-router:"+id.class,
					fmt.Sprintf("a router that already knows %s answered a peering request presenting that address with a corrupted record (%s) with a normal response instead of refusing it", v.ip, id.class),
					map[string]any{"identity": id.String(), "entry": "peering-request-known", "case_id": "known|peering|" + id.class})
				return false
			}
			res.Case("peering-known|"+id.class+"|"+v.hash, true)
		}
		time.Sleep(3 * time.Millisecond) // later signed timestamp for the next connection
	}
	return true
}

// knownThenForged: the victim first learns the honest owner v of an address at the given entry point, then the
// same entry point is presented with the same address under another (real, attacker-held) key, correctly signed
// with that other key. The address does not derive from that key, so the presentation must have no effect:
// for a hop record no route through it, for a ping no answer.
func knownThenForged(res *core.Result, r *rand.Rand, idV *m.Address, origins [2]*m.Address, v identity, entry string) (accepted bool, ok bool) {
	attacker := validIdentity(r, v.hash, 0)
	forged := identity{ip: v.ip, hash: v.hash, ktype: v.ktype, key: attacker.key, easing: v.easing, priv: attacker.priv, field: "key", class: "known-address-with-another-real-key"}
	if refAccept(forged) {
		return false, false
	}
	vc, err := newVictim(idV, v.ip)
	if err != nil {
		return false, false
	}
	b := vc.v.Inst.BuilderV
	switch entry {
	case "hop-record":
		raw1, ok1 := hopAnnouncement(b, r, origins[0], v)
		if !ok1 {
			return false, false
		}
		if _, perr := vc.ms.HandleAtRouter(0, 1, raw1); perr != nil || !vc.routeTo(origins[0].IP) {
			return false, false // positive control is judged by the fresh-victim case
		}
		res.Count("known_victim_learned_honest_owner", 1)
		raw2, ok2 := hopAnnouncement(b, r, origins[1], forged)
		if !ok2 {
			return false, false
		}
		if _, perr := vc.ms.HandleAtRouter(0, 1, raw2); perr != nil {
			res.Violate("crash:hop-record", fmt.Sprintf("an announcement hop record panicked the router worker (%v): %s", perr, forged), map[string]any{"identity": forged.String(), "entry": "hop-record-known"})
			return false, false
		}
		return vc.routeTo(origins[1].IP), true
	default: // ping header
		mk := func(id identity) ([]byte, bool) {
			hdr := router.PingHeader{PingID: r.Uint64() | 1, PingType: "pong", AddrHash: crop.Hash(id.hash), KeyType: crop.KeyPairType(id.ktype), PublicKey: id.key}
			hd, err := cbor.Marshal(&hdr)
			if err != nil || len(hd) > 255 {
				return nil, false
			}
			body, _ := cbor.Marshal(map[string]string{"msg": "ping"})
			data := append(append([]byte{1, byte(len(hd))}, hd...), body...)
			f, err := b.NewFrameV1(id.ip, idV.IP, frame.RouterPing, nil, data, nil)
			if err != nil {
				return nil, false
			}
			signFrame(f, id, r)
			fd, _ := f.FrameDataWithMargins(0, 0)
			raw := append([]byte(nil), fd...)
			f.ReturnToPool()
			return raw, true
		}
		if v.easing != 0 {
			return false, false
		}
		raw1, ok1 := mk(v)
		if !ok1 {
			return false, false
		}
		if _, perr := vc.ms.HandleAtRouter(0, 1, raw1); perr != nil {
			return false, false
		}
		if _, sess := vc.knows(v.ip); !sess {
			return false, false
		}
		for vc.ms.Pending() > 0 {
			vc.ms.Take(0)
		}
		res.Count("known_victim_learned_honest_owner", 1)
		time.Sleep(2 * time.Millisecond) // a later signed timestamp
		raw2, ok2 := mk(forged)
		if !ok2 {
			return false, false
		}
		herr, perr := vc.ms.HandleAtRouter(0, 1, raw2)
		if perr != nil {
			res.Violate("crash:ping-header", fmt.Sprintf("a ping panicked the router worker (%v): %s", perr, forged), map[string]any{"identity": forged.String(), "entry": "ping-header-known"})
			return false, false
		}
		return herr == nil && vc.ms.Pending() > 0, true
	}
}

// ---- entry point 2: peering request over the wire

func ep2(res *core.Result, r *rand.Rand, idV *m.Address, id identity) (accepted bool, ok bool) {
	if !id.ip.IsValid() {
		return false, false
	}
	req := map[string]any{
		"v": "v0.0.0", "a": id.public(), "c": core.RandBytes(r, 32), "lv": 1, "tmtu": 9000,
	}
	body, err := cbor.Marshal(req)
	if err != nil || len(body) > 10000 {
		return false, false
	}
	victimR := wire.NewRouter(idV, config.Router{})
	b := victimR.Inst.BuilderV
	f, err := b.NewFrameV1(id.ip, m.RouterAddress, frame.RouterPing, nil, body, nil)
	if err != nil {
		return false, false
	}
	f.SetTTL(0)
	f.SetSequenceTime(time.Now().Round(time.Millisecond).Add(-time.Millisecond))
	if id.priv != nil {
		_ = f.SignRaw(id.priv)
	}
	f.SetTTL(1)
	fd, _ := f.FrameDataWithMargins(0, 0)
	msg := make([]byte, 2+len(fd))
	binary.BigEndian.PutUint16(msg, uint16(len(msg)))
	copy(msg[2:], fd)
	f.ReturnToPool()
	if len(msg) > 65535 {
		return false, false
	}
	w := wire.New()
	done := make(chan error, 1)
	go func() {
		_, err := victimR.Inst.PeeringV.VerifSetupLink(w.B, wire.URL, false)
		done <- err
	}()
	w.Inject(wire.AtoB, msg)
	// the victim answers the request with a response or an error message, then waits (or aborts)
	deadline := time.Now().Add(10 * time.Second)
	for w.SentCount(wire.BtoA) < 2 && time.Now().Before(deadline) {
		select {
		case err := <-done:
			done <- err
			deadline = time.Now()
		default:
			time.Sleep(200 * time.Microsecond)
		}
	}
	w.A.Close()
	w.B.Close()
	var serr error
	select {
	case serr = <-done:
	case <-time.After(10 * time.Second):
		res.Inconcl("peering entry point: setup did not return")
		return false, false
	}
	if serr != nil && strings.Contains(serr.Error(), "panic") {
		res.Violate("crash:peering-request", fmt.Sprintf("a peering request panicked the setup worker (%v): %s", serr, id), map[string]any{"identity": id.String(), "entry": "peering-request"})
		return false, false
	}
	_, gerr := victimR.Inst.StorageV.GetRouter(id.ip)
	stored := gerr == nil
	sess := victimR.Inst.StateV.GetSession(id.ip) != nil
	linked := victimR.Inst.PeeringV.GetLink(id.ip) != nil
	return stored || sess || linked, true
}

func judge(res *core.Result, entry string, id identity, accepted bool, detail string) bool {
	want := refAccept(id)
	wit := map[string]any{"identity": id.String(), "entry": entry, "reference_accepts": want, "case_id": entry + "|" + id.field + "|" + id.class}
	switch {
	case accepted && !want:
		res.Violate(fmt.Sprintf("invalid-identity-accepted:%s:%s", entry, id.field),
			fmt.Sprintf("entry point %s accepted (session/record/address created) an identity the reference rejects: %s", entry, id), wit)
		return false
	case !accepted && want:
		res.Violate(fmt.Sprintf("valid-identity-rejected:%s", entry), fmt.Sprintf("entry point %s rejected a valid identity (%s): %s", entry, detail, id), wit)
		return false
	}
	cls := id.class
	if i := strings.Index(cls, ":"); i > 0 && id.field != "ground" {
		cls = cls[:i]
	}
	res.Case(entry+"|"+id.field+"|"+cls, id.field != "")
	return true
}

func parallel(n int, fn func(w int)) { core.Parallel(n, fn) }

// ---- generator

func checkGenerated(res *core.Result, addr *m.Address, acceptable, ignore []netip.Prefix, desc string) bool {
	id := identity{ip: addr.IP, hash: string(addr.Hash), ktype: string(addr.Type), key: addr.PublicKey, easing: addr.Easing}
	wit := map[string]any{"generator": desc, "identity": id.String()}
	if !refAccept(id) {
		res.Violate("generated-identity-invalid", fmt.Sprintf("%s returned an identity that fails verification: %s", desc, id), wit)
		return false
	}
	in := false
	for _, p := range acceptable {
		if p.Contains(addr.IP) {
			in = true
		}
	}
	if !in {
		res.Violate("generated-identity-outside-requested-prefix", fmt.Sprintf("%s returned %s, outside every requested prefix %v", desc, addr.IP, acceptable), wit)
		return false
	}
	for _, p := range ignore {
		if p.Contains(addr.IP) {
			res.Violate("generated-identity-in-ignored-range", fmt.Sprintf("%s returned %s inside ignored prefix %s", desc, addr.IP, p), wit)
			return false
		}
	}
	if netip.MustParsePrefix("fd00::/112").Contains(addr.IP) {
		res.Violate("generated-identity-in-internal-range", fmt.Sprintf("%s returned %s inside the internal range", desc, addr.IP), wit)
		return false
	}
	if !ed25519.PublicKey(addr.PublicKey).Equal(addr.PrivateKey.Public()) {
		res.Violate("generated-identity-key-mismatch", desc+": private and public key do not belong together", wit)
		return false
	}
	re, err := m.AddressFromStorage(addr.Store())
	if err != nil || re.IP != addr.IP || re.Hash != addr.Hash || re.Type != addr.Type || re.Easing != addr.Easing ||
		!re.PublicKey.Equal(addr.PublicKey) || !re.PrivateKey.Equal(addr.PrivateKey) {
		res.Violate("generated-identity-does-not-reload", fmt.Sprintf("%s: stored form does not reload to the same identity (err %v)", desc, err), wit)
		return false
	}
	return true
}

func generatorRun(res *core.Result, r *rand.Rand, n int, prefix string) {
	for i := 0; i < n; i++ {
		var acceptable, ignore []netip.Prefix
		np := 1 + r.IntN(3)
		for k := 0; k < np; k++ {
			bits := 8 + r.IntN(7)
			var a [16]byte
			a[0] = 0xfd
			a[1] = byte(r.IntN(128)) // routable half
			p, _ := netip.AddrFrom16(a).Prefix(bits)
			acceptable = append(acceptable, p)
		}
		for k := r.IntN(3); k > 0; k-- {
			bits := 9 + r.IntN(6)
			var a [16]byte
			a[0] = 0xfd
			a[1] = byte(r.IntN(256))
			p, _ := netip.AddrFrom16(a).Prefix(bits)
			if len(acceptable) > 1 && r.IntN(3) == 0 {
				// a wider range around one of the acceptable prefixes
				ap := acceptable[r.IntN(len(acceptable))]
				p, _ = ap.Addr().Prefix(max(9, ap.Bits()-1-r.IntN(3)))
			}
			// never ignore everything that is acceptable: an ignored range may swallow acceptable prefixes whole
			// (a local interface prefix that is wider than a requested region) as long as one of them stays free
			free := 0
			for _, ap := range acceptable {
				covered := false
				for _, ig := range append(append([]netip.Prefix{}, ignore...), p) {
					if ig.Bits() <= ap.Bits() && ig.Contains(ap.Addr()) {
						covered = true
					}
				}
				if !covered {
					free++
				}
			}
			if free > 0 {
				ignore = append(ignore, p)
			}
		}
		maxEasing := []uint64{0, 1, 50}[r.IntN(3)]
		desc := fmt.Sprintf("GenerateRoutableAddress(acceptable=%v, ignore=%v, maxEasing=%d)", acceptable, ignore, maxEasing)
		ctx, cancel := context.WithTimeout(context.Background(), 2*time.Minute)
		var addr *m.Address
		var err error
		if pv := vmesh.Safely(func() { addr, _, err = m.GenerateRoutableAddress(ctx, acceptable, ignore, maxEasing) }); pv != nil {
			cancel()
			res.Violate("crash:generator", fmt.Sprintf("%s panicked: %v", desc, pv), map[string]any{"generator": desc})
			return
		}
		cancel()
		if err != nil {
			if errors.Is(err, m.ErrMaxTriesReached) || errors.Is(err, context.DeadlineExceeded) {
				res.Count("generator_gave_up", 1)
				continue
			}
			res.Violate("generator-error", fmt.Sprintf("%s failed: %v", desc, err), map[string]any{"generator": desc})
			return
		}
		if !checkGenerated(res, addr, acceptable, ignore, desc) {
			return
		}
		res.Count("generated_identities_checked", 1)
		res.Case(prefix+"gen:"+desc, len(ignore) > 0 || maxEasing > 0 || len(acceptable) > 1)
	}
	// Two requested regions of equal size, one of them swallowed whole by a wider ignored range (a local interface
	// prefix around it): every identity must come from the other one.
	for i := 0; i < n/4+2; i++ {
		bits := 10 + r.IntN(5)
		var a, b [16]byte
		a[0], b[0] = 0xfd, 0xfd
		a[1] = byte(r.IntN(128))
		b[1] = a[1] ^ 0x40 // differs in a bit above every bits >= 10: disjoint, and outside the parent below
		pa, _ := netip.AddrFrom16(a).Prefix(bits)
		pb, _ := netip.AddrFrom16(b).Prefix(bits)
		parent, _ := pa.Addr().Prefix(bits - 1 - r.IntN(3))
		if parent.Overlaps(pb) {
			continue
		}
		acceptable := []netip.Prefix{pa, pb}
		if r.IntN(2) == 0 {
			acceptable = []netip.Prefix{pb, pa}
		}
		ignore := []netip.Prefix{parent}
		maxEasing := []uint64{0, 1, 50}[r.IntN(3)]
		desc := fmt.Sprintf("GenerateRoutableAddress(acceptable=%v, ignore=%v (covers the first or second region whole), maxEasing=%d)", acceptable, ignore, maxEasing)
		ctx, cancel := context.WithTimeout(context.Background(), 2*time.Minute)
		var addr *m.Address
		var err error
		pv := vmesh.Safely(func() { addr, _, err = m.GenerateRoutableAddress(ctx, slices.Clone(acceptable), slices.Clone(ignore), maxEasing) })
		cancel()
		if pv != nil {
			res.Violate("crash:generator", fmt.Sprintf("%s panicked: %v", desc, pv), map[string]any{"generator": desc})
			return
		}
		if err != nil {
			res.Count("generator_gave_up", 1)
			continue
		}
		if !checkGenerated(res, addr, acceptable, ignore, desc) {
			return
		}
		res.Count("generated_identities_checked", 1)
		res.Count("generated_with_covering_ignore_range", 1)
		res.Case(prefix+"gen-cover:"+desc, true)
	}
	// One caller, several calls: the same ignore list (the same slice, as a long-lived caller such as the
	// config layer holds it) is handed to calls with different acceptable sets. The oracle judges every result
	// against its own copy of what the caller meant to ignore.
	halves := []netip.Prefix{netip.MustParsePrefix("fd00::/9"), netip.MustParsePrefix("fd80::/9"), netip.MustParsePrefix("fd00::/8")}
	for sess := 0; sess < n/3+1; sess++ {
		shared := make([]netip.Prefix, 0, 8)
		for k := 2 + r.IntN(3); k > 0; k-- {
			bits := 10 + r.IntN(2)
			var a [16]byte
			a[0] = 0xfd
			a[1] = byte(r.IntN(256))
			p, _ := netip.AddrFrom16(a).Prefix(bits)
			shared = append(shared, p)
		}
		meant := slices.Clone(shared)
		for call := 0; call < 5; call++ {
			acceptable := []netip.Prefix{halves[r.IntN(len(halves))]}
			maxEasing := []uint64{0, 1, 50}[r.IntN(3)]
			desc := fmt.Sprintf("call %d of one caller reusing its ignore list: GenerateRoutableAddress(acceptable=%v, ignore=%v, maxEasing=%d)", call+1, acceptable, meant, maxEasing)
			ctx, cancel := context.WithTimeout(context.Background(), 2*time.Minute)
			var addr *m.Address
			var err error
			pv := vmesh.Safely(func() { addr, _, err = m.GenerateRoutableAddress(ctx, slices.Clone(acceptable), shared, maxEasing) })
			cancel()
			if pv != nil {
				res.Violate("crash:generator", fmt.Sprintf("%s panicked: %v", desc, pv), map[string]any{"generator": desc})
				return
			}
			if err != nil {
				res.Count("generator_gave_up", 1)
				continue
			}
			if !checkGenerated(res, addr, acceptable, meant, desc) {
				return
			}
			res.Count("generated_identities_checked", 1)
			res.Count("generated_with_reused_ignore_list", 1)
			res.Case(prefix+"gen-reuse:"+desc, true)
		}
	}
	// privacy addresses (single-core path)
	for i := 0; i < n/4+1; i++ {
		addr, _, err := m.GeneratePrivacyAddress(context.Background())
		if err != nil {
			res.Count("generator_gave_up", 1)
			continue
		}
		if !checkGenerated(res, addr, []netip.Prefix{netip.MustParsePrefix("fd80::/9")}, nil, "GeneratePrivacyAddress") {
			return
		}
		res.Count("generated_identities_checked", 1)
		res.Case(prefix+"gen:privacy:"+addr.IP.String(), true)
	}
}

func run(c *core.Ctx) {
	res := c.Res
	if c.RaceBuild {
		generatorRun(res, core.RNG("c01/race-gen"), c.Q(12, 200), "race:")
		return
	}
	const W = 16
	nValid := c.Q(24, 400)
	all := c.Tier == core.Thorough
	idPool := core.RNG("c01/idv")
	idV := env.NewIdentity(idPool, nil)
	origin := env.NewIdentity(idPool, nil)
	origin2 := env.NewIdentity(idPool, nil)
	parallel(W, func(w int) {
		r := core.RNG(fmt.Sprintf("c01/%d", w))
		for i := w; i < nValid; i += W {
			hname := "BLAKE3"
			if i%3 == 1 {
				hname = hashNames[r.IntN(len(hashNames))]
			}
			maxE := uint64(0)
			if i%4 == 2 {
				maxE = 50
			}
			v := validIdentity(r, hname, maxE)
			ids := append([]identity{v}, corruptions(r, v, all || i < W)...)
			// ground identities
			if i%2 == 0 {
				ids = append(ids,
					ground(r, "BLAKE3", "Ed25519", []int{5, 31, 33, 64}[r.IntN(4)]),
					ground(r, "BLAKE3", []string{"ed25519", "X", "Ed448", strings.Repeat("T", 255)}[r.IntN(4)], 32),
					ground(r, hashNames[r.IntN(len(hashNames))], "Ed25519", []int{6, 16, 48}[r.IntN(3)]),
				)
				// a real key whose true digest lies outside fd00::/8: address = digest(key), but not a Mycoria address
				ids = append(ids, func() identity {
					for {
						priv := ed25519.NewKeyFromSeed(core.RandBytes(r, 32))
						pub := []byte(priv.Public().(ed25519.PublicKey))
						d, _ := digest("BLAKE3", "Ed25519", pub, 0)
						if d[0] != 0xfd {
							return identity{ip: netip.AddrFrom16([16]byte(d[:16])), hash: "BLAKE3", ktype: "Ed25519", key: pub, priv: priv, field: "ground", class: "ground:true-digest-outside-fd00/8"}
						}
					}
				}())
				// the one ground class the reference accepts: a real Ed25519 key under another valid hash algorithm
				ids = append(ids, func() identity {
					g := validIdentity(r, hashNames[r.IntN(len(hashNames)-1)], 0)
					g.field, g.class = "ground", "ground:other-valid-hash-real-key"
					return g
				}())
			}
			for k, id := range ids {
				if acc, detail, ok := ep1(res, id); ok {
					if !judge(res, "config", id, acc, detail) {
						return
					}
				} else if res.ViolationCount() > 0 {
					return
				}
				// the network entry points are slower: all corruptions for the first identities, a sample afterwards
				if !(all || i < 2*W || k%6 == 0 || id.field == "ground" || id.field == "") {
					continue
				}
				if acc, ok := ep3(res, r, idV, id); ok {
					if !judge(res, "ping-header", id, acc, "no session/record after a correctly signed first-contact ping") {
						return
					}
				} else if res.ViolationCount() > 0 {
					return
				}
				if acc, ok := ep4(res, r, idV, origin, id); ok {
					if !judge(res, "hop-record", id, acc, "no session/record after an announcement carrying a correctly signed hop record") {
						return
					}
				} else if res.ViolationCount() > 0 {
					return
				}
				if acc, ok := ep2(res, r, idV, id); ok {
					if !judge(res, "peering-request", id, acc, "no session/record after a correctly signed peering request") {
						return
					}
				} else if res.ViolationCount() > 0 {
					return
				}
			}
			if i%3 == 0 && !peeringKnown(res, r, idV, v) {
				return
			}
			for _, entry := range []string{"hop-record", "ping-header"} {
				if acc, ok := knownThenForged(res, r, idV, [2]*m.Address{origin, origin2}, v, entry); ok {
					res.Case(fmt.Sprintf("%s-known|%s|%s", entry, v.hash, v.ip), true)
					if acc {
						res.Violate("corrupt-identity-accepted:"+entry+":known-address-with-another-real-key",
							fmt.Sprintf("a router that already knows the owner of %s accepted a %s presenting that address with another key (signed with that other key); the address does not derive from it", v.ip, entry),
							map[string]any{"address": v.ip.String(), "entry": entry + "-known", "case_id": "known|" + entry})
						return
					}
				} else if res.ViolationCount() > 0 {
					return
				}
			}
			res.Count("valid_identities_with_all_corruptions", 1)
			if i < 3 {
				res.Sample(ids[1+r.IntN(len(ids)-1)].String())
			}
		}
	})
	// the config entry point through the real instance constructor (relay-only), on a sample
	for i := 0; i < 3; i++ {
		r := core.RNG(fmt.Sprintf("c01/new/%d", i))
		v := validIdentity(r, "BLAKE3", 0)
		addr, err := m.AddressFromStorage(m.AddressStorage{IP: v.ip.String(), Hash: "BLAKE3", Type: "Ed25519", PublicKey: hex.EncodeToString(v.key), PrivateKey: hex.EncodeToString(v.priv)})
		if err != nil {
			res.Violate("valid-identity-rejected:config", fmt.Sprintf("valid identity rejected: %v", err), map[string]any{"identity": v.String()})
			break
		}
		_ = addr
	}
	generatorRun(res, core.RNG("c01/gen"), c.Q(60, 3000), "")
	res.Assume("the digest reference uses crypto/sha256, crypto/sha512, x/crypto sha3/blake2 and zeebo/blake3 directly (no code shared with m/address.go or crop)")
	res.Assume("a ping header cannot carry an easing value; identities with easing > 0 are presented at the other three entry points")
	res.Assume("for reference-accepted identities the harness holds the private key and signs correctly; 'accepted' at a network entry point means a stored record, session or link for that address exists afterwards")
	res.Assume("the generator is asked for prefixes inside the routable half of fd00::/8 (what it can verify)")
	res.Require(res.Counter("valid_identities_with_all_corruptions") >= int64(nValid*8/10), "too few identities completed")
	res.Require(res.Counter("generated_identities_checked") >= 20, "too few generator calls completed")
	res.Require(res.Counter("known_victim_learned_honest_owner") >= 10, "too few victims with prior knowledge of the honest owner")
}
