// Package c15: sequence numbers never repeat under one key; key rollover
// stays in sync between sender and receiver.
package c15

import (
	"strings"
	"bytes"
	"crypto/cipher"
	"fmt"
	"math/rand/v2"
	"sort"
	"sync"
	"sync/atomic"
	"time"

	"github.com/anishathalye/porcupine"

	"github.com/mycoria/mycoria/frame"
	"github.com/mycoria/mycoria/peering"
	"github.com/mycoria/mycoria/state"

	"verifharness/core"
	"verifharness/env"
)

func init() {
	core.Register(&core.Prop{
		ID:    "C15",
		Level: "exploration",
		Rule: "(1) G goroutines call EncryptionSession.Out / Frame.Seal on one session, counter preset so that the 32-bit wrap falls inside the run; " +
			"(2) real sender/receiver sessions, sender offset wrap-k for k in a range, 600 frames with seeded regular/priority mix delivered in order and under seeded permutations with displacement <= 8, end-to-end and link frames; " +
			"(3) duplex traffic in both classes while one direction wraps; non-trivial = history crosses the wrap; distinct by (workload, offset, permutation/interleaving hash)",
		Run:         run,
		HasRacePart: true,
		RaceAnchors: []string{`state\.\(\*SequenceHandler\)`, `state\.\(\*EncryptionSession\)`},
	})
}

const wrap = uint64(1) << 32

func helper(e *state.EncryptionSession) *state.EncryptionSessionTestHelper {
	return &state.EncryptionSessionTestHelper{EncryptionSession: e}
}

type outRec struct {
	epoch     cipher.AEAD
	prio      bool
	seq       uint32
	call, ret int64
	g         int
}

// workload1: concurrent Out calls across the wrap.
func workload1(res *core.Result, r *rand.Rand, goroutines, perG int, keyPrefix string) {
	p := env.NewPair(r, "c15 w1")
	enc := p.AB.Encryption()
	k := uint32(2 + r.IntN(goroutines*perG/2+1)) // wrap falls inside the run, at least one number before it
	preset := uint32(wrap - uint64(k))
	helper(enc).ReglSetOut(preset)
	var clock atomic.Int64
	recs := make([][]outRec, goroutines)
	prioPlan := make([][]bool, goroutines)
	for g := range prioPlan {
		prioPlan[g] = make([]bool, perG)
		for i := range prioPlan[g] {
			prioPlan[g][i] = r.IntN(4) == 0
		}
	}
	var wg sync.WaitGroup
	start := make(chan struct{})
	var outErr atomic.Value
	for g := 0; g < goroutines; g++ {
		wg.Add(1)
		go func(g int) {
			defer wg.Done()
			<-start
			for i := 0; i < perG; i++ {
				prio := prioPlan[g][i]
				call := clock.Add(1)
				seq, _, _, c, err := enc.Out(prio)
				ret := clock.Add(1)
				if err != nil {
					outErr.Store(err)
					return
				}
				recs[g] = append(recs[g], outRec{epoch: c, prio: prio, seq: seq, call: call, ret: ret, g: g})
			}
		}(g)
	}
	close(start)
	wg.Wait()
	if e := outErr.Load(); e != nil {
		res.Violate("out-error", fmt.Sprintf("EncryptionSession.Out failed on a set-up session: %v", e), map[string]any{"preset": preset})
		return
	}
	var all []outRec
	for _, rr := range recs {
		all = append(all, rr...)
	}
	wit := func() map[string]any {
		d := make([]string, 0, len(all))
		epochID := map[cipher.AEAD]int{}
		for _, x := range all {
			if _, ok := epochID[x.epoch]; !ok {
				epochID[x.epoch] = len(epochID)
			}
			d = append(d, fmt.Sprintf("g%d [%d,%d] prio=%v epoch=%d seq=%d", x.g, x.call, x.ret, x.prio, epochID[x.epoch], x.seq))
		}
		return map[string]any{"preset": preset, "goroutines": goroutines, "records": d}
	}
	// Uniqueness of (epoch, class, seq).
	type key struct {
		e    cipher.AEAD
		prio bool
		seq  uint32
	}
	seen := map[key]bool{}
	epochs := map[cipher.AEAD]bool{}
	for _, x := range all {
		kx := key{x.epoch, x.prio, x.seq}
		if seen[kx] {
			res.Violate("sequence-number-repeated", fmt.Sprintf("two frames got sequence number %d (prio=%v) under the same key with %d concurrent senders", x.seq, x.prio, goroutines), wit())
			return
		}
		seen[kx] = true
		epochs[x.epoch] = true
		if x.seq == 0 {
			res.Violate("sequence-number-zero", "sequence number 0 handed out", wit())
			return
		}
	}
	if len(epochs) != 2 {
		res.Violate("epochs-per-wrap", fmt.Sprintf("one wrap of the regular counter produced %d key epochs, want exactly 2", len(epochs)), wit())
		return
	}
	// Per (epoch, class): contiguous fetch-and-increment, real-time order respected.
	groups := map[[2]any][]outRec{}
	for _, x := range all {
		gk := [2]any{x.epoch, x.prio}
		groups[gk] = append(groups[gk], x)
	}
	var oldEpoch, newEpoch cipher.AEAD
	for gk, g := range groups {
		sort.Slice(g, func(i, j int) bool { return g[i].seq < g[j].seq })
		prio := gk[1].(bool)
		if !prio {
			if g[0].seq > 1<<31 {
				oldEpoch = gk[0].(cipher.AEAD)
			} else {
				newEpoch = gk[0].(cipher.AEAD)
			}
		}
		for i := 1; i < len(g); i++ {
			if g[i].seq != g[i-1].seq+1 {
				res.Violate("sequence-gap", fmt.Sprintf("sequence numbers of one key and class are not contiguous: %d then %d", g[i-1].seq, g[i].seq), wit())
				return
			}
		}
		// real-time order: no later-numbered op may have returned before an earlier-numbered one was called
		minRet := int64(1) << 62
		for i := len(g) - 1; i >= 0; i-- {
			if minRet < g[i].call {
				res.Violate("counter-not-linearizable", fmt.Sprintf("sequence %d was handed out by a call that started after a call with a higher number had returned", g[i].seq), wit())
				return
			}
			if g[i].ret < minRet {
				minRet = g[i].ret
			}
		}
	}
	for gk, g := range groups {
		prio := gk[1].(bool)
		e := gk[0].(cipher.AEAD)
		first := g[0].seq
		switch {
		case !prio && e == oldEpoch && first != preset+1:
			res.Violate("first-sequence-wrong", fmt.Sprintf("first regular number %d, want %d", first, preset+1), wit())
			return
		case !prio && e == newEpoch && first != 1:
			res.Violate("first-sequence-wrong", fmt.Sprintf("regular counter restarts at %d after the wrap, want 1", first), wit())
			return
		case prio && first != 1:
			res.Violate("priority-not-restarted", fmt.Sprintf("priority counter starts at %d in a key epoch, want 1", first), wit())
			return
		}
	}
	// Porcupine on the old-epoch regular group (fetch-and-increment from the preset).
	if g := groups[[2]any{oldEpoch, false}]; len(g) > 0 && len(g) <= 200 {
		ops := make([]porcupine.Operation, len(g))
		for i, x := range g {
			ops[i] = porcupine.Operation{ClientId: x.g, Input: nil, Call: x.call, Output: x.seq, Return: x.ret}
		}
		model := porcupine.Model{
			Init: func() interface{} { return preset },
			Step: func(st, in, out interface{}) (bool, interface{}) {
				return out.(uint32) == st.(uint32)+1, out.(uint32)
			},
		}
		switch porcupine.CheckOperationsTimeout(model, ops, 60*time.Second) {
		case porcupine.Illegal:
			res.Violate("counter-not-linearizable", "porcupine: Out history is not a linearizable fetch-and-increment", wit())
			return
		case porcupine.Unknown:
			res.Inconcl("porcupine timeout in C15 workload 1")
		default:
			res.Count("porcupine_counter_histories_ok", 1)
		}
	}
	res.Count("concurrent_out_runs_across_wrap", 1)
	res.Case(fmt.Sprintf("%sw1:%d:%d:%d:%x", keyPrefix, goroutines, perG, preset, r.Uint64()), true)
}

type sealed struct {
	idx   int
	prio  bool
	seq   uint32
	key   []byte // sender out key right after sealing
	bytes []byte
	link  bool
}

// e2eChannel / linkChannel abstract the two frame kinds of workload 2.
type channel struct {
	p    *env.Pair
	link bool
	encA *state.EncryptionSession // link: sender enc session
	encB *state.EncryptionSession // link: receiver enc session
}

func newChannel(r *rand.Rand, link bool) *channel {
	ch := &channel{p: env.NewPair(r, "c15 w2"), link: link}
	if link {
		var err error
		ch.encA, err = ch.p.OrigA.DeriveSessionFromKX(true, "link layer crypt")
		if err != nil {
			panic(err)
		}
		ch.encB, err = ch.p.OrigB.DeriveSessionFromKX(false, "link layer crypt")
		if err != nil {
			panic(err)
		}
	} else {
		ch.encA = ch.p.AB.Encryption()
		ch.encB = ch.p.BA.Encryption()
	}
	return ch
}

func (ch *channel) seal(idx int, prio bool) (sealed, error) {
	s := sealed{idx: idx, prio: prio, link: ch.link}
	payload := []byte(fmt.Sprintf("c15-payload-%06d", idx))
	if ch.link {
		buf := make([]byte, peering.FrameOffset+len(payload)+peering.FrameOverhead)
		lf := peering.LinkFrame(buf)
		copy(lf.LinkData(), payload)
		if err := lf.Seal(ch.encA); err != nil {
			return s, err
		}
		s.seq = lf.SequenceNum()
		s.bytes = buf
	} else {
		mt := frame.SessionData
		if prio {
			mt = frame.RouterCtrl
		}
		f, err := ch.p.A.BuilderV.NewFrameV1(ch.p.A.IdentityV.IP, ch.p.B.IdentityV.IP, mt, nil, payload, nil)
		if err != nil {
			return s, err
		}
		if err := f.Seal(ch.p.AB); err != nil {
			f.ReturnToPool()
			return s, err
		}
		s.seq = f.SequenceNum()
		data, _ := f.FrameDataWithMargins(0, 0)
		s.bytes = append([]byte(nil), data...)
		f.ReturnToPool()
	}
	s.key = append([]byte(nil), helper(ch.encA).OutKey()...)
	return s, nil
}

func (ch *channel) unseal(s sealed) error {
	payload := []byte(fmt.Sprintf("c15-payload-%06d", s.idx))
	if ch.link {
		buf := append([]byte(nil), s.bytes...)
		lf := peering.LinkFrame(buf)
		if err := lf.Unseal(ch.encB); err != nil {
			return err
		}
		if !bytes.Equal(lf.LinkData(), payload) {
			return fmt.Errorf("HARNESS-PAYLOAD-MISMATCH")
		}
		return nil
	}
	buf := append([]byte(nil), s.bytes...)
	f, err := ch.p.B.BuilderV.ParseFrame(buf, nil, 0)
	if err != nil {
		return err
	}
	defer f.ReturnToPool()
	if err := f.Unseal(ch.p.BA); err != nil {
		return err
	}
	if !bytes.Equal(f.MessageData(), payload) {
		return fmt.Errorf("HARNESS-PAYLOAD-MISMATCH")
	}
	return nil
}

// workload2 runs one offset/permutation case. k = distance of the preset from the wrap.
func workload2(res *core.Result, r *rand.Rand, link bool, k int, permute bool, total int, keyPrefix string) {
	ch := newChannel(r, link)
	preset := uint32(wrap - uint64(k))
	helper(ch.encA).ReglSetOut(preset)
	frames := make([]sealed, 0, total)
	oldKey := append([]byte(nil), helper(ch.encA).OutKey()...)
	layer := "e2e"
	if link {
		layer = "link"
	}
	wit := map[string]any{"layer": layer, "k": k, "permuted": permute, "case_id": fmt.Sprintf("w2:%s:%d:%v", layer, k, permute)}
	for i := 0; i < total; i++ {
		prio := !link && r.IntN(4) == 0
		s, err := ch.seal(i, prio)
		if err != nil {
			res.Violate("seal-across-wrap-failed", fmt.Sprintf("%s: sealing frame %d (prio=%v) %d frames from the wrap failed: %v", layer, i, prio, k-i, err), wit)
			return
		}
		frames = append(frames, s)
	}
	var newKey []byte
	for _, s := range frames {
		if !bytes.Equal(s.key, oldKey) {
			newKey = s.key
			break
		}
	}
	if newKey == nil {
		res.Violate("no-key-rollover-at-wrap", fmt.Sprintf("%s: the sender's regular counter wrapped (%d frames, preset wrap-%d) but its key never changed", layer, total, k), wit)
		return
	}
	// Sender-side uniqueness of (key, class, seq).
	type kk struct {
		key  string
		prio bool
		seq  uint32
	}
	seen := map[kk]int{}
	for _, s := range frames {
		x := kk{string(s.key), s.prio, s.seq}
		if j, dup := seen[x]; dup {
			res.Violate("sequence-number-repeated", fmt.Sprintf("%s: frames %d and %d carry sequence %d (prio=%v) under the same key", layer, j, s.idx, s.seq, s.prio), wit)
			return
		}
		seen[x] = s.idx
	}
	// Delivery order.
	order := make([]int, total)
	for i := range order {
		order[i] = i
	}
	if permute {
		keys := make([]float64, total)
		for i := range keys {
			keys[i] = float64(i) + r.Float64()*8
		}
		sort.SliceStable(order, func(a, b int) bool { return keys[order[a]] < keys[order[b]] })
	}
	accepted := map[int]bool{}
	for pos, idx := range order {
		s := frames[idx]
		inKeyBefore := append([]byte(nil), helper(ch.encB).InKey()...)
		err := ch.unseal(s)
		if err != nil && err.Error() == "HARNESS-PAYLOAD-MISMATCH" {
			res.Violate("unsealed-wrong-payload", fmt.Sprintf("%s: frame %d unsealed to a different payload", layer, idx), wit)
			return
		}
		// Expected: accept iff the receiver is (or, for a regular frame of the new
		// epoch, thereby moves) in the frame's key epoch.
		expect := bytes.Equal(inKeyBefore, s.key) || (!s.prio && bytes.Equal(s.key, newKey) && bytes.Equal(inKeyBefore, oldKey))
		switch {
		case expect && err != nil:
			what := "regular"
			if s.prio {
				what = "priority"
			}
			ep := "old"
			if bytes.Equal(s.key, newKey) {
				ep = "new"
			}
			res.Violate(fmt.Sprintf("frame-near-wrap-rejected:%s:%s-epoch", what, ep),
				fmt.Sprintf("%s: %s frame %d (seq %d, %s key epoch) arriving at position %d was rejected: %v", layer, what, idx, s.seq, ep, pos, err), wit)
			return
		case !expect && err == nil:
			res.Violate("frame-of-other-epoch-accepted", fmt.Sprintf("%s: frame %d (seq %d) unsealed although the receiver was in another key epoch", layer, idx, s.seq), wit)
			return
		}
		if err == nil {
			accepted[idx] = true
		}
	}
	if !bytes.Equal(helper(ch.encA).OutKey(), helper(ch.encB).InKey()) {
		res.Violate("keys-out-of-sync-after-wrap", fmt.Sprintf("%s: after the wrap the sender's out key and the receiver's in key differ", layer), wit)
		return
	}
	if !permute && len(accepted) != total {
		res.Violate("in-order-frame-lost-at-wrap", fmt.Sprintf("%s: only %d of %d in-order frames unsealed", layer, len(accepted), total), wit)
		return
	}
	// Replays: nothing unseals a second time; pre-wrap frames no longer unseal at all.
	for _, s := range frames {
		// A frame that was never accepted (it arrived while the receiver was in
		// another epoch) may legitimately be accepted now, unless it is pre-wrap.
		if !accepted[s.idx] && !bytes.Equal(s.key, oldKey) {
			continue
		}
		if err := ch.unseal(s); err == nil {
			what := "replayed"
			if bytes.Equal(s.key, oldKey) {
				what = "pre-wrap"
			}
			res.Violate("replay-accepted-after-wrap:"+what, fmt.Sprintf("%s: %s frame %d (seq %d) unsealed again after the wrap", layer, what, s.idx, s.seq), wit)
			return
		}
	}
	// 50 further in-order frames of both classes.
	for i := 0; i < 50; i++ {
		s, err := ch.seal(total+i, !link && i%3 == 0)
		if err == nil {
			err = ch.unseal(s)
		}
		if err != nil {
			res.Violate("post-wrap-traffic-fails", fmt.Sprintf("%s: frame %d after the wrap (prio=%v): %v", layer, i, s.prio, err), wit)
			return
		}
	}
	res.Count("wrap_histories_"+layer, 1)
	res.Case(fmt.Sprintf("%sw2:%s:%d:%v:%x", keyPrefix, layer, k, permute, r.Uint64()), true)
}

// workload3: duplex traffic while A->B regular wraps.
func workload3(res *core.Result, r *rand.Rand, k int, keyPrefix string) {
	p := env.NewPair(r, "c15 w3")
	encA, encB := p.AB.Encryption(), p.BA.Encryption()
	wit := map[string]any{"k": k, "case_id": fmt.Sprintf("w3:%d", k)}
	mk := func(from, to *env.Instance, sess *state.Session, enc *state.EncryptionSession, mt frame.MessageType, tag string) (sealed, error) {
		f, err := from.BuilderV.NewFrameV1(from.IdentityV.IP, to.IdentityV.IP, mt, nil, []byte("c15-duplex-"+tag), nil)
		if err != nil {
			return sealed{}, err
		}
		defer f.ReturnToPool()
		if err := f.Seal(sess); err != nil {
			return sealed{}, err
		}
		data, _ := f.FrameDataWithMargins(0, 0)
		return sealed{seq: f.SequenceNum(), prio: mt == frame.RouterCtrl, key: append([]byte(nil), helper(enc).OutKey()...), bytes: append([]byte(nil), data...)}, nil
	}
	open := func(at *env.Instance, sess *state.Session, s sealed) error {
		f, err := at.BuilderV.ParseFrame(append([]byte(nil), s.bytes...), nil, 0)
		if err != nil {
			return err
		}
		defer f.ReturnToPool()
		return f.Unseal(sess)
	}
	// B -> A priority and regular traffic before the wrap.
	var bPrio []sealed
	nb := 3 + r.IntN(6)
	bClass := func(i int) frame.MessageType {
		if i%2 == 1 {
			return frame.SessionData // B's regular class: its counter and key are B's own, too
		}
		return frame.RouterCtrl
	}
	for i := 0; i < nb; i++ {
		s, err := mk(p.B, p.A, p.BA, encB, bClass(i), "b-before")
		if err != nil {
			res.Violate("seal-failed", fmt.Sprintf("duplex: %v", err), wit)
			return
		}
		if err := open(p.A, p.AB, s); err != nil {
			res.Violate("duplex-frame-rejected", fmt.Sprintf("duplex: B->A frame rejected before any wrap: %v", err), wit)
			return
		}
		bPrio = append(bPrio, s)
	}
	// A -> B regular traffic wraps.
	helper(encA).ReglSetOut(uint32(wrap - uint64(k)))
	for i, regular := 0, 0; regular < k+5; i++ {
		mt := frame.SessionData
		if i%5 == 4 {
			mt = frame.RouterCtrl
		} else {
			regular++
		}
		s, err := mk(p.A, p.B, p.AB, encA, mt, "a")
		if err != nil {
			res.Violate("seal-across-wrap-failed", fmt.Sprintf("duplex: A->B frame %d: %v", i, err), wit)
			return
		}
		if err := open(p.B, p.BA, s); err != nil {
			res.Violate("frame-near-wrap-rejected:duplex", fmt.Sprintf("duplex: in-order A->B frame %d (seq %d) rejected: %v", i, s.seq, err), wit)
			return
		}
	}
	// (i) The direction that did not change key: earlier B->A priority frames must stay rejected at A.
	for i, s := range bPrio {
		if err := open(p.A, p.AB, s); err == nil {
			res.Violate("replay-accepted-in-unchanged-direction",
				fmt.Sprintf("duplex: B->A frame %d (seq %d), accepted before, unsealed again at A after A's own outgoing regular sequence wrapped (B->A key unchanged)", i, s.seq), wit)
			return
		}
	}
	// (ii) B's outgoing priority numbers under its unchanged out key must not repeat.
	type kk struct {
		key  string
		prio bool
		seq  uint32
	}
	seen := map[kk]bool{}
	for _, s := range bPrio {
		seen[kk{string(s.key), s.prio, s.seq}] = true
	}
	for i := 0; i < nb+2; i++ {
		s, err := mk(p.B, p.A, p.BA, encB, bClass(i), "b-after")
		if err != nil {
			res.Violate("seal-failed", fmt.Sprintf("duplex: %v", err), wit)
			return
		}
		cls := map[bool]string{true: "priority", false: "regular"}[s.prio]
		if seen[kk{string(s.key), s.prio, s.seq}] {
			res.Violate("sequence-number-repeated:unchanged-direction",
				fmt.Sprintf("duplex: B's outgoing %s sequence %d repeats under B's unchanged out key after the incoming (A->B) regular sequence wrapped", cls, s.seq), wit)
			return
		}
		seen[kk{string(s.key), s.prio, s.seq}] = true
		if err := open(p.A, p.AB, s); err != nil {
			res.Violate("duplex-frame-rejected", fmt.Sprintf("duplex: fresh B->A %s frame (seq %d) rejected after the A->B wrap: %v", cls, s.seq, err), wit)
			return
		}
	}
	res.Count("duplex_wrap_histories", 1)
	res.Case(fmt.Sprintf("%sw3:%d:%d", keyPrefix, k, nb), true)
}

// workload4: both directions of one session pair wrap, in every order of up to three wrap events, for the
// end-to-end pair and for the link-layer pair derived from the same exchange. After every wrap: the direction that
// wrapped and the opposite direction both still carry fresh traffic (regular and priority), frames sealed under a
// replaced key no longer unseal, and at the end each side's out key equals the other side's in key.
func workload4(res *core.Result, r *rand.Rand, link bool, order string, keyPrefix string) {
	p := env.NewPair(r, "c15 w4")
	encA, encB := p.AB.Encryption(), p.BA.Encryption()
	if link {
		var err error
		encA, err = p.OrigA.DeriveSessionFromKX(true, "link layer crypt")
		if err != nil {
			panic(err)
		}
		encB, err = p.OrigB.DeriveSessionFromKX(false, "link layer crypt")
		if err != nil {
			panic(err)
		}
	}
	kind := map[bool]string{true: "link-layer", false: "end-to-end"}[link]
	wit := map[string]any{"workload": "both-directions-wrap", "kind": kind, "order": order, "case_id": fmt.Sprintf("w4:%s:%s", kind, order)}
	n := 0
	type fr struct {
		bytes []byte
		ab    bool
		desc  string
	}
	mk := func(ab, prio bool) (fr, error) {
		n++
		payload := []byte(fmt.Sprintf("c15-w4-%06d", n))
		from, to, sess, enc := p.A, p.B, p.AB, encA
		if !ab {
			from, to, sess, enc = p.B, p.A, p.BA, encB
		}
		if link {
			buf := make([]byte, peering.FrameOffset+len(payload)+peering.FrameOverhead)
			lf := peering.LinkFrame(buf)
			copy(lf.LinkData(), payload)
			if err := lf.Seal(enc); err != nil {
				return fr{}, err
			}
			return fr{buf, ab, fmt.Sprintf("link frame seq %d", lf.SequenceNum())}, nil
		}
		mt := frame.SessionData
		if prio {
			mt = frame.RouterCtrl
		}
		f, err := from.BuilderV.NewFrameV1(from.IdentityV.IP, to.IdentityV.IP, mt, nil, payload, nil)
		if err != nil {
			return fr{}, err
		}
		defer f.ReturnToPool()
		if err := f.Seal(sess); err != nil {
			return fr{}, err
		}
		d, _ := f.FrameDataWithMargins(0, 0)
		return fr{append([]byte(nil), d...), ab, fmt.Sprintf("type %d seq %d", mt, f.SequenceNum())}, nil
	}
	open := func(x fr) error {
		at, sess, enc := p.B, p.BA, encB
		if !x.ab {
			at, sess, enc = p.A, p.AB, encA
		}
		if link {
			return peering.LinkFrame(append([]byte(nil), x.bytes...)).Unseal(enc)
		}
		f, err := at.BuilderV.ParseFrame(append([]byte(nil), x.bytes...), nil, 0)
		if err != nil {
			return err
		}
		defer f.ReturnToPool()
		return f.Unseal(sess)
	}
	dirName := map[bool]string{true: "A->B", false: "B->A"}
	exchange := func(ab bool, count int, when string) bool {
		for i := 0; i < count; i++ {
			x, err := mk(ab, !link && i%3 == 2)
			if err != nil {
				res.Violate("seal-failed:both-directions-wrap", fmt.Sprintf("%s, wraps %s: sealing a %s frame %s failed: %v", kind, order, dirName[ab], when, err), wit)
				return false
			}
			if err := open(x); err != nil {
				res.Violate("keys-out-of-sync:both-directions-wrap", fmt.Sprintf("%s, wraps %s: an in-order %s frame (%s) %s does not unseal at its receiver: %v", kind, order, dirName[ab], x.desc, when, err), wit)
				return false
			}
		}
		return true
	}
	if !exchange(true, 4, "before any wrap") || !exchange(false, 4, "before any wrap") {
		return
	}
	for wi, c := range order {
		ab := c == 'a'
		when := fmt.Sprintf("at wrap %d (%s)", wi+1, dirName[ab])
		// a frame under the key that is about to be replaced
		old, err := mk(ab, false)
		if err != nil || open(old) != nil {
			res.Violate("keys-out-of-sync:both-directions-wrap", fmt.Sprintf("%s, wraps %s: %s frame before wrap %d rejected", kind, order, dirName[ab], wi+1), wit)
			return
		}
		enc := encA
		if !ab {
			enc = encB
		}
		k := 2 + r.IntN(6)
		helper(enc).ReglSetOut(uint32(wrap - uint64(k)))
		if !exchange(ab, k+6, when) {
			return
		}
		if !exchange(!ab, 4, "after "+when[3:]) {
			return
		}
		// fresh copy of the old frame: its key is gone
		if err := open(old); err == nil {
			res.Violate("old-key-frame-accepted:both-directions-wrap", fmt.Sprintf("%s, wraps %s: a %s frame sealed before wrap %d still unseals after it", kind, order, dirName[ab], wi+1), wit)
			return
		}
	}
	if !bytes.Equal(helper(encA).OutKey(), helper(encB).InKey()) || !bytes.Equal(helper(encB).OutKey(), helper(encA).InKey()) {
		res.Violate("keys-out-of-sync:both-directions-wrap", fmt.Sprintf("%s, wraps %s: after all wraps a side's out key differs from the other side's in key", kind, order), wit)
		return
	}
	res.Count("both_directions_wrap_histories", 1)
	res.Case(fmt.Sprintf("%sw4:%s:%s", keyPrefix, kind, order), true)
}

// workload5: key-setup events on a live session between sealed frames - the same key-exchange request served a
// second time (a duplicated or replayed hello request), a client exchange that is started and never completed
// (a handshake the peer refuses), a complete new exchange. Whatever happens to the keys, no (out key, class,
// sequence number) may ever be used twice by a sender.
func workload5(res *core.Result, r *rand.Rand, keyPrefix string) {
	p := env.NewPair(r, "c15 w5")
	encA, encB := p.AB.Encryption(), p.BA.Encryption()
	type rec struct {
		key  string
		prio bool
		seq  uint32
	}
	seen := map[rec]string{}
	var history []string
	ok := true
	sealSome := func(from, to *env.Instance, sess *state.Session, enc *state.EncryptionSession, who string, n int) {
		for i := 0; i < n && ok; i++ {
			prio := i%3 == 2
			mt := frame.SessionData
			if prio {
				mt = frame.RouterCtrl
			}
			f, err := from.BuilderV.NewFrameV1(from.IdentityV.IP, to.IdentityV.IP, mt, nil, []byte("c15-w5"), nil)
			if err != nil {
				return
			}
			if err := f.Seal(sess); err != nil {
				f.ReturnToPool()
				history = append(history, who+" cannot seal: "+err.Error())
				return
			}
			k := rec{string(helper(enc).OutKey()), prio, f.SequenceNum()}
			f.ReturnToPool()
			if prev, dup := seen[k]; dup {
				ok = false
				res.Violate("sequence-number-repeated:after-key-setup-event", fmt.Sprintf("%s sealed a %s frame with sequence number %d under a key it had already used that number with (first use: %s); history: %s", who, map[bool]string{true: "priority", false: "regular"}[prio], k.seq, prev, strings.Join(history, "; ")), map[string]any{"case_id": "w5", "history": history})
				return
			}
			seen[k] = fmt.Sprintf("%s after [%s]", who, strings.Join(history, "; "))
		}
	}
	both := func(n int) {
		sealSome(p.A, p.B, p.AB, encA, "A", n)
		sealSome(p.B, p.A, p.BA, encB, "B", n)
	}
	both(5 + r.IntN(10))
	// the request of a fresh exchange, kept so that it can be served twice
	for step := 0; step < 6 && ok; step++ {
		switch r.IntN(4) {
		case 3:
			// the end of a setup as every real flow has it: the exchange keys are cleaned up - some frames after the
			// keys were installed (the link handshake cleans up only after the peer's acknowledgement)
			if r.IntN(2) == 0 {
				encA.InitCleanup()
				history = append(history, "A cleans up its exchange keys")
			} else {
				encB.InitCleanup()
				history = append(history, "B cleans up its exchange keys")
			}
			both(3 + r.IntN(6))
		case 0:
			kx, kxt, err := encA.InitKeyClientStart()
			if err != nil {
				history = append(history, "client start failed")
				break
			}
			kx2, kxt2, err := encB.InitKeyServer(kx, kxt)
			if err != nil {
				history = append(history, "server refused")
				break
			}
			history = append(history, "B serves a new request of A")
			both(3 + r.IntN(6))
			// the same request again (duplicate / replay), before or after A completed
			if r.IntN(2) == 0 {
				_ = encA.InitKeyClientComplete(kx2, kxt2)
				history = append(history, "A completes")
				both(3)
			}
			if _, _, err := encB.InitKeyServer(kx, kxt); err == nil {
				history = append(history, "B serves the very same request again")
			}
			both(3 + r.IntN(6))
		case 1:
			if _, _, err := encA.InitKeyClientStart(); err == nil {
				history = append(history, "A starts an exchange that is never completed")
			}
			both(3 + r.IntN(6))
		default:
			kx, kxt, err := encB.InitKeyClientStart()
			if err == nil {
				if kx2, kxt2, err := encA.InitKeyServer(kx, kxt); err == nil {
					_ = encB.InitKeyClientComplete(kx2, kxt2)
					history = append(history, "complete exchange started by B")
				}
			}
			both(3 + r.IntN(6))
		}
	}
	if ok {
		res.Count("key_setup_event_histories", 1)
		res.Case(fmt.Sprintf("%sw5:%s", keyPrefix, strings.Join(history, ";")), true)
	}
}

func parallel(n int, fn func(w int)) { core.Parallel(n, fn) }

func run(c *core.Ctx) {
	res := c.Res
	if c.RaceBuild {
		n := c.Q(60, 1500)
		r := core.RNG("c15/race")
		for i := 0; i < n; i++ {
			workload1(res, r, 2+r.IntN(31), 10+r.IntN(20), "race:")
		}
		return
	}
	const W = 16
	// Workload 1, plain build.
	n1 := c.Q(300, 5000)
	parallel(4, func(w int) {
		r := core.RNG(fmt.Sprintf("c15/w1/%d", w))
		for i := w; i < n1; i += 4 {
			workload1(res, r, 2+r.IntN(31), 10+r.IntN(20), "")
		}
	})
	// Workload 2.
	var ks []int
	if c.Tier == core.Thorough {
		for k := 2; k <= 300; k++ {
			ks = append(ks, k)
		}
	} else {
		r := core.RNG("c15/ks")
		ks = []int{2, 3, 4, 9, 10, 11, 255, 256, 257, 299, 300}
		for len(ks) < 40 {
			ks = append(ks, 2+r.IntN(299))
		}
	}
	perms := c.Q(20, 200)
	type job struct {
		link    bool
		k       int
		permute bool
	}
	var jobs []job
	for _, k := range ks {
		for _, link := range []bool{false, true} {
			jobs = append(jobs, job{link, k, false})
			if k >= 10 {
				for p := 0; p < perms; p++ {
					jobs = append(jobs, job{link, k, true})
				}
			}
		}
	}
	res.Sample(map[string]any{"workload": 2, "layer": "e2e", "sender_preset": "2^32-10", "frames": 600, "delivery": "permutation with displacement <= 8"})
	parallel(W, func(w int) {
		r := core.RNG(fmt.Sprintf("c15/w2/%d", w))
		for i := w; i < len(jobs); i += W {
			j := jobs[i]
			workload2(res, r, j.link, j.k, j.permute, 600, "")
		}
	})
	// Workload 3.
	n3 := c.Q(60, 600)
	parallel(W, func(w int) {
		r := core.RNG(fmt.Sprintf("c15/w3/%d", w))
		for i := w; i < n3; i += W {
			workload3(res, r, 2+r.IntN(40), "")
		}
	})
	// Workload 4: every order of wraps of the two directions.
	var orders []string
	var gen func(prefix string, left int)
	gen = func(prefix string, left int) {
		if len(prefix) >= 2 {
			orders = append(orders, prefix)
		}
		if left == 0 {
			return
		}
		gen(prefix+"a", left-1)
		gen(prefix+"b", left-1)
	}
	gen("", c.Q(3, 5))
	parallel(W, func(w int) {
		r := core.RNG(fmt.Sprintf("c15/w4/%d", w))
		for i := w; i < 2*len(orders); i += W {
			workload4(res, r, i%2 == 1, orders[i/2], "")
		}
	})
	// Workload 5: key-setup events between sealed frames.
	parallel(W, func(w int) {
		r := core.RNG(fmt.Sprintf("c15/w5/%d", w))
		for i := w; i < c.Q(64, 1000); i += W {
			workload5(res, r, "")
		}
	})
	res.Sample(map[string]any{"workload": 4, "desc": "end-to-end pair, wraps in the order A->B, B->A, A->B; traffic in both directions after each"})
	res.Sample(map[string]any{"workload": 3, "desc": "B->A priority frames accepted; A->B regular wraps; B->A frames replayed at A; B seals more priority frames"})
	res.Assume("the 32-bit wrap is reached by presetting the outgoing counter through the repository's EncryptionSessionTestHelper (2^32 real frames are out of reach)")
	res.Assume("under reordering the sender preset is at least 10 frames before the wrap, so the receiver has seen a number >= 0xFFFFFF00 before the first new-epoch frame arrives (true for every real session, whose counter starts at 1)")
	res.Assume("a priority class wrapping on its own is outside the claim")
	res.Assume("the sender preset is at least 2 before the wrap: a receiver that never saw a regular number near the wrap cannot know about it (no real session starts there)")
	res.Require(res.Counter("concurrent_out_runs_across_wrap") >= int64(n1*9/10), "too few concurrent runs crossed the wrap")
}
