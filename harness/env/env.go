// Package env builds the real mycoria objects the monitors run against:
// seeded identities, instance stubs, state managers, paired sessions.
package env

import (
	"crypto/ed25519"
	"fmt"
	"math/rand/v2"
	"net/netip"
	"sync/atomic"
	"time"

	"github.com/mycoria/crop"
	"github.com/mycoria/mycoria/api/dns"
	"github.com/mycoria/mycoria/api/httpapi"
	"github.com/mycoria/mycoria/api/netstack"
	"github.com/mycoria/mycoria/config"
	"github.com/mycoria/mycoria/frame"
	"github.com/mycoria/mycoria/m"
	"github.com/mycoria/mycoria/peering"
	"github.com/mycoria/mycoria/router"
	"github.com/mycoria/mycoria/state"
	"github.com/mycoria/mycoria/storage"
	"github.com/mycoria/mycoria/switchr"
	"github.com/mycoria/mycoria/tun"

	"verifharness/core"
)

// NewIdentity derives a router identity from the PRNG: an Ed25519 key whose
// BLAKE3 address digest (easing 0) lies in one of the given prefixes.
// With nil prefixes the routable half fd00::/9 outside the special /12 is used
// (a geo-marked address, the common case).
func NewIdentity(r *rand.Rand, accept func(netip.Addr) bool) *m.Address {
	if accept == nil {
		accept = func(ip netip.Addr) bool {
			return m.GetAddressType(ip) == m.TypeGeoMarked
		}
	}
	for {
		seed := core.RandBytes(r, ed25519.SeedSize)
		priv := ed25519.NewKeyFromSeed(seed)
		pub := priv.Public().(ed25519.PublicKey)
		ip, err := m.DigestToAddress(crop.BLAKE3, crop.KeyPairTypeEd25519, pub, 0)
		if err != nil {
			panic(err)
		}
		if !m.BaseNetPrefix.Contains(ip) || m.InternalPrefix.Contains(ip) || !accept(ip) {
			continue
		}
		addr, err := m.AddressFromKeyPair(crop.MakeEd25519KeyPair(priv, pub), ip, crop.BLAKE3, 0)
		if err != nil {
			panic(fmt.Sprintf("identity generation: %v", err))
		}
		return addr
	}
}

// AcceptType returns an accept function for one address type.
func AcceptType(t m.AddressType) func(netip.Addr) bool {
	return func(ip netip.Addr) bool { return m.GetAddressType(ip) == t }
}

// Instance is a harness-side inst.Ance: all real modules, wired by the harness.
type Instance struct {
	VersionV  string
	ConfigV   *config.Config
	IdentityV *m.Address
	BuilderV  *frame.Builder

	StateV   *state.State
	StorageV storage.Storage
	// SlowV is StorageV: the real in-memory storage behind an interposed delay (0 unless a workload sets one)
	SlowV *SlowStorage
	TunV  *tun.Device

	PeeringV *peering.Peering
	SwitchV  *switchr.Switch
	RouterV  *router.Router
	TableV   *m.RoutingTable
}

// Version returns the version.
func (i *Instance) Version() string { return i.VersionV }

// Config returns the config.
func (i *Instance) Config() *config.Config { return i.ConfigV }

// Identity returns the identity.
func (i *Instance) Identity() *m.Address { return i.IdentityV }

// FrameBuilder returns the frame builder.
func (i *Instance) FrameBuilder() *frame.Builder { return i.BuilderV }

// State returns the state manager.
func (i *Instance) State() *state.State { return i.StateV }

// TunDevice returns the (fake) tun device.
func (i *Instance) TunDevice() *tun.Device { return i.TunV }

// NetStack returns nil (no local API stack in the harness).
func (i *Instance) NetStack() *netstack.NetStack { return nil }

// API returns nil.
func (i *Instance) API() *httpapi.API { return nil }

// DNS returns nil.
func (i *Instance) DNS() *dns.Server { return nil }

// Peering returns the peering manager.
func (i *Instance) Peering() *peering.Peering { return i.PeeringV }

// Switch returns the switch.
func (i *Instance) Switch() *switchr.Switch { return i.SwitchV }

// Router returns the router.
func (i *Instance) Router() *router.Router { return i.RouterV }

// RoutingTable returns the routing table (the router's if present).
func (i *Instance) RoutingTable() *m.RoutingTable {
	if i.RouterV != nil {
		return i.RouterV.Table()
	}
	return i.TableV
}

// NewBareInstance makes an instance with identity, config, builder (link
// margins set like mycoria.New does), memory storage and state manager only.
func NewBareInstance(id *m.Address, cfg *config.Config) *Instance {
	if cfg == nil {
		cfg = config.MakeTestConfig(config.Store{})
	}
	in := &Instance{
		VersionV:  "v0.0.0-verif",
		ConfigV:   cfg,
		IdentityV: id,
		BuilderV:  frame.NewFrameBuilder(),
	}
	in.SlowV = &SlowStorage{Storage: storage.NewMemStorage()}
	in.StorageV = in.SlowV
	in.BuilderV.SetFrameMargins(peering.FrameOffset, peering.FrameOverhead)
	in.StateV = state.New(in, in.StorageV)
	in.TableV = m.NewRoutingTable(m.RoutingTableConfig{})
	return in
}

// Introduce makes a known to b and b known to a (stored router records), and
// returns the two sessions (a's session for b, b's session for a).
func Introduce(a, b *Instance) (ab, ba *state.Session, err error) {
	pa := a.IdentityV.PublicAddress
	pb := b.IdentityV.PublicAddress
	if err := a.StateV.AddRouter(&pb); err != nil {
		return nil, nil, err
	}
	if err := b.StateV.AddRouter(&pa); err != nil {
		return nil, nil, err
	}
	ab = a.StateV.GetSession(pb.IP)
	ba = b.StateV.GetSession(pa.IP)
	if ab == nil || ba == nil {
		return nil, nil, fmt.Errorf("no session after AddRouter")
	}
	return ab, ba, nil
}

// KeyExchange runs the real end-to-end key exchange API between the sessions
// (a = client, b = server), leaving both encryption sessions set up.
func KeyExchange(ab, ba *state.Session) error {
	kx, kxt, err := ab.Encryption().InitKeyClientStart()
	if err != nil {
		return err
	}
	kx2, kxt2, err := ba.Encryption().InitKeyServer(kx, kxt)
	if err != nil {
		return err
	}
	if err := ab.Encryption().InitKeyClientComplete(kx2, kxt2); err != nil {
		return err
	}
	return nil
}

// Pair is two routers A (sender) and B (receiver) that know each other and
// completed one real end-to-end key exchange. The original encryption
// sessions keep the kx keys so that fresh session objects with the same keys
// (fresh sequence windows/counters) can be derived through the real API.
type Pair struct {
	A, B         *Instance
	AB, BA       *state.Session
	OrigA, OrigB *state.EncryptionSession
	Purpose      string
}

// NewPair builds a pair from the PRNG.
func NewPair(r *rand.Rand, purpose string) *Pair {
	return NewPairWith(NewIdentity(r, nil), NewIdentity(r, nil), purpose)
}

// NewPairWith builds a pair for given identities.
func NewPairWith(idA, idB *m.Address, purpose string) *Pair {
	p := &Pair{Purpose: purpose}
	p.A = NewBareInstance(idA, nil)
	p.B = NewBareInstance(idB, nil)
	var err error
	p.AB, p.BA, err = Introduce(p.A, p.B)
	if err != nil {
		panic(err)
	}
	if err := KeyExchange(p.AB, p.BA); err != nil {
		panic(err)
	}
	p.OrigA = p.AB.Encryption()
	p.OrigB = p.BA.Encryption()
	p.FreshSender()
	p.FreshReceiver()
	return p
}

// FreshSender gives A's session for B a fresh encryption session (same keys).
func (p *Pair) FreshSender() {
	enc, err := p.OrigA.DeriveSessionFromKX(true, p.Purpose)
	if err != nil {
		panic(err)
	}
	p.AB.SetEncryptionSession(enc)
}

// FreshReceiver gives B a fresh state manager and session for A (fresh signed
// timestamp filter) with a fresh encryption session (same keys, fresh windows).
func (p *Pair) FreshReceiver() {
	p.B = NewBareInstance(p.B.IdentityV, p.B.ConfigV)
	pa := p.A.IdentityV.PublicAddress
	if err := p.B.StateV.AddRouter(&pa); err != nil {
		panic(err)
	}
	p.BA = p.B.StateV.GetSession(pa.IP)
	enc, err := p.OrigB.DeriveSessionFromKX(false, p.Purpose)
	if err != nil {
		panic(err)
	}
	p.BA.SetEncryptionSession(enc)
}

// SlowStorage is the real storage with an adjustable delay in front of the router lookup: storage access is one
// of the points where the router's workers really are suspended (a state file, a database), so this is where the
// harness may legitimately stretch time to let two workers meet.
type SlowStorage struct {
	storage.Storage
	getRouterDelay atomic.Int64 // nanoseconds
	// GetRouterCalls counts lookups (so a workload can tell that its delay was exercised).
	GetRouterCalls atomic.Int64
}

// SetGetRouterDelay sets the delay of every following GetRouter call.
func (s *SlowStorage) SetGetRouterDelay(d time.Duration) { s.getRouterDelay.Store(int64(d)) }

// GetRouter waits for the configured delay, then asks the real storage.
func (s *SlowStorage) GetRouter(ip netip.Addr) (*storage.StoredRouter, error) {
	s.GetRouterCalls.Add(1)
	if d := s.getRouterDelay.Load(); d > 0 {
		time.Sleep(time.Duration(d))
	}
	return s.Storage.GetRouter(ip)
}

// Rekey makes router `in` set up new end-to-end keys with peer the way the real router gets there: it has lost its
// keys for that peer (a restart, or a "no encryption keys" error ping), any pending hello state has expired, and
// its next packet for the peer calls HelloPing.Send. (Send itself does nothing for a peer whose session is set up.)
func Rekey(in *Instance, peer netip.Addr) (<-chan struct{}, error) {
	in.RouterV.HelloPing.VerifExpireHello(peer)
	_ = in.StateV.SetEncryptionSession(peer, nil)
	return in.RouterV.HelloPing.Send(peer)
}
