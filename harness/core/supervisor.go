package core

import (
	"bufio"
	"encoding/json"
	"errors"
	"fmt"
	"os"
	"os/exec"
	"path/filepath"
	"regexp"
	"sort"
	"strings"
	"syscall"
	"time"
)

// Ctx is what a property's Run function receives.
type Ctx struct {
	Res       *Result
	Tier      Tier
	RaceBuild bool   // this binary was built with -race; run the race-part workloads
	OnlyCase  string // if non-empty, only run the case with this id (replay)
	WorkDir   string // per-run scratch dir under /verif/.run/<id>
}

// Q picks the quick or thorough value.
func (c *Ctx) Q(quick, thorough int) int {
	if c.Tier == Thorough {
		return thorough
	}
	return quick
}

// Prop describes one property checker.
type Prop struct {
	ID    string
	Level string // evidence level: exploration | fault_enumeration | ...
	Rule  string // how cases are generated and what makes one non-trivial
	// Run executes the workload + monitors for the given tier.
	Run func(c *Ctx)
	// HasRacePart: the check additionally runs Run in the -race build (c.RaceBuild=true).
	HasRacePart bool
	// RaceAnchors: a race report is a violation of this property iff one of its
	// stacks contains a frame matching one of these regexps.
	RaceAnchors []string
	// CrashIsViolation: abnormal death of the worker (fatal runtime error in the
	// code under test) refutes this property (else: inconclusive).
	CrashIsViolation bool
	// WorkerTimeout per tier (generous watchdog; firing => inconclusive).
	TimeoutQuick, TimeoutThorough time.Duration
}

var registry = map[string]*Prop{}

// Register registers a property checker.
func Register(p *Prop) { registry[p.ID] = p }

// Lookup finds a property checker.
func Lookup(id string) *Prop { return registry[id] }

// IDs returns all registered ids.
func IDs() []string {
	out := make([]string, 0, len(registry))
	for k := range registry {
		out = append(out, k)
	}
	sort.Strings(out)
	return out
}

// KnownFindings is the committed known-findings file.
type KnownFindings struct {
	Findings []KnownFinding `json:"findings"`
	Fixed    []string       `json:"fixed"`
}

// KnownFinding lists one genuine, recorded (not repaired) defect.
type KnownFinding struct {
	Property  string `json:"property"`
	Signature string `json:"signature"` // regexp matched against the violation signature (anchored)
	What      string `json:"what"`
}

func loadKnownFindings() *KnownFindings {
	kf := &KnownFindings{}
	data, err := os.ReadFile(filepath.Join(VerifDir, "known_findings.json"))
	if err != nil {
		return kf
	}
	_ = json.Unmarshal(data, kf)
	return kf
}

func (kf *KnownFindings) match(v *Violation) *KnownFinding {
	for i := range kf.Findings {
		f := &kf.Findings[i]
		if f.Property != v.Property {
			continue
		}
		re, err := regexp.Compile("^(?:" + f.Signature + ")$")
		if err != nil {
			continue
		}
		if re.MatchString(v.Signature) {
			return f
		}
	}
	return nil
}

// WorkerMain runs one property in this process and writes the export to out.
func WorkerMain(id string, tier Tier, raceBuild bool, out string, onlyCase string) int {
	p := Lookup(id)
	if p == nil {
		fmt.Fprintf(os.Stderr, "unknown property %s\n", id)
		return 3
	}
	res := NewResult(id, tier, p.Level)
	res.Rule = p.Rule
	work := filepath.Join(RunDir, id, "work")
	if raceBuild {
		work += "-race"
	}
	_ = os.RemoveAll(work)
	_ = os.MkdirAll(work, 0o755)
	c := &Ctx{Res: res, Tier: tier, RaceBuild: raceBuild, OnlyCase: onlyCase, WorkDir: work}
	StartStallMonitor()
	p.Run(c)
	if Serial() {
		res.Count("asynchronous_tree_drivers_run_one_at_a_time", 1)
	}
	if n := SnapshotsTaken.Load(); n > 0 {
		res.Count("quiescence_goroutine_snapshots", n)
		res.Count("quiescence_snapshots_with_goroutines_of_the_code_under_test", ForeignSeen.Load())
		if g := SettleGaveUp.Load(); g > 0 {
			res.Count("quiescence_waits_given_up", g)
		}
	}
	if n := StallCount(); n > 0 {
		res.Count("process_stalls_over_1500ms_observed", int64(n))
	}
	_ = os.RemoveAll(work)
	data, err := json.Marshal(res.Export())
	if err != nil {
		// Samples/extras must be JSON-serialisable; fall back without them.
		e := res.Export()
		e.Samples = []any{fmt.Sprintf("unserialisable samples: %v", err)}
		e.Extra = map[string]any{}
		data, _ = json.Marshal(e)
	}
	if err := os.WriteFile(out, data, 0o644); err != nil {
		fmt.Fprintf(os.Stderr, "write result: %v\n", err)
		return 3
	}
	return 0
}

type raceReport struct {
	Text    string
	Related bool
	Key     string
}

var lineNoRe = regexp.MustCompile(`:\d+( \+0x[0-9a-f]+)?`)

func parseRaceLogs(prefix string, anchors []string) (reports []raceReport) {
	files, _ := filepath.Glob(prefix + ".*")
	var res []*regexp.Regexp
	for _, a := range anchors {
		if re, err := regexp.Compile(a); err == nil {
			res = append(res, re)
		}
	}
	seen := map[string]bool{}
	for _, fn := range files {
		data, err := os.ReadFile(fn)
		if err != nil {
			continue
		}
		blocks := strings.Split(string(data), "==================")
		for _, b := range blocks {
			if !strings.Contains(b, "WARNING: DATA RACE") {
				continue
			}
			// Key: function names of all frames, line numbers stripped.
			var funcs []string
			sc := bufio.NewScanner(strings.NewReader(b))
			for sc.Scan() {
				l := strings.TrimSpace(sc.Text())
				if strings.Contains(l, "(") && !strings.HasPrefix(l, "/") && !strings.HasPrefix(l, "Goroutine") &&
					!strings.HasPrefix(l, "Read") && !strings.HasPrefix(l, "Write") && !strings.HasPrefix(l, "Previous") &&
					!strings.HasPrefix(l, "WARNING") {
					if i := strings.Index(l, "("); i > 0 {
						funcs = append(funcs, l[:i])
					}
				}
			}
			key := Hash(strings.Join(funcs, ";"))
			if seen[key] {
				continue
			}
			seen[key] = true
			// Related iff an anchor matches the accessing code of one of the two accesses: the first two frames
			// of repository code in each access stack (callers further up and goroutine creation sites do not count).
			rel := false
			for _, fr := range accessFrames(b) {
				for _, re := range res {
					if re.MatchString(fr) {
						rel = true
					}
				}
			}
			reports = append(reports, raceReport{Text: lineNoRe.ReplaceAllString(b, ""), Related: rel, Key: key})
		}
	}
	return reports
}

// accessFrames returns, for each access stack of a race report (Read/Write/Previous ... at ... by ...), the
// first two frames that lie in the repository under test.
func accessFrames(block string) []string {
	var out []string
	inAccess, taken := false, 0
	for _, l := range strings.Split(block, "\n") {
		t := strings.TrimSpace(l)
		switch {
		case strings.HasPrefix(t, "Read at") || strings.HasPrefix(t, "Write at") || strings.HasPrefix(t, "Previous read at") || strings.HasPrefix(t, "Previous write at") ||
			strings.HasPrefix(t, "Atomic") || strings.HasPrefix(t, "Previous atomic"):
			inAccess, taken = true, 0
		case t == "" || strings.HasPrefix(t, "Goroutine"):
			inAccess = false
		case inAccess && taken < 2 && strings.Contains(t, "github.com/mycoria/mycoria/") && !strings.HasPrefix(t, "/"):
			out = append(out, t)
			taken++
		}
	}
	return out
}

// serialRerun is set once a worker asked for a serial run; later workers of this supervisor start that way.
var serialRerun bool

// SerialReruns counts workers run again in serial mode.
var SerialReruns int

func runWorker(bin string, id string, tier Tier, race bool, timeout time.Duration, onlyCase string) (exp *Export, crashed bool, timedOut bool, logPath string, raceLogPrefix string, err error) {
	dir := filepath.Join(RunDir, id)
	_ = os.MkdirAll(dir, 0o755)
	suffix := "plain"
	if race {
		suffix = "race"
	}
	out := filepath.Join(dir, "result-"+suffix+".json")
	logPath = filepath.Join(dir, "worker-"+suffix+".log")
	raceLogPrefix = filepath.Join(dir, "racelog")
	_ = os.Remove(out)
	if race {
		old, _ := filepath.Glob(raceLogPrefix + ".*")
		for _, f := range old {
			_ = os.Remove(f)
		}
	}
	logf, err := os.Create(logPath)
	if err != nil {
		return nil, false, false, logPath, raceLogPrefix, err
	}
	defer logf.Close()
	args := []string{"worker", id, string(tier), out}
	if onlyCase != "" {
		args = append(args, onlyCase)
	}
	cmd := exec.Command(bin, args...)
	cmd.Stdout = logf
	cmd.Stderr = logf
	cmd.Env = append(os.Environ(), "GOTRACEBACK=all")
	if serialRerun {
		cmd.Env = append(cmd.Env, "VERIF_SERIAL=1")
	}
	if race {
		cmd.Env = append(cmd.Env, "GORACE=halt_on_error=0 log_path="+raceLogPrefix)
	}
	cmd.SysProcAttr = &syscall.SysProcAttr{Setpgid: true}
	if err := cmd.Start(); err != nil {
		return nil, false, false, logPath, raceLogPrefix, err
	}
	done := make(chan error, 1)
	go func() { done <- cmd.Wait() }()
	var werr error
	select {
	case werr = <-done:
	case <-time.After(timeout):
		timedOut = true
		_ = syscall.Kill(-cmd.Process.Pid, syscall.SIGQUIT)
		select {
		case werr = <-done:
		case <-time.After(10 * time.Second):
			_ = syscall.Kill(-cmd.Process.Pid, syscall.SIGKILL)
			werr = <-done
		}
	}
	data, rerr := os.ReadFile(out)
	if ee, ok := werr.(*exec.ExitError); ok && rerr != nil && !timedOut && !serialRerun && ee.ExitCode() == SerialRerunExit {
		// the worker found the tree under test working asynchronously and asks for one driver at a time
		logf.Close()
		_ = os.Rename(logPath, logPath+".parallel")
		serialRerun = true
		SerialReruns++
		return runWorker(bin, id, tier, race, timeout, onlyCase)
	}
	if rerr != nil {
		// No result: the worker died.
		if timedOut {
			return nil, false, true, logPath, raceLogPrefix, nil
		}
		return nil, true, false, logPath, raceLogPrefix, werr
	}
	exp = &Export{}
	if jerr := json.Unmarshal(data, exp); jerr != nil {
		return nil, true, false, logPath, raceLogPrefix, jerr
	}
	return exp, false, false, logPath, raceLogPrefix, nil
}

// SupervisorMain runs the check for one property and prints the verdict.
// Exit codes: 0 held (or only known findings), 1 violation, 3 inconclusive.
func SupervisorMain(id string, tier Tier, plainBin, raceBin string, onlyCase string) int {
	p := Lookup(id)
	if p == nil {
		fmt.Printf("INCONCLUSIVE property=%s reason=unknown-property\n", id)
		return 3
	}
	start := time.Now()
	timeout := p.TimeoutQuick
	if tier == Thorough {
		timeout = p.TimeoutThorough
	}
	if timeout == 0 {
		timeout = 20 * time.Minute
		if tier == Thorough {
			timeout = 90 * time.Minute
		}
	}
	_ = os.MkdirAll(EvidenceDir, 0o755)
	_ = os.MkdirAll(filepath.Join(ReplayDir, id), 0o755)

	var total *Export
	var inconclusive []string
	var extraViolations []Violation

	handle := func(race bool, bin string) {
		exp, crashed, timedOut, logPath, raceLogPrefix, err := runWorker(bin, id, tier, race, timeout, onlyCase)
		part := "plain"
		if race {
			part = "race"
		}
		switch {
		case timedOut:
			inconclusive = append(inconclusive, fmt.Sprintf("%s worker watchdog fired after %s (log %s)", part, timeout, logPath))
		case crashed:
			// Keep the log as the replay artefact.
			keep := filepath.Join(ReplayDir, id, fmt.Sprintf("%s-%s-%d-crash-%s.log", id, tier, Seed(), part))
			if data, rerr := os.ReadFile(logPath); rerr == nil {
				if len(data) > 400_000 {
					data = append(data[:200_000], data[len(data)-200_000:]...)
				}
				_ = os.WriteFile(keep, data, 0o644)
			}
			sig := "worker-crash"
			if data, rerr := os.ReadFile(keep); rerr == nil {
				sig = "worker-crash:" + crashSignature(string(data))
			}
			if p.CrashIsViolation && crashInRepo(keep) {
				extraViolations = append(extraViolations, Violation{Property: id, Signature: sig,
					Desc: fmt.Sprintf("%s worker process died (%v); fatal error in code under test", part, err), Replay: keep})
			} else {
				inconclusive = append(inconclusive, fmt.Sprintf("%s worker died: %v (log %s)", part, err, keep))
			}
		case err != nil:
			inconclusive = append(inconclusive, fmt.Sprintf("%s worker: %v", part, err))
		default:
			if total == nil {
				total = exp
			} else {
				total.Merge(exp)
			}
		}
		if race && !timedOut {
			reports := parseRaceLogs(raceLogPrefix, p.RaceAnchors)
			var unrelated []string
			nrel := 0
			for _, r := range reports {
				if r.Related {
					nrel++
					path := filepath.Join(ReplayDir, id, fmt.Sprintf("%s-%s-%d-race-%s.txt", id, tier, Seed(), r.Key))
					_ = os.WriteFile(path, []byte(r.Text), 0o644)
					extraViolations = append(extraViolations, Violation{Property: id, Signature: "data-race:" + r.Key,
						Desc: "data race on state anchored by this property: " + firstLines(r.Text, 6), Replay: path})
				} else {
					unrelated = append(unrelated, firstLines(r.Text, 8))
				}
			}
			if total != nil {
				if total.Extra == nil {
					total.Extra = map[string]any{}
				}
				total.Extra["race_reports_related"] = nrel
				total.Extra["race_reports_unrelated"] = len(unrelated)
				if len(unrelated) > 5 {
					unrelated = unrelated[:5]
				}
				total.Extra["unrelated_races"] = unrelated
			}
		}
	}

	handle(false, plainBin)
	if p.HasRacePart && raceBin != "" && onlyCase == "" {
		handle(true, raceBin)
	}

	if total == nil {
		total = &Export{Property: id, Tier: tier, Level: p.Level, Rule: p.Rule}
	}
	total.Violations = append(total.Violations, extraViolations...)
	if total.ViolationSig == nil {
		total.ViolationSig = map[string]int{}
	}
	for _, v := range extraViolations {
		total.ViolationSig[v.Signature]++
	}
	inconclusive = append(inconclusive, total.Inconclusive...)

	// Known findings.
	kf := loadKnownFindings()
	knownPrinted := map[string]bool{}
	var unknown []Violation
	for i := range total.Violations {
		v := &total.Violations[i]
		if f := kf.match(v); f != nil {
			v.Known = true
			if !knownPrinted[f.Signature] {
				knownPrinted[f.Signature] = true
				fmt.Printf("KNOWN-FINDING: property=%s %s (witness class %s, %d observations, e.g. %s)\n",
					id, f.What, v.Signature, total.ViolationSig[v.Signature], v.Replay)
			}
		} else {
			unknown = append(unknown, *v)
		}
	}

	nviol := 0
	for _, c := range total.ViolationSig {
		nviol += c
	}
	writeEvidence(total, nviol, inconclusive, time.Since(start).Seconds())

	fmt.Printf("property=%s tier=%s seed=%d evaluations=%d distinct_nontrivial=%d violations=%d wall_s=%.1f\n",
		id, tier, Seed(), total.Evaluations, total.Distinct, nviol, time.Since(start).Seconds())
	keys := make([]string, 0, len(total.Counters))
	for k := range total.Counters {
		keys = append(keys, k)
	}
	sort.Strings(keys)
	for _, k := range keys {
		fmt.Printf("  observed %-44s %d\n", k, total.Counters[k])
	}

	if len(unknown) > 0 {
		printed := map[string]bool{}
		for _, v := range unknown {
			if printed[v.Signature] {
				continue
			}
			printed[v.Signature] = true
			fmt.Printf("VIOLATION property=%s replay=%s\n", id, v.Replay)
			fmt.Printf("  class=%s count=%d: %s\n", v.Signature, total.ViolationSig[v.Signature], v.Desc)
		}
		return 1
	}
	if len(inconclusive) > 0 {
		for _, r := range inconclusive {
			fmt.Printf("INCONCLUSIVE property=%s reason=%s\n", id, r)
		}
		return 3
	}
	fmt.Printf("HELD property=%s on everything explored\n", id)
	return 0
}

func firstLines(s string, n int) string {
	lines := strings.Split(strings.TrimSpace(s), "\n")
	if len(lines) > n {
		lines = lines[:n]
	}
	return strings.Join(lines, " | ")
}

var crashLineRe = regexp.MustCompile(`(?m)^(panic: .*|fatal error: .*)$`)

func crashSignature(log string) string {
	m := crashLineRe.FindString(log)
	if m == "" {
		return "unknown"
	}
	if len(m) > 100 {
		m = m[:100]
	}
	return m
}

// crashInRepo reports whether the crash log shows frames of the code under test.
func crashInRepo(path string) bool {
	data, err := os.ReadFile(path)
	if err != nil {
		return false
	}
	s := string(data)
	if !strings.Contains(s, "panic:") && !strings.Contains(s, "fatal error:") {
		return false
	}
	return strings.Contains(s, "github.com/mycoria/mycoria/")
}

func writeEvidence(e *Export, nviol int, inconclusive []string, wall float64) {
	cov := map[string]any{
		"evaluations":         e.Evaluations,
		"distinct_nontrivial": e.Distinct,
		"rule":                e.Rule,
		"samples":             e.Samples,
		"exhaustive":          e.Exhaustive,
	}
	if len(e.Samples) == 0 {
		cov["samples"] = []any{"(no sample recorded)"}
	}
	for k, v := range e.Extra {
		if _, clash := cov[k]; !clash {
			cov[k] = v
		}
	}
	if len(e.Counters) > 0 {
		cov["observed"] = e.Counters
	}
	if len(inconclusive) > 0 {
		cov["inconclusive_reasons"] = inconclusive
	}
	known := 0
	for _, v := range e.Violations {
		if v.Known {
			known++
		}
	}
	cov["violation_classes"] = e.ViolationSig
	cov["known_finding_witnesses"] = known
	ev := map[string]any{
		"property_id": e.Property,
		"tier":        e.Tier,
		"seed":        Seed(),
		"level":       e.Level,
		"coverage":    cov,
		"assumptions": dedup(e.Assumptions),
		"wall_s":      wall,
		"violations":  nviol,
	}
	data, err := json.MarshalIndent(ev, "", " ")
	if err != nil {
		return
	}
	_ = os.WriteFile(filepath.Join(EvidenceDir, e.Property+".json"), data, 0o644)
}

func dedup(in []string) []string {
	seen := map[string]bool{}
	out := []string{}
	for _, s := range in {
		if !seen[s] {
			seen[s] = true
			out = append(out, s)
		}
	}
	return out
}

// ErrInconclusive is returned by helpers when a step could not be decided.
var ErrInconclusive = errors.New("inconclusive")
