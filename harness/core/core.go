// Package core holds what every property checker shares: the seeded PRNG, the
// result/evidence accumulator, violation + replay recording and the
// known-findings matcher.
package core

import (
	"crypto/sha256"
	"encoding/binary"
	"encoding/hex"
	"encoding/json"
	"fmt"
	"math/rand/v2"
	"os"
	"path/filepath"
	"strconv"
	"sync"
	"time"
)

// Dirs. Nothing a registered command needs lives under /tmp.
const VerifDir = "/verif"

// scratchBase is /verif for every registered command. The tooling that runs the checks against deliberately
// broken scratch copies of the repository in parallel (tools/seedmatrix.sh) sets VERIF_SCRATCH so that
// those runs keep their run directories, replays and evidence apart from the real ones.
var scratchBase = func() string {
	if d := os.Getenv("VERIF_SCRATCH"); d != "" {
		return d
	}
	return VerifDir
}()

// Run and replay directories.
var (
	ReplayDir = filepath.Join(scratchBase, "replays")
	RunDir    = filepath.Join(scratchBase, ".run")
)

// EvidenceDir is /verif/evidence; VERIF_EVIDENCE_DIR redirects it (used when the checks are run against a
// deliberately broken tree, so that committed evidence always describes the unchanged tree).
var EvidenceDir = func() string {
	if d := os.Getenv("VERIF_EVIDENCE_DIR"); d != "" {
		return d
	}
	return filepath.Join(scratchBase, "evidence")
}()

// Tier is quick or thorough.
type Tier string

// Tiers.
const (
	Quick    Tier = "quick"
	Thorough Tier = "thorough"
)

// Seed returns VERIF_SEED (default 1).
func Seed() int64 {
	s := os.Getenv("VERIF_SEED")
	if s == "" {
		return 1
	}
	v, err := strconv.ParseInt(s, 10, 64)
	if err != nil {
		return 1
	}
	return v
}

// RNG returns a PRNG stream fully determined by (VERIF_SEED, label).
func RNG(label string) *rand.Rand {
	h := sha256.Sum256([]byte(fmt.Sprintf("%d/%s", Seed(), label)))
	return rand.New(rand.NewPCG(binary.BigEndian.Uint64(h[:8]), binary.BigEndian.Uint64(h[8:16])))
}

// RandBytes fills a new slice of n bytes from r.
func RandBytes(r *rand.Rand, n int) []byte {
	b := make([]byte, n)
	for i := 0; i < n; {
		v := r.Uint64()
		for j := 0; j < 8 && i < n; j++ {
			b[i] = byte(v >> (8 * j))
			i++
		}
	}
	return b
}

// Violation is one refuting observation.
type Violation struct {
	Property  string `json:"property"`
	Signature string `json:"signature"` // stable class of the witness, matched against known findings
	Desc      string `json:"desc"`
	Replay    string `json:"replay"`
	Known     bool   `json:"known,omitempty"`
}

// Result accumulates what one check run observed. Safe for concurrent use.
type Result struct {
	mu sync.Mutex

	Property string
	Tier     Tier
	Level    string
	Rule     string

	Evaluations int64
	distinct    map[[16]byte]struct{}
	Samples     []any
	maxSamples  int
	Extra       map[string]any
	Counters    map[string]int64
	Assumptions []string
	Exhaustive  bool

	Violations   []Violation
	violationSig map[string]int
	Inconclusive []string

	started time.Time
}

// NewResult makes an empty result.
func NewResult(property string, tier Tier, level string) *Result {
	return &Result{
		Property:     property,
		Tier:         tier,
		Level:        level,
		distinct:     make(map[[16]byte]struct{}),
		maxSamples:   6,
		Extra:        make(map[string]any),
		Counters:     make(map[string]int64),
		violationSig: make(map[string]int),
		started:      time.Now(),
	}
}

// Case counts one executed case. key identifies the case for distinctness;
// nontrivial says whether it is non-trivial by the property's rule.
func (r *Result) Case(key string, nontrivial bool) {
	r.mu.Lock()
	defer r.mu.Unlock()
	r.Evaluations++
	if nontrivial {
		h := sha256.Sum256([]byte(key))
		var k [16]byte
		copy(k[:], h[:16])
		r.distinct[k] = struct{}{}
	}
}

// CaseN counts n executions that belong to one distinct case.
func (r *Result) CaseN(key string, nontrivial bool, n int64) {
	r.mu.Lock()
	defer r.mu.Unlock()
	r.Evaluations += n
	if nontrivial {
		h := sha256.Sum256([]byte(key))
		var k [16]byte
		copy(k[:], h[:16])
		r.distinct[k] = struct{}{}
	}
}

// Count adds n to a named counter reported in the evidence file.
func (r *Result) Count(name string, n int64) {
	r.mu.Lock()
	defer r.mu.Unlock()
	r.Counters[name] += n
}

// Counter returns the value of a named counter.
func (r *Result) Counter(name string) int64 {
	r.mu.Lock()
	defer r.mu.Unlock()
	return r.Counters[name]
}

// Sample records an example case (only the first few are kept).
func (r *Result) Sample(s any) {
	r.mu.Lock()
	defer r.mu.Unlock()
	if len(r.Samples) < r.maxSamples {
		r.Samples = append(r.Samples, s)
	}
}

// SetExtra sets an extra evidence key.
func (r *Result) SetExtra(k string, v any) {
	r.mu.Lock()
	defer r.mu.Unlock()
	r.Extra[k] = v
}

// Assume records an assumption.
func (r *Result) Assume(s string) {
	r.mu.Lock()
	defer r.mu.Unlock()
	r.Assumptions = append(r.Assumptions, s)
}

// Inconcl records a reason why the run is inconclusive.
func (r *Result) Inconcl(format string, args ...any) {
	r.mu.Lock()
	defer r.mu.Unlock()
	if len(r.Inconclusive) < 20 {
		r.Inconclusive = append(r.Inconclusive, fmt.Sprintf(format, args...))
	}
}

// Require records an inconclusive reason unless cond holds (minimum
// observation thresholds).
func (r *Result) Require(cond bool, format string, args ...any) {
	if !cond {
		r.Inconcl(format, args...)
	}
}

// maxViolationsPerSig bounds how many witnesses of one signature get a replay file.
const maxViolationsPerSig = 3

// Violate records a violation with a witness. signature is the stable class
// of the witness (matched against known findings), desc a human description,
// witness any JSON-serialisable replay data.
func (r *Result) Violate(signature, desc string, witness any) {
	r.mu.Lock()
	defer r.mu.Unlock()
	r.violationSig[signature]++
	if r.violationSig[signature] > maxViolationsPerSig {
		return
	}
	dir := filepath.Join(ReplayDir, r.Property)
	_ = os.MkdirAll(dir, 0o755)
	h := sha256.Sum256([]byte(signature + "|" + desc))
	name := fmt.Sprintf("%s-%s-%d-%s.json", r.Property, r.Tier, Seed(), hex.EncodeToString(h[:6]))
	path := filepath.Join(dir, name)
	data, err := json.MarshalIndent(map[string]any{
		"property":  r.Property,
		"tier":      r.Tier,
		"seed":      Seed(),
		"signature": signature,
		"desc":      desc,
		"witness":   witness,
	}, "", " ")
	if err != nil {
		data = []byte(fmt.Sprintf(`{"property":%q,"signature":%q,"desc":%q,"witness_marshal_error":%q}`, r.Property, signature, desc, err.Error()))
	}
	_ = os.WriteFile(path, data, 0o644)
	r.Violations = append(r.Violations, Violation{
		Property:  r.Property,
		Signature: signature,
		Desc:      desc,
		Replay:    path,
	})
}

// ViolationCount returns the total number of violating observations.
func (r *Result) ViolationCount() int {
	r.mu.Lock()
	defer r.mu.Unlock()
	n := 0
	for _, c := range r.violationSig {
		n += c
	}
	return n
}

// Distinct returns the number of distinct non-trivial cases.
func (r *Result) Distinct() int {
	r.mu.Lock()
	defer r.mu.Unlock()
	return len(r.distinct)
}

// Export is the serialisable form of a Result handed from worker to supervisor.
type Export struct {
	Property     string           `json:"property"`
	Tier         Tier             `json:"tier"`
	Level        string           `json:"level"`
	Rule         string           `json:"rule"`
	Evaluations  int64            `json:"evaluations"`
	Distinct     int              `json:"distinct"`
	Samples      []any            `json:"samples"`
	Extra        map[string]any   `json:"extra"`
	Counters     map[string]int64 `json:"counters"`
	Assumptions  []string         `json:"assumptions"`
	Exhaustive   bool             `json:"exhaustive"`
	Violations   []Violation      `json:"violations"`
	ViolationSig map[string]int   `json:"violation_sig"`
	Inconclusive []string         `json:"inconclusive"`
	WallS        float64          `json:"wall_s"`
}

// Export serialises the result.
func (r *Result) Export() *Export {
	r.mu.Lock()
	defer r.mu.Unlock()
	d := len(r.distinct)
	return &Export{
		Property: r.Property, Tier: r.Tier, Level: r.Level, Rule: r.Rule,
		Evaluations: r.Evaluations, Distinct: d, Samples: r.Samples, Extra: r.Extra,
		Counters: r.Counters, Assumptions: r.Assumptions, Exhaustive: r.Exhaustive,
		Violations: r.Violations, ViolationSig: r.violationSig, Inconclusive: r.Inconclusive,
		WallS: time.Since(r.started).Seconds(),
	}
}

// Merge merges b into a (distinct counts and counters added).
func (a *Export) Merge(b *Export) {
	a.Evaluations += b.Evaluations
	// The plain and the race part use disjoint case-key spaces (race keys are
	// prefixed by the workloads), so the distinct counts add up.
	a.Distinct += b.Distinct
	for _, s := range b.Samples {
		if len(a.Samples) < 8 {
			a.Samples = append(a.Samples, s)
		}
	}
	if a.Extra == nil {
		a.Extra = map[string]any{}
	}
	for k, v := range b.Extra {
		if _, ok := a.Extra[k]; !ok {
			a.Extra[k] = v
		} else {
			a.Extra[k+"#2"] = v
		}
	}
	if a.Counters == nil {
		a.Counters = map[string]int64{}
	}
	for k, v := range b.Counters {
		a.Counters[k] += v
	}
	a.Assumptions = append(a.Assumptions, b.Assumptions...)
	a.Exhaustive = a.Exhaustive && b.Exhaustive
	a.Violations = append(a.Violations, b.Violations...)
	if a.ViolationSig == nil {
		a.ViolationSig = map[string]int{}
	}
	for k, v := range b.ViolationSig {
		a.ViolationSig[k] += v
	}
	a.Inconclusive = append(a.Inconclusive, b.Inconclusive...)
	a.WallS += b.WallS
	if a.Rule == "" {
		a.Rule = b.Rule
	}
}

// Hash returns a short stable hash of s (for distinct keys and evidence).
func Hash(s string) string {
	h := sha256.Sum256([]byte(s))
	return hex.EncodeToString(h[:8])
}

// HashBytes returns a short stable hash of b.
func HashBytes(b []byte) string {
	h := sha256.Sum256(b)
	return hex.EncodeToString(h[:8])
}

// ---- stall monitor

// A few of the systems under test keep real-time timers (pending key setups expire after 30 s, error pings have
// cooldowns of seconds). The workloads never wait that long; but a process or VM that is frozen for seconds
// (observed on loaded sandboxes) makes those timers fire in the middle of a schedule that takes a millisecond.
// The monitor is a goroutine that sleeps 50 ms at a time and records every gap above 1.5 s; workloads whose
// verdict depends on "no timer fired meanwhile" ask StalledSince and discard (and count) the affected case.
var (
	stallMu    sync.Mutex
	stallTimes []time.Time
	stallOnce  sync.Once
)

// StartStallMonitor starts the monitor (idempotent).
func StartStallMonitor() {
	stallOnce.Do(func() {
		go func() {
			last := time.Now()
			for {
				time.Sleep(50 * time.Millisecond)
				now := time.Now()
				if now.Sub(last) > 1500*time.Millisecond {
					stallMu.Lock()
					stallTimes = append(stallTimes, now)
					stallMu.Unlock()
				}
				last = now
			}
		}()
	})
}

// StalledSince reports whether a stall was recorded after t.
func StalledSince(t time.Time) bool {
	StartStallMonitor()
	stallMu.Lock()
	defer stallMu.Unlock()
	for _, s := range stallTimes {
		if s.After(t) {
			return true
		}
	}
	return false
}

// StallCount returns the number of stalls recorded so far.
func StallCount() int {
	stallMu.Lock()
	defer stallMu.Unlock()
	return len(stallTimes)
}
