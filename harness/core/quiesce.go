//go:build verif

package core

import (
	"bytes"
	"fmt"
	"os"
	"runtime"
	"runtime/metrics"
	"strconv"
	"strings"
	"sync"
	"sync/atomic"
	"time"
)

// Structural quiescence of goroutines that belong to the code under test.
//
// The virtual engines call handlers of the real packages and then look at what came out. A tree that moves part
// of that work to goroutines of its own (a queue drained by a worker, forwarding handed to a pool) still satisfies
// the properties, but its effects appear a moment after the handler returned. Waiting a fixed time for them would
// turn machine load into verdicts. Instead the harness asks the Go runtime:
//
//   - GoroutinesCreated (a scheduler counter, cheap) tells whether any goroutine was created at all since the
//     last look;
//   - FromForeignGoroutine tells whether the caller runs on a goroutine whose entry function is not harness code
//     (a link's Send called by a worker of the code under test);
//   - ForeignIdle takes an atomic snapshot of all goroutines (runtime.Stack stops the world) and reports whether
//     every goroutine started by the code under test on behalf of the calling harness goroutine is blocked
//     (channel receive, select, I/O, condition, lock). A goroutine parked on a channel has nothing in that channel,
//     so "all blocked, harness queue empty" is quiescence, not a guess about time.
//
// Goroutines are attributed to the harness goroutine they descend from ("created by ... in goroutine N", followed
// through parents seen in any earlier snapshot); a goroutine whose ancestry is unknown counts for everybody.

const modPath = "github.com/mycoria/mycoria"

var (
	gcMu      sync.Mutex
	gcSample  = []metrics.Sample{{Name: "/sched/goroutines-created:goroutines"}}
	ancMu     sync.Mutex
	parentOf  = map[int64]int64{}
	harnessG  = map[int64]bool{}
	snapBuf   []byte
	entryMu   sync.RWMutex
	entryKind = map[uintptr]bool{} // entry pc -> foreign

	// SnapshotsTaken counts ForeignIdle snapshots (evidence).
	SnapshotsTaken atomic.Int64
	// SettleGaveUp counts waits that ended with foreign goroutines still busy.
	SettleGaveUp atomic.Int64
	// LastForeign describes the first goroutine of the code under test found by the latest snapshot that found any.
	LastForeign string
	// ForeignSeen counts snapshots in which goroutines of the code under test were found for the caller.
	ForeignSeen atomic.Int64
)

// GoroutinesCreated returns the number of goroutines created in this process so far.
func GoroutinesCreated() uint64 {
	gcMu.Lock()
	defer gcMu.Unlock()
	metrics.Read(gcSample)
	if gcSample[0].Value.Kind() != metrics.KindUint64 {
		return 0
	}
	return gcSample[0].Value.Uint64()
}

// FromForeignGoroutine reports whether the calling goroutine was started by the code under test (its entry
// function is neither harness code nor the program's main/test entry).
func FromForeignGoroutine() bool {
	var pcs [96]uintptr
	n := runtime.Callers(1, pcs[:])
	if n < 2 || n == len(pcs) {
		return false
	}
	// pcs[n-1] is runtime.goexit, pcs[n-2] the goroutine's entry function
	pc := pcs[n-2]
	entryMu.RLock()
	k, ok := entryKind[pc]
	entryMu.RUnlock()
	if ok {
		return k
	}
	name := ""
	if fn := runtime.FuncForPC(pc - 1); fn != nil {
		name = fn.Name()
	}
	k = strings.HasPrefix(name, modPath)
	entryMu.Lock()
	entryKind[pc] = k
	entryMu.Unlock()
	return k
}

// GoID returns the id of the calling goroutine.
func GoID() int64 {
	var b [64]byte
	n := runtime.Stack(b[:], false)
	return parseGoID(b[:n])
}

func parseGoID(h []byte) int64 {
	h = bytes.TrimPrefix(h, []byte("goroutine "))
	i := bytes.IndexByte(h, ' ')
	if i < 0 {
		return 0
	}
	id, _ := strconv.ParseInt(string(h[:i]), 10, 64)
	return id
}

// ForeignIdle takes one snapshot. idle: no goroutine of the code under test that descends from goroutine self (or
// whose ancestry is unknown) is running, runnable, in a system call or sleeping. present: goroutines that are known
// to descend from self exist.
func ForeignIdle(self int64) (idle, present bool) {
	ancMu.Lock()
	defer ancMu.Unlock()
	if snapBuf == nil {
		snapBuf = make([]byte, 1<<20)
	}
	var n int
	for {
		n = runtime.Stack(snapBuf, true)
		if n < len(snapBuf) {
			break
		}
		snapBuf = make([]byte, 2*len(snapBuf))
	}
	SnapshotsTaken.Add(1)
	type fg struct {
		id   int64
		busy bool
		what string
	}
	var foreign []fg
	for _, blk := range bytes.Split(snapBuf[:n], []byte("\n\n")) {
		if !bytes.HasPrefix(blk, []byte("goroutine ")) {
			continue
		}
		id := parseGoID(blk)
		if id == 0 {
			continue
		}
		if i := bytes.LastIndex(blk, []byte(" in goroutine ")); i >= 0 {
			rest := blk[i+len(" in goroutine "):]
			if j := bytes.IndexAny(rest, "\n "); j >= 0 {
				rest = rest[:j]
			}
			if p, err := strconv.ParseInt(string(rest), 10, 64); err == nil {
				parentOf[id] = p
			}
		}
		// the goroutine's entry function is the last function before "created by" (the main goroutine has none)
		body, created := blk, []byte(nil)
		if i := bytes.LastIndex(blk, []byte("\ncreated by ")); i >= 0 {
			body, created = blk[:i], blk[i+len("\ncreated by "):]
		}
		entry := []byte(nil)
		if lines := bytes.Split(body, []byte("\n")); len(lines) >= 3 {
			entry = lines[len(lines)-2]
		}
		switch {
		case bytes.HasPrefix(entry, []byte("verifharness/")), bytes.HasPrefix(entry, []byte("main.")), bytes.HasPrefix(entry, []byte("testing.")):
			harnessG[id] = true
			continue
		case bytes.HasPrefix(entry, []byte(modPath)), bytes.HasPrefix(created, []byte(modPath)):
		default:
			continue
		}
		state := ""
		if a := bytes.IndexByte(blk, '['); a >= 0 {
			if b := bytes.IndexAny(blk[a:], ",]"); b >= 0 {
				state = string(blk[a+1 : a+b])
			}
		}
		busy := state == "running" || state == "runnable" || state == "syscall" || state == "sleep"
		foreign = append(foreign, fg{id, busy, state + " " + string(entry) + " created by " + string(bytes.SplitN(created, []byte("\n"), 2)[0])})
	}
	idle = true
	for _, g := range foreign {
		root, cur := int64(0), g.id
		for hops := 0; hops < 64; hops++ {
			p, ok := parentOf[cur]
			if !ok {
				break
			}
			if harnessG[p] {
				root = p
				break
			}
			cur = p
		}
		if root != 0 && root != self {
			continue // works for another harness goroutine
		}
		if root == self {
			// only goroutines known to descend from the caller make the tree "asynchronous for this driver";
			// one of unknown ancestry (its creator ended before any snapshot) is waited for, nothing more
			if !present {
				LastForeign = g.what
			}
			present = true
		}
		if g.busy {
			if idle {
				LastBusy = g.what
			}
			idle = false
		}
	}
	if present {
		ForeignSeen.Add(1)
	}
	return idle, present
}

// WaitForeignIdle waits (bounded) until a snapshot shows the caller's foreign goroutines idle. It returns whether
// any were present in the last snapshot.
func WaitForeignIdle() (present bool) {
	self := GoID()
	for round := 0; round < 400; round++ {
		idle, pres := ForeignIdle(self)
		if idle {
			return pres
		}
		runtime.Gosched()
		if round > 2 {
			time.Sleep(time.Duration(50*min(round, 20)) * time.Microsecond)
		}
	}
	SettleGaveUp.Add(1)
	return true
}

// AsyncTree is set once goroutines of the code under test were seen working for a harness driver: the tree under
// test moves work out of its handlers. It is sticky for the process.
var AsyncTree atomic.Bool

// SerialRerunExit is the exit status by which a worker process asks its supervisor to be run again with one
// driver at a time (VERIF_SERIAL=1).
const SerialRerunExit = 97

var quietAudit = os.Getenv("VERIF_QUIET_AUDIT") == "1"

// QuietAuditDisagreements counts (audit mode only) verdicts of SchedQuiet that a snapshot contradicted.
var QuietAuditDisagreements atomic.Int64

// LastBusy describes the first busy goroutine of the latest snapshot that found one.
var LastBusy string

var serialMode = os.Getenv("VERIF_SERIAL") == "1"

// Serial reports whether this worker process runs its drivers one at a time.
func Serial() bool { return serialMode }

// NoteAsync records that the tree under test works asynchronously. Exact quiescence after every single delivery is
// affordable only when one driver runs at a time (the scheduler's own counters then tell whether anything but the
// driver is runnable), so a process that runs its drivers in parallel ends here and is started again in serial
// mode by the supervisor. Nothing was decided yet on such a tree: verdicts come from the second run.
func NoteAsync(why string) {
	if AsyncTree.CompareAndSwap(false, true) && !serialMode && os.Getenv("VERIF_NO_SERIAL_RERUN") == "" {
		fmt.Fprintln(os.Stderr, "verif: goroutines of the code under test work for the drivers ("+why+": "+LastForeign+"); asking for a serial run")
		os.Exit(SerialRerunExit)
	}
}

// Parallel runs fn(0..n-1), concurrently unless the process is in serial mode.
func Parallel(n int, fn func(w int)) {
	var wg sync.WaitGroup
	for w := 0; w < n; w++ {
		wg.Add(1)
		go func(w int) { defer wg.Done(); fn(w) }(w)
		if serialMode {
			wg.Wait()
		}
	}
	wg.Wait()
}

var (
	schedMu      sync.Mutex
	schedSamples = []metrics.Sample{
		{Name: "/sched/goroutines/running:goroutines"},
		{Name: "/sched/goroutines/runnable:goroutines"},
		{Name: "/sched/goroutines/not-in-go:goroutines"},
	}
)

// SchedQuiet reports whether, by the scheduler's own counters, the caller is the only goroutine of the process
// that is running, runnable or in a system call. With one driver at a time that is quiescence of everything the
// code under test started (timers aside). The counters are read without stopping the world; a reading taken while
// something moves between run queues shows a spinning processor as running, i.e. errs towards "not quiet".
func SchedQuiet() bool {
	schedMu.Lock()
	defer schedMu.Unlock()
	metrics.Read(schedSamples)
	for i, s := range schedSamples {
		if s.Value.Kind() != metrics.KindUint64 {
			return false
		}
		v := s.Value.Uint64()
		if i == 0 && v > 1 || i > 0 && v > 0 {
			return false
		}
	}
	return true
}

// WaitQuiet waits until the process is quiet by SchedQuiet (twice in a row); if that does not happen soon (other
// harness goroutines run by design, the collector works), a snapshot decides.
func WaitQuiet() {
	quiet := 0
	for round := 0; round < 400; round++ {
		if SchedQuiet() {
			quiet++
			if quiet == 2 {
				// the counters are approximate while goroutines change state: give a goroutine that was just made
				// runnable the processor once, then ask a third time
				runtime.Gosched()
				continue
			}
			if quiet >= 3 {
				if quietAudit {
					if idle, _ := ForeignIdle(GoID()); !idle {
						QuietAuditDisagreements.Add(1)
						fmt.Fprintln(os.Stderr, "verif: quiet by the scheduler's counters, busy in the snapshot:", LastBusy)
					}
				}
				return
			}
			continue
		}
		quiet = 0
		runtime.Gosched()
		if round > 50 {
			time.Sleep(20 * time.Microsecond)
		}
	}
	WaitForeignIdle()
}

// ---- helper goroutines that are not created per use

// The settling logic treats "a goroutine was created somewhere in the process" as the cheap trigger for an
// expensive look (snapshot). Workloads that need a second harness goroutine per case (a delivery racing a local
// call) would fire that trigger thousands of times; they borrow one of a fixed set of helpers instead.
var (
	helperOnce sync.Once
	helperJobs chan func()
)

// OnHelper runs fn on one of a fixed set of long-lived harness goroutines and returns a channel that is closed
// when fn has returned.
func OnHelper(fn func()) <-chan struct{} {
	helperOnce.Do(func() {
		helperJobs = make(chan func())
		for i := 0; i < 96; i++ {
			go func() {
				for j := range helperJobs {
					j()
				}
			}()
		}
	})
	done := make(chan struct{})
	helperJobs <- func() { defer close(done); fn() }
	return done
}
