package core

// Child processes (engine E4) are entry points inside the same binary.
var children = map[string]func(args []string) int{}

// RegisterChild registers a child entry point.
func RegisterChild(name string, fn func(args []string) int) { children[name] = fn }

// LookupChild finds a child entry point.
func LookupChild(name string) func(args []string) int { return children[name] }
