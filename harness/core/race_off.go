//go:build !race

package core

// RaceEnabled reports whether this binary was built with -race.
const RaceEnabled = false
