// vcheck is the single verification binary: supervisor (run) and worker.
package main

import (
	"fmt"
	"io"
	"log/slog"
	"os"

	"verifharness/core"
	_ "verifharness/props"
)

func main() {
	// Silence the code under test (must happen before any module is created).
	if os.Getenv("VERIF_SLOG") != "" {
		slog.SetDefault(slog.New(slog.NewTextHandler(os.Stderr, &slog.HandlerOptions{Level: slog.LevelDebug})))
	} else {
		slog.SetDefault(slog.New(slog.NewTextHandler(io.Discard, &slog.HandlerOptions{Level: slog.LevelError + 100})))
	}

	if len(os.Args) < 2 {
		usage()
	}
	switch os.Args[1] {
	case "run":
		// vcheck run <ID> <tier> <plainBin> <raceBin|-> [onlyCase]
		if len(os.Args) < 6 {
			usage()
		}
		race := os.Args[5]
		if race == "-" {
			race = ""
		}
		only := ""
		if len(os.Args) > 6 {
			only = os.Args[6]
		}
		os.Exit(core.SupervisorMain(os.Args[2], core.Tier(os.Args[3]), os.Args[4], race, only))
	case "worker":
		// vcheck worker <ID> <tier> <out> [onlyCase]
		if len(os.Args) < 5 {
			usage()
		}
		only := ""
		if len(os.Args) > 5 {
			only = os.Args[5]
		}
		os.Exit(core.WorkerMain(os.Args[2], core.Tier(os.Args[3]), core.RaceEnabled, os.Args[4], only))
	case "child":
		// vcheck child <name> args...   (helper child processes of E4 checks)
		if len(os.Args) < 3 {
			usage()
		}
		fn := core.LookupChild(os.Args[2])
		if fn == nil {
			fmt.Fprintf(os.Stderr, "unknown child %s\n", os.Args[2])
			os.Exit(3)
		}
		os.Exit(fn(os.Args[3:]))
	case "list":
		for _, id := range core.IDs() {
			p := core.Lookup(id)
			fmt.Printf("%s race=%v\n", id, p.HasRacePart)
		}
	case "hasrace":
		p := core.Lookup(os.Args[2])
		if p != nil && p.HasRacePart {
			os.Exit(0)
		}
		os.Exit(1)
	default:
		usage()
	}
}

func usage() {
	fmt.Fprintln(os.Stderr, "usage: vcheck run|worker|child|list ...")
	os.Exit(3)
}
