// Package vmesh is engine E1: a deterministic virtual mesh of real
// router/switch/state/peering objects, wired by harness-implemented links.
// Every frame a router hands to a link is copied into a network multiset;
// the harness decides which frame is delivered next.
package vmesh

import (
	"errors"
	"fmt"
	"math/rand/v2"
	"net"
	"net/netip"
	"sync"
	"sync/atomic"
	"time"

	"github.com/mycoria/mycoria/config"
	"github.com/mycoria/mycoria/frame"
	"github.com/mycoria/mycoria/m"
	"github.com/mycoria/mycoria/mgr"
	"github.com/mycoria/mycoria/peering"
	"github.com/mycoria/mycoria/router"
	"github.com/mycoria/mycoria/switchr"
	"github.com/mycoria/mycoria/tun"

	"verifharness/core"
	"verifharness/env"
)

// Packet is one frame in flight on a virtual link.
type Packet struct {
	ID       int
	From, To int // node indices
	Data     []byte
	Priority bool
	Hops     int // how many links this frame identity crossed before (filled by the mesh)
}

// Key identifies a frame across hops: type, nonce, sequence/time, src, dst.
func Key(data []byte) string {
	if len(data) < 48 {
		return string(data)
	}
	return string(data[4:48])
}

// EventKind classifies log entries.
type EventKind int

// Event kinds.
const (
	EvSend EventKind = iota
	EvDeliver
	EvSwitchErr
	EvRouterErr
	EvPanic
	EvEscalated
	EvParseErr
)

// Event is one entry of the totally ordered mesh log.
type Event struct {
	Kind   EventKind
	Node   int
	Packet *Packet
	Err    error
}

// VLink is a harness-implemented peering.Link.
type VLink struct {
	mesh     *Mesh
	from, to *Node
	label    m.SwitchLabel
	lite     bool
	latency  uint16
	closing  bool
	started  time.Time
	// Drop, if set, decides per frame whether the link silently loses it.
	Drop func(data []byte) bool
}

var _ peering.Link = &VLink{}

func (l *VLink) String() string             { return fmt.Sprintf("vlink %d->%d", l.from.Idx, l.to.Idx) }
func (l *VLink) Peer() netip.Addr           { return l.to.ID.IP }
func (l *VLink) SwitchLabel() m.SwitchLabel { return l.label }
func (l *VLink) GeoMark() string            { return "" }
func (l *VLink) PeeringURL() *m.PeeringURL  { return nil }
func (l *VLink) Outgoing() bool             { return l.from.Idx < l.to.Idx }
func (l *VLink) Lite() bool                 { return l.lite }
func (l *VLink) LocalAddr() net.Addr {
	return &net.TCPAddr{IP: net.IPv4(127, 0, 0, 1), Port: 1000 + l.from.Idx}
}
func (l *VLink) RemoteAddr() net.Addr {
	return &net.TCPAddr{IP: net.IPv4(127, 0, 0, 1), Port: 1000 + l.to.Idx}
}
func (l *VLink) Started() time.Time               { return l.started }
func (l *VLink) Uptime() time.Duration            { return time.Since(l.started) }
func (l *VLink) Latency() uint16                  { return l.latency }
func (l *VLink) AddMeasuredLatency(time.Duration) {}
func (l *VLink) BytesIn() uint64                  { return 0 }
func (l *VLink) BytesOut() uint64                 { return 0 }
func (l *VLink) FlowControlIndicator() frame.FlowControlFlag {
	return frame.FlowControlFlagIncreaseFlow
}
func (l *VLink) IsClosing() bool { return l.closing }

// FromIdx and ToIdx return the node indices of the link's ends.
func (l *VLink) FromIdx() int { return l.from.Idx }

// ToIdx returns the node index of the far end.
func (l *VLink) ToIdx() int { return l.to.Idx }

// Close marks the link closing and unregisters it, like LinkBase.Close.
func (l *VLink) Close(log func()) {
	if l.closing {
		return
	}
	l.closing = true
	l.from.Inst.PeeringV.RemoveLink(l)
}

// SendPriority copies the frame to the network and releases it, like the link writer.
func (l *VLink) SendPriority(f frame.Frame) error { return l.send(f, true) }

// Send copies the frame to the network and releases it, like the link writer.
func (l *VLink) Send(f frame.Frame) error { return l.send(f, false) }

func (l *VLink) send(f frame.Frame, prio bool) error {
	if l.closing {
		// a closed link goes nowhere (the real link's queue is no longer served): the frame is lost
		l.mesh.mu.Lock()
		l.mesh.SentOnClosedLink++
		l.mesh.mu.Unlock()
		f.ReturnToPool()
		return nil
	}
	data, err := f.FrameDataWithMargins(0, 0)
	if err != nil {
		return err
	}
	// The real writer needs the link margins; a frame without them is lost there.
	if _, merr := f.FrameDataWithMargins(peering.FrameOffset, peering.FrameOverhead); merr != nil {
		l.mesh.mu.Lock()
		l.mesh.LostForMargins++
		l.mesh.mu.Unlock()
		f.ReturnToPool()
		return nil
	}
	cp := append([]byte(nil), data...)
	f.ReturnToPool()
	if !l.mesh.async.Load() && !l.mesh.live.Load() && core.FromForeignGoroutine() {
		l.mesh.setAsync("a link's Send called from a goroutine started by the code under test") // the code under test sends from a goroutine of its own
	}
	if l.Drop != nil && l.Drop(cp) {
		return nil
	}
	if l.mesh.OnLinkSend != nil {
		l.mesh.OnLinkSend(l, cp)
	}
	l.mesh.enqueue(&Packet{From: l.from.Idx, To: l.to.Idx, Data: cp, Priority: prio})
	return nil
}

// Node is one virtual router.
type Node struct {
	Idx      int
	ID       *m.Address
	Inst     *env.Instance
	Upstream chan frame.Frame
	Links    map[int]*VLink // by neighbour index
	Tun      *tun.Device
}

// Mesh is the virtual network.
type Mesh struct {
	mu       sync.Mutex
	Nodes    []*Node
	InFlight []*Packet
	Log      []Event
	nextID   int
	seenHops map[string]int
	// Observers.
	OnSend    func(p *Packet)
	OnHandled func(node int, p *Packet, switchErr, routerErr, panicErr error)
	// OnForward is called when a node, while handling packet `in`, sends a packet
	// with the same frame identity (a forwarding step).
	OnForward func(node int, in, out *Packet)
	current   *Packet
	// OnEscalate is called for every frame a node's switch hands to its router
	// (data = the frame as the router sees it).
	OnEscalate func(node int, data []byte)
	// OnLinkSend is called from inside a link's Send, i.e. on the goroutine and at the point of the router code
	// that is sending (e.g. between two iterations of a forwarding loop): what a concurrent worker of the same
	// router could do at that moment, the callback may do here.
	OnLinkSend func(l *VLink, data []byte)
	// Counters.
	Panics         []error
	LostForMargins int
	// SentOnClosedLink counts frames handed to a link object after it was closed.
	SentOnClosedLink int
	// settling state (see Settle)
	async       atomic.Bool   // goroutines of the code under test work for this mesh (seen in a snapshot or sending)
	live        atomic.Bool   // the harness itself started worker pools of this mesh (StartSwitches)
	driver      int64         // goroutine that created the mesh
	lastCreated atomic.Uint64 // process-wide goroutine creation counter at the last Settle
	KeepLog     bool
}

// New creates an empty mesh.
func New() *Mesh {
	ms := &Mesh{seenHops: map[string]int{}}
	// goroutines created before this mesh existed cannot work for it: the first Settle looks only if any was
	// created since now (without this every new mesh paid for one snapshot of the whole process)
	ms.lastCreated.Store(core.GoroutinesCreated())
	if core.AsyncTree.Load() {
		// The tree under test keeps workers of its own per router: end those of the mesh this driver used before
		// (their managers are cancelled), or they pile up over thousands of meshes.
		ms.driver = core.GoID()
		ms.async.Store(true)
		lastMeshMu.Lock()
		prev := lastMesh[ms.driver]
		lastMesh[ms.driver] = ms
		lastMeshMu.Unlock()
		if prev != nil {
			prev.retire()
		}
	}
	return ms
}

var (
	lastMeshMu sync.Mutex
	lastMesh   = map[int64]*Mesh{}
)

func (ms *Mesh) retire() {
	for _, n := range ms.Nodes {
		if n.Inst == nil {
			continue
		}
		if n.Inst.RouterV != nil {
			n.Inst.RouterV.Manager().Cancel()
		}
		if n.Inst.SwitchV != nil {
			n.Inst.SwitchV.Manager().Cancel()
		}
		if n.Inst.PeeringV != nil {
			n.Inst.PeeringV.Manager().Cancel()
		}
		if n.Inst.StateV != nil {
			n.Inst.StateV.Manager().Cancel()
		}
	}
}

func (ms *Mesh) setAsync(why string) {
	ms.async.Store(true)
	core.NoteAsync(why)
}

// NodeOpts configures a node.
type NodeOpts struct {
	Config  *config.Config
	FakeTun bool
}

// AddNode creates a router with the given identity.
func (ms *Mesh) AddNode(id *m.Address, opts NodeOpts) (*Node, error) {
	cfg := opts.Config
	if cfg == nil {
		cfg = config.MakeTestConfig(config.Store{System: config.System{DisableTun: !opts.FakeTun}})
	}
	in := env.NewBareInstance(id, cfg)
	n := &Node{Idx: len(ms.Nodes), ID: id, Inst: in, Links: map[int]*VLink{}}
	if opts.FakeTun {
		n.Tun = &tun.Device{
			RecvRaw:   make(chan []byte, 4096),
			SendRaw:   make(chan []byte, 4096),
			SendFrame: make(chan frame.Frame, 4096),
		}
		in.TunV = n.Tun
	}
	r, err := router.New(in, router.Config{})
	if err != nil {
		return nil, err
	}
	in.RouterV = r
	n.Upstream = make(chan frame.Frame, 4096)
	in.SwitchV = switchr.New(in, n.Upstream)
	in.PeeringV = peering.New(in, in.SwitchV.Input())
	ms.Nodes = append(ms.Nodes, n)
	return n, nil
}

// Connect registers a bidirectional virtual link between nodes i and j.
func (ms *Mesh) Connect(i, j int, labelIJ, labelJI m.SwitchLabel) error {
	a, b := ms.Nodes[i], ms.Nodes[j]
	la := &VLink{mesh: ms, from: a, to: b, label: labelIJ, latency: 5, started: time.Now()}
	lb := &VLink{mesh: ms, from: b, to: a, label: labelJI, latency: 5, started: time.Now()}
	if err := a.Inst.PeeringV.AddLink(la); err != nil {
		return err
	}
	if err := b.Inst.PeeringV.AddLink(lb); err != nil {
		return err
	}
	a.Links[j] = la
	b.Links[i] = lb
	return nil
}

// SetLatency changes the measured latency both ends report for the link i-j (hop records carry it as delay).
func (ms *Mesh) SetLatency(i, j int, latIJ, latJI uint16) {
	if l := ms.Nodes[i].Links[j]; l != nil {
		l.latency = latIJ
	}
	if l := ms.Nodes[j].Links[i]; l != nil {
		l.latency = latJI
	}
}

// Disconnect closes the virtual link i-j at both ends (what Link.Close does: unregister, remove routes via it).
func (ms *Mesh) Disconnect(i, j int) {
	if l := ms.Nodes[i].Links[j]; l != nil {
		l.Close(nil)
		delete(ms.Nodes[i].Links, j)
	}
	if l := ms.Nodes[j].Links[i]; l != nil {
		l.Close(nil)
		delete(ms.Nodes[j].Links, i)
	}
}

// Introduce stores b's public identity at a (as a previous contact would have).
func (ms *Mesh) Introduce(a, b int) error {
	pb := ms.Nodes[b].ID.PublicAddress
	return ms.Nodes[a].Inst.StateV.AddRouter(&pb)
}

func (ms *Mesh) enqueue(p *Packet) {
	ms.mu.Lock()
	defer ms.mu.Unlock()
	ms.nextID++
	p.ID = ms.nextID
	k := Key(p.Data)
	p.Hops = ms.seenHops[k]
	ms.seenHops[k]++
	ms.InFlight = append(ms.InFlight, p)
	if ms.KeepLog {
		ms.Log = append(ms.Log, Event{Kind: EvSend, Node: p.From, Packet: p})
	}
	if ms.OnForward != nil && ms.current != nil && Key(ms.current.Data) == k && ms.current.To == p.From {
		ms.OnForward(p.From, ms.current, p)
	}
	if ms.OnSend != nil {
		ms.OnSend(p)
	}
}

// Inject puts a harness-made frame on the link from -> to.
func (ms *Mesh) Inject(from, to int, data []byte) *Packet {
	p := &Packet{From: from, To: to, Data: append([]byte(nil), data...)}
	ms.enqueue(p)
	return p
}

// Take removes and returns the in-flight packet at index i.
func (ms *Mesh) Take(i int) *Packet {
	ms.mu.Lock()
	defer ms.mu.Unlock()
	p := ms.InFlight[i]
	ms.InFlight = append(ms.InFlight[:i], ms.InFlight[i+1:]...)
	return p
}

// TakeByKey removes and returns the first in-flight packet with the given content key (nil if there is none).
func (ms *Mesh) TakeByKey(key string) *Packet {
	ms.mu.Lock()
	defer ms.mu.Unlock()
	for i, q := range ms.InFlight {
		if Key(q.Data) == key {
			ms.InFlight = append(ms.InFlight[:i], ms.InFlight[i+1:]...)
			return q
		}
	}
	return nil
}

// Pending returns the number of frames in flight.
func (ms *Mesh) Pending() int {
	ms.mu.Lock()
	defer ms.mu.Unlock()
	return len(ms.InFlight)
}

// ErrNoLink is returned when a packet arrives on a link the receiver does not have.
var ErrNoLink = errors.New("receiver has no link to sender")

// Result of one delivery.
type Result struct {
	ParseErr  error
	SwitchErr error
	RouterErr []error
	PanicErr  error
	Escalated int
}

// Deliver hands the packet to the receiving node: parse, switch, then router
// for everything the switch escalated.
func (ms *Mesh) Deliver(p *Packet) Result {
	return ms.DeliverOn(p, p.To, p.From)
}

// DeliverOn delivers the packet to node `to` as if received on its link to `via`.
func (ms *Mesh) DeliverOn(p *Packet, to, via int) Result {
	var res Result
	n := ms.Nodes[to]
	if n.Inst == nil {
		return res // a stub swallows what it is sent
	}
	link := n.Links[via]
	b := n.Inst.BuilderV
	off := peering.FrameOffset
	ps := b.GetPooledSlice(off + len(p.Data) + peering.FrameOverhead)
	if ps == nil {
		res.ParseErr = errors.New("frame too big for any pooled slice")
		return res
	}
	copy(ps[off:], p.Data)
	f, err := b.ParseFrame(ps[off:off+len(p.Data)], ps, off)
	if err != nil {
		b.ReturnPooledSlice(ps)
		res.ParseErr = err
		ms.logEvent(Event{Kind: EvParseErr, Node: to, Packet: p, Err: err})
		return res
	}
	if link != nil {
		f.SetRecvLink(link)
	}
	ms.mu.Lock()
	ms.current = p
	ms.mu.Unlock()
	defer func() {
		ms.mu.Lock()
		ms.current = nil
		ms.mu.Unlock()
	}()
	herr, perr := n.Inst.SwitchV.VerifHandleFrame(f)
	res.SwitchErr = herr
	if perr != nil {
		res.PanicErr = perr
		ms.notePanic(to, p, perr)
	}
	ms.drainUpstream(n, p, &res)
	// What the handler handed to goroutines of its own belongs to this delivery: wait for it (cheap when no
	// goroutine was created), then look at the router's input once more.
	for again := 0; again < 4; again++ {
		ms.Settle()
		if len(n.Upstream) == 0 {
			break
		}
		ms.drainUpstream(n, p, &res)
	}
	if ms.OnHandled != nil {
		var rerr error
		if len(res.RouterErr) > 0 {
			rerr = res.RouterErr[0]
		}
		ms.OnHandled(to, p, res.SwitchErr, rerr, res.PanicErr)
	}
	return res
}

func (ms *Mesh) drainUpstream(n *Node, p *Packet, res *Result) {
	for {
		select {
		case f := <-n.Upstream:
			res.Escalated++
			if ms.OnEscalate != nil {
				if d, err := f.FrameDataWithMargins(0, 0); err == nil {
					ms.OnEscalate(n.Idx, append([]byte(nil), d...))
				}
			}
			herr, perr := n.Inst.RouterV.VerifHandleFrame(f)
			if herr != nil {
				res.RouterErr = append(res.RouterErr, herr)
			}
			if perr != nil {
				res.PanicErr = perr
				ms.notePanic(n.Idx, p, perr)
			}
		default:
			return
		}
	}
}

// HandleAtRouter feeds a frame directly to a node's router (as the switch would escalate it).
func (ms *Mesh) HandleAtRouter(to, via int, data []byte) (handleErr, panicErr error) {
	n := ms.Nodes[to]
	b := n.Inst.BuilderV
	off := peering.FrameOffset
	ps := b.GetPooledSlice(off + len(data) + peering.FrameOverhead)
	if ps == nil {
		return errors.New("too big"), nil
	}
	copy(ps[off:], data)
	f, err := b.ParseFrame(ps[off:off+len(data)], ps, off)
	if err != nil {
		b.ReturnPooledSlice(ps)
		return err, nil
	}
	if l := n.Links[via]; l != nil {
		f.SetRecvLink(l)
	}
	herr, perr := n.Inst.RouterV.VerifHandleFrame(f)
	if perr != nil {
		ms.notePanic(to, nil, perr)
	}
	return herr, perr
}

func (ms *Mesh) notePanic(node int, p *Packet, err error) {
	ms.mu.Lock()
	defer ms.mu.Unlock()
	ms.Panics = append(ms.Panics, fmt.Errorf("node %d: %w", node, err))
	if ms.KeepLog {
		ms.Log = append(ms.Log, Event{Kind: EvPanic, Node: node, Packet: p, Err: err})
	}
}

func (ms *Mesh) logEvent(e Event) {
	if !ms.KeepLog {
		return
	}
	ms.mu.Lock()
	defer ms.mu.Unlock()
	ms.Log = append(ms.Log, e)
}

// Policy picks the index of the next in-flight packet to deliver.
type Policy func(inflight []*Packet) int

// FIFO delivers in send order.
func FIFO(_ []*Packet) int { return 0 }

// RandomOrder delivers a uniformly chosen in-flight packet.
func RandomOrder(r *rand.Rand) Policy {
	return func(q []*Packet) int { return r.IntN(len(q)) }
}

// Drain delivers until the network is empty or maxSteps deliveries were made.
// It returns the number of deliveries and whether the network drained.
func (ms *Mesh) Drain(pol Policy, maxSteps int) (steps int, drained bool) {
	for steps < maxSteps {
		ms.mu.Lock()
		n := len(ms.InFlight)
		var idx int
		if n > 0 {
			idx = pol(ms.InFlight)
		}
		ms.mu.Unlock()
		if n == 0 {
			// nothing in flight: before calling that quiescence, let work that a handler handed to a goroutine of
			// its own finish (see Settle) and look again
			ms.Settle()
			if ms.Pending() == 0 {
				return steps, true
			}
			continue
		}
		p := ms.Take(idx)
		ms.Deliver(p)
		steps++
	}
	ms.Settle()
	return steps, ms.Pending() == 0
}

// MgrErrIsPanic reports whether err is a recovered worker panic.
func MgrErrIsPanic(err error) bool { return err != nil && errors.Is(err, mgr.ErrWorkerPanic) }

// Safely runs fn and returns the recovered panic value, if any (for calls the
// harness makes into the code under test outside a worker).
func Safely(fn func()) (panicVal any) {
	defer func() { panicVal = recover() }()
	fn()
	return nil
}

// Converge lets every router announce itself and drains the network (FIFO or
// seeded random order). It returns an error if announcing fails or panics or
// the network does not drain.
func (ms *Mesh) Converge(r *rand.Rand, random bool) error {
	var annErr error
	if pv := Safely(func() { annErr = ms.AnnounceAll() }); pv != nil {
		return fmt.Errorf("announce panicked: %v", pv)
	}
	if annErr != nil {
		return annErr
	}
	pol := Policy(FIFO)
	if random {
		pol = RandomOrder(r)
	}
	if _, drained := ms.Drain(pol, 500000); !drained {
		return errors.New("network did not drain")
	}
	return nil
}

// AddStub adds a node that only has an identity (no router): a place-holder
// for the far end of a link whose traffic the harness produces itself.
func (ms *Mesh) AddStub(id *m.Address) *Node {
	n := &Node{Idx: len(ms.Nodes), ID: id, Links: map[int]*VLink{}}
	ms.Nodes = append(ms.Nodes, n)
	return n
}

// ConnectOneWay registers at node i a link to node j (which may be a stub).
func (ms *Mesh) ConnectOneWay(i, j int, label m.SwitchLabel) error {
	a, b := ms.Nodes[i], ms.Nodes[j]
	la := &VLink{mesh: ms, from: a, to: b, label: label, latency: 5, started: time.Now()}
	if err := a.Inst.PeeringV.AddLink(la); err != nil {
		return err
	}
	a.Links[j] = la
	return nil
}

// ---- live switches: the real worker pool of the switch instead of the synchronous hook.

// StartSwitches starts the real switch workers (Switch.Start) of every router node. Frames are then fed through
// the switch's real input channel with DeliverLive, so that whatever the worker loop itself does with a frame
// (not only handleFrame, which the synchronous hook calls) is part of the execution.
func (ms *Mesh) StartSwitches() error {
	for _, n := range ms.Nodes {
		if n.Inst == nil || n.Inst.SwitchV == nil {
			continue
		}
		if err := n.Inst.SwitchV.Start(); err != nil {
			return err
		}
	}
	ms.live.Store(true)
	return nil
}

// StopSwitches cancels the switch workers started by StartSwitches.
func (ms *Mesh) StopSwitches() {
	for _, n := range ms.Nodes {
		if n.Inst != nil && n.Inst.SwitchV != nil {
			n.Inst.SwitchV.Manager().Cancel()
		}
	}
	ms.live.Store(false)
}

// LiveOutcome is what became of one frame handed to a live switch.
type LiveOutcome struct {
	Forwarded *Packet // the frame left the node on a link (taken out of the in-flight list)
	Escalated []byte  // the frame as the switch handed it to the router
	ParseErr  error
	Lost      bool // neither within the watchdog time (dropped with an error, or stuck)
}

// DeliverLive parses the packet at its receiver, hands it to the receiver's running switch workers through the
// real input channel and waits until the frame shows up again: on one of the node's links or on the channel to
// the router. The wait is a watchdog (10 s for a handling that takes microseconds), not a verdict.
func (ms *Mesh) DeliverLive(p *Packet) LiveOutcome {
	var out LiveOutcome
	n := ms.Nodes[p.To]
	b := n.Inst.BuilderV
	off := peering.FrameOffset
	ps := b.GetPooledSlice(off + len(p.Data) + peering.FrameOverhead)
	if ps == nil {
		out.ParseErr = errors.New("frame too big for any pooled slice")
		return out
	}
	copy(ps[off:], p.Data)
	f, err := b.ParseFrame(ps[off:off+len(p.Data)], ps, off)
	if err != nil {
		b.ReturnPooledSlice(ps)
		out.ParseErr = err
		return out
	}
	if link := n.Links[p.From]; link != nil {
		f.SetRecvLink(link)
	}
	key := Key(p.Data)
	select {
	case n.Inst.SwitchV.Input() <- f:
	case <-time.After(10 * time.Second):
		out.Lost = true
		return out
	}
	deadline := time.Now().Add(10 * time.Second)
	for time.Now().Before(deadline) {
		select {
		case g := <-n.Upstream:
			d, _ := g.FrameDataWithMargins(0, 0)
			if Key(d) == key {
				out.Escalated = append([]byte(nil), d...)
				g.ReturnToPool()
				return out
			}
			g.ReturnToPool()
		default:
		}
		ms.mu.Lock()
		for i, q := range ms.InFlight {
			if q.From == p.To && Key(q.Data) == key {
				ms.InFlight = append(ms.InFlight[:i], ms.InFlight[i+1:]...)
				out.Forwarded = q
				break
			}
		}
		ms.mu.Unlock()
		if out.Forwarded != nil {
			return out
		}
		time.Sleep(20 * time.Microsecond)
	}
	out.Lost = true
	return out
}

// ---- settling: work a handler handed to another goroutine

// The mesh is driven synchronously: the harness calls a handler and looks at what it put on the links. A tree
// that hands part of that work to goroutines of its own (a send queue drained by a worker, forwarding moved to
// a pool) is still correct as far as the properties go, but its frames appear a moment after the handler returned.
// Settle waits until no manager of any node shows a running worker any more (routers of the mesh are not started,
// so outside a handler call there normally is none). Workers that never end (started lazily by such a tree) are
// recognised after two full windows; from then on Settle only grants them a short fixed grace.
func (ms *Mesh) Settle() {
	if ms.live.Load() {
		return // worker pools started by the harness itself: the caller waits for their output
	}
	if ms.async.Load() {
		core.WaitQuiet()
		return
	}
	for round := 0; round < 25; round++ {
		busy := false
		for _, n := range ms.Nodes {
			if n.Inst == nil {
				continue
			}
			if n.Inst.RouterV != nil && !n.Inst.RouterV.Manager().WaitForWorkers(time.Microsecond) {
				busy = true
			}
			if n.Inst.SwitchV != nil && !n.Inst.SwitchV.Manager().WaitForWorkers(time.Microsecond) {
				busy = true
			}
			if n.Inst.PeeringV != nil && !n.Inst.PeeringV.Manager().WaitForWorkers(time.Microsecond) {
				busy = true
			}
			if n.Inst.StateV != nil && !n.Inst.StateV.Manager().WaitForWorkers(time.Microsecond) {
				busy = true
			}
		}
		if !busy {
			break
		}
		time.Sleep(200 * time.Microsecond)
	}
	if core.GoroutinesCreated() == ms.lastCreated.Load() {
		return // no goroutine was created anywhere in the process since the last look
	}
	// Goroutines were created: a snapshot of the runtime tells whether any of them belongs to the code under
	// test and works for this driver. If so the tree under test is asynchronous (sticky: a queue's consumer can
	// be woken later without any goroutine being created).
	if core.WaitForeignIdle() {
		ms.setAsync("a snapshot shows goroutines started by the code under test for this driver")
	}
	ms.lastCreated.Store(core.GoroutinesCreated())
}
