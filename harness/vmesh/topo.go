package vmesh

import (
	"fmt"
	"math/rand/v2"
	"sort"
	"strings"

	"github.com/mycoria/mycoria/config"
	"github.com/mycoria/mycoria/m"
)

// Topology is an undirected graph on nodes 0..N-1.
type Topology struct {
	Name  string
	N     int
	Edges [][2]int
}

// Adjacent reports adjacency.
func (t *Topology) Adjacent(a, b int) bool {
	for _, e := range t.Edges {
		if (e[0] == a && e[1] == b) || (e[0] == b && e[1] == a) {
			return true
		}
	}
	return false
}

// Neighbours lists the neighbours of a.
func (t *Topology) Neighbours(a int) []int {
	var out []int
	for _, e := range t.Edges {
		if e[0] == a {
			out = append(out, e[1])
		}
		if e[1] == a {
			out = append(out, e[0])
		}
	}
	sort.Ints(out)
	return out
}

// Diameter returns the graph diameter (BFS).
func (t *Topology) Diameter() int {
	d := 0
	for s := 0; s < t.N; s++ {
		dist := t.BFS(s)
		for _, x := range dist {
			if x > d {
				d = x
			}
		}
	}
	return d
}

// BFS returns hop distances from s (-1 unreachable).
func (t *Topology) BFS(s int) []int {
	dist := make([]int, t.N)
	for i := range dist {
		dist[i] = -1
	}
	dist[s] = 0
	q := []int{s}
	for len(q) > 0 {
		x := q[0]
		q = q[1:]
		for _, y := range t.Neighbours(x) {
			if dist[y] < 0 {
				dist[y] = dist[x] + 1
				q = append(q, y)
			}
		}
	}
	return dist
}

// HasCycle reports whether the graph has a cycle (connected graphs: edges >= nodes).
func (t *Topology) HasCycle() bool { return len(t.Edges) >= t.N }

// Canon is a canonical-ish description (degree sequence + size), used for distinctness.
func (t *Topology) Canon() string {
	deg := make([]int, t.N)
	for _, e := range t.Edges {
		deg[e[0]]++
		deg[e[1]]++
	}
	sort.Ints(deg)
	return fmt.Sprintf("%s/n%d/e%d/deg%v/diam%d", t.Name, t.N, len(t.Edges), deg, t.Diameter())
}

// Line 0-1-2-...-n-1.
func Line(n int) *Topology {
	t := &Topology{Name: "line", N: n}
	for i := 0; i+1 < n; i++ {
		t.Edges = append(t.Edges, [2]int{i, i + 1})
	}
	return t
}

// Ring of n >= 3 nodes.
func Ring(n int) *Topology {
	t := Line(n)
	t.Name = "ring"
	t.Edges = append(t.Edges, [2]int{n - 1, 0})
	return t
}

// Star with centre 0.
func Star(n int) *Topology {
	t := &Topology{Name: "star", N: n}
	for i := 1; i < n; i++ {
		t.Edges = append(t.Edges, [2]int{0, i})
	}
	return t
}

// Tree is a binary tree.
func Tree(n int) *Topology {
	t := &Topology{Name: "tree", N: n}
	for i := 1; i < n; i++ {
		t.Edges = append(t.Edges, [2]int{(i - 1) / 2, i})
	}
	return t
}

// Grid w x h.
func Grid(w, h int) *Topology {
	t := &Topology{Name: fmt.Sprintf("grid%dx%d", w, h), N: w * h}
	for y := 0; y < h; y++ {
		for x := 0; x < w; x++ {
			i := y*w + x
			if x+1 < w {
				t.Edges = append(t.Edges, [2]int{i, i + 1})
			}
			if y+1 < h {
				t.Edges = append(t.Edges, [2]int{i, i + w})
			}
		}
	}
	return t
}

// RandomSparse is a random connected graph with max degree 4.
func RandomSparse(r *rand.Rand, n int) *Topology {
	t := &Topology{Name: "random", N: n}
	deg := make([]int, n)
	// random spanning tree
	perm := r.Perm(n)
	for i := 1; i < n; i++ {
		for {
			j := perm[r.IntN(i)]
			if deg[j] < 4 {
				t.Edges = append(t.Edges, [2]int{j, perm[i]})
				deg[j]++
				deg[perm[i]]++
				break
			}
		}
	}
	extra := r.IntN(n)
	for k := 0; k < extra; k++ {
		a, b := r.IntN(n), r.IntN(n)
		if a != b && deg[a] < 4 && deg[b] < 4 && !t.Adjacent(a, b) {
			t.Edges = append(t.Edges, [2]int{a, b})
			deg[a]++
			deg[b]++
		}
	}
	return t
}

// LabelMode selects the link label size classes.
type LabelMode int

// Label modes.
const (
	LabelsSmall LabelMode = iota // 1-byte labels
	LabelsBig                    // 2-byte labels
	LabelsMixed
)

// BuildOpts configures Build.
type BuildOpts struct {
	Labels     LabelMode
	InfoBytes  int  // approximate size of the router info every router announces
	Introduce  bool // every router knows every other router's identity beforehand
	FakeTun    bool
	ConfigEdit func(i int, st *config.Store)
	// LiteNodes run in lite mode (config router.lite); every link towards them reports a lite peer, as the
	// handshake would have told the other end.
	LiteNodes map[int]bool
}

// Build creates a mesh for the topology with the given identities.
func Build(r *rand.Rand, t *Topology, ids []*m.Address, o BuildOpts) (*Mesh, error) {
	ms := New()
	for i := 0; i < t.N; i++ {
		st := config.Store{System: config.System{DisableTun: !o.FakeTun}}
		if o.InfoBytes > 0 {
			rem := o.InfoBytes
			for rem > 0 {
				n := min(rem, 200)
				st.Router.IANA = append(st.Router.IANA, strings.Repeat("x", n))
				rem -= n
			}
		}
		if o.LiteNodes[i] {
			st.Router.Lite = true
		}
		if o.ConfigEdit != nil {
			o.ConfigEdit(i, &st)
		}
		cfg := config.MakeTestConfig(st)
		if _, err := ms.AddNode(ids[i], NodeOpts{Config: cfg, FakeTun: o.FakeTun}); err != nil {
			return nil, err
		}
	}
	used := make([]map[m.SwitchLabel]bool, t.N)
	for i := range used {
		used[i] = map[m.SwitchLabel]bool{}
	}
	pick := func(i int) m.SwitchLabel {
		for {
			var l m.SwitchLabel
			big := o.Labels == LabelsBig || (o.Labels == LabelsMixed && r.IntN(2) == 0)
			if big {
				l = m.SwitchLabel(128 + r.IntN(16383-128+1))
			} else {
				l = m.SwitchLabel(1 + r.IntN(127))
			}
			if !used[i][l] {
				used[i][l] = true
				return l
			}
		}
	}
	for _, e := range t.Edges {
		if err := ms.Connect(e[0], e[1], pick(e[0]), pick(e[1])); err != nil {
			return nil, err
		}
		if o.LiteNodes[e[1]] {
			ms.Nodes[e[0]].Links[e[1]].lite = true
		}
		if o.LiteNodes[e[0]] {
			ms.Nodes[e[1]].Links[e[0]].lite = true
		}
	}
	if o.Introduce {
		for a := 0; a < t.N; a++ {
			for b := 0; b < t.N; b++ {
				if a != b {
					if err := ms.Introduce(a, b); err != nil {
						return nil, err
					}
				}
			}
		}
	}
	return ms, nil
}

// AnnounceAll lets every router announce itself to every peer, like announceRouter does.
func (ms *Mesh) AnnounceAll() error {
	for _, n := range ms.Nodes {
		if n.Inst == nil {
			continue // a stub: the far end of a one-way link, no router
		}
		for _, link := range n.Inst.PeeringV.GetLinks() {
			if err := n.Inst.RouterV.AnnouncePing.Send(link.Peer()); err != nil {
				return fmt.Errorf("node %d announce to %s: %w", n.Idx, link.Peer(), err)
			}
		}
	}
	return nil
}

// IndexOf returns the node index of an address (-1 if unknown).
func (ms *Mesh) IndexOf(ip interface{ String() string }) int {
	s := ip.String()
	for _, n := range ms.Nodes {
		if n.ID.IP.String() == s {
			return n.Idx
		}
	}
	return -1
}
