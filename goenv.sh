# Sourced by ./check and setup: pins the Go toolchain independent of the caller's env.
GO=/root/go/pkg/mod/golang.org/toolchain@v0.0.1-go1.26.3.linux-amd64/bin/go
if [ ! -x "$GO" ]; then GO="$(command -v go1.26.8 || echo go)"; fi
export GOTOOLCHAIN=local GOFLAGS=-mod=mod GOPROXY=off GOSUMDB=off GONOSUMDB='*' GONOSUMCHECK=1 GOFLAGS=-mod=mod
export GOCACHE="${GOCACHE:-/root/.cache/go-build}"
